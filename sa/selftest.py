"""Self-test: every mutant (a small edit of the analysed source held in memory as an
overlay - nothing is written to /repo) must still compile and must be reported by the rule
named for it; the unmodified tree must not be reported.  Undetected mutant => exit 2
(ANALYSIS-ERROR: the checker is broken), never a VIOLATION: the verdict about /repo comes
from the normal run only."""

from __future__ import annotations

import importlib
import json
import sys
import time
import traceback
from concurrent.futures import ProcessPoolExecutor
from pathlib import Path

from . import harness
from .index import AnalysisError, Repo

VERIF = Path(__file__).resolve().parent.parent


def load_mutants(prop: str) -> list[dict]:
    try:
        mod = importlib.import_module(f"mutants.{prop}")
        muts = list(mod.MUTANTS)
    except ModuleNotFoundError:
        muts = []
    # the confirmed seeded changes written against this property (seeded/<prop><letter>/patch.diff) are
    # mutants too: each is applied in memory and must be reported by some rule of the property
    sd = VERIF / "seeded"
    if sd.is_dir():
        for d in sorted(sd.iterdir()):
            if d.is_dir() and d.name.startswith(prop) and not d.name.startswith("_") and (d / "patch.diff").exists():
                muts.append({"name": f"seeded-{d.name}", "patch": str(d / "patch.diff"), "rules": []})
    return muts


def _apply_unified_diff(repo_root: str, diff_text: str):
    """Apply a unified diff in memory: {relative file: new text} or (None, reason).  Hunks are located by
    their exact old block (context + removed lines), searched outward from the recorded position."""
    import re

    files: dict[str, list[tuple[int, list[str], list[str]]]] = {}
    cur = None
    lines = diff_text.split("\n")
    i = 0
    while i < len(lines):
        ln = lines[i]
        if ln.startswith("+++ "):
            path = ln[4:].split("\t")[0].strip()
            cur = path[2:] if path.startswith(("a/", "b/")) else path
            files.setdefault(cur, [])
        elif ln.startswith("@@") and cur is not None:
            m = re.match(r"@@ -(\d+)(?:,(\d+))? \+(\d+)(?:,(\d+))? @@", ln)
            start = int(m.group(1)) if m else 1
            old, new = [], []
            i += 1
            while i < len(lines) and not lines[i].startswith(("@@", "diff ", "--- ", "+++ ")):
                h = lines[i]
                if h.startswith("\\"):
                    pass
                elif h.startswith("-"):
                    old.append(h[1:])
                elif h.startswith("+"):
                    new.append(h[1:])
                else:
                    old.append(h[1:] if h.startswith(" ") else h)
                    new.append(h[1:] if h.startswith(" ") else h)
                i += 1
            # a trailing empty element comes from the final newline of the diff text
            while old and new and old[-1] == "" and new[-1] == "" and i >= len(lines):
                old.pop()
                new.pop()
            files[cur].append((start, old, new))
            continue
        i += 1
    out = {}
    for rel, hunks in files.items():
        if rel == "/dev/null":
            continue
        pth = Path(repo_root) / rel
        src = pth.read_text().split("\n") if pth.exists() else []
        shift = 0
        for start, old, new in hunks:
            pos = None
            guess = max(0, start - 1 + shift)
            for delta in range(0, len(src) + 1):
                for cand in (guess + delta, guess - delta):
                    if 0 <= cand <= len(src) - len(old) and src[cand : cand + len(old)] == old:
                        pos = cand
                        break
                if pos is not None:
                    break
            if pos is None:
                return None, f"hunk at line {start} of {rel} does not apply"
            src[pos : pos + len(old)] = new
            shift += len(new) - len(old)
        out[rel] = "\n".join(src)
    return out, ""


def _apply(src: str, m: dict):
    """Apply find/replace, optionally restricted to the source segment of one function
    (``func`` = dotted path inside the file, e.g. ``Detector.empty`` or ``run_pipeline``)."""
    import ast

    lo, hi = 0, len(src)
    if m.get("func"):
        try:
            tree = ast.parse(src)
        except SyntaxError as exc:
            return None, f"unparsable: {exc}"
        node = tree
        for part in m["func"].split("."):
            nxt = None
            want_setter = part.endswith("#setter")
            pname = part.replace("#setter", "")
            for ch in ast.iter_child_nodes(node):
                if isinstance(ch, (ast.FunctionDef, ast.AsyncFunctionDef, ast.ClassDef)) and ch.name == pname:
                    is_setter = any("setter" in ast.unparse(d) for d in getattr(ch, "decorator_list", []))
                    if want_setter != is_setter and isinstance(ch, ast.FunctionDef) and (want_setter or is_setter):
                        continue
                    nxt = ch
                    break
            if nxt is None:
                return None, f"function {m['func']} not found"
            node = nxt
        lines = src.splitlines(keepends=True)
        first = min([node.lineno] + [d.lineno for d in getattr(node, "decorator_list", [])])
        lo = sum(len(x) for x in lines[: first - 1])
        hi = sum(len(x) for x in lines[: node.end_lineno])
    seg = src[lo:hi]
    cnt = seg.count(m["find"])
    if cnt != m.get("count", 1):
        return None, f"pattern occurs {cnt}x"
    if "nth" in m:
        idx = -1
        for _ in range(m["nth"] + 1):
            idx = seg.index(m["find"], idx + 1)
        seg = seg[:idx] + m["replace"] + seg[idx + len(m["find"]):]
    else:
        seg = seg.replace(m["find"], m["replace"])
    return src[:lo] + seg + src[hi:], ""


def _run_one(args):
    prop, repo_root, m = args
    try:
        if m.get("patch"):
            overlay, msg = _apply_unified_diff(repo_root, Path(m["patch"]).read_text())
            if overlay is None:
                return (m["name"], "not-applicable", msg)
            for rel, txt in overlay.items():
                try:
                    compile(txt, rel, "exec")
                except SyntaxError as exc:
                    return (m["name"], "broken-mutant", f"{rel} does not compile: {exc}")
        else:
            path = Path(repo_root) / m["file"]
            src = path.read_text()
            new, msg = _apply(src, m)
            if new is None:
                return (m["name"], "not-applicable", msg)
            try:
                compile(new, m["file"], "exec")
            except SyntaxError as exc:
                return (m["name"], "broken-mutant", f"does not compile: {exc}")
            overlay = {m["file"]: new}
        for extra in m.get("also", []):
            p2 = Path(repo_root) / extra["file"]
            s2 = overlay.get(extra["file"]) or p2.read_text()
            n2, msg = _apply(s2, extra)
            if n2 is None:
                return (m["name"], "not-applicable", "secondary: " + msg)
            overlay[extra["file"]] = n2
            try:
                compile(n2, extra["file"], "exec")
            except SyntaxError as exc:
                return (m["name"], "broken-mutant", f"does not compile: {exc}")
        mod = harness.load_prop(prop)
        repo = Repo(repo_root, overlay=overlay)
        ctx = harness.Ctx(prop, repo, "quick")
        try:
            harness.run_rules(mod, ctx)
        except AnalysisError as exc:
            if m.get("analysis_error_ok"):
                return (m["name"], "killed", f"analysis-error: {exc}")
            if m.get("expect") == "ok":
                return (m["name"], "false-alarm", f"ANALYSIS-ERROR on a behaviour-preserving variant: {exc}")
            return (m["name"], "missed", f"ANALYSIS-ERROR instead of a violation: {exc}")
        known = harness.load_known()
        failing = [i for i in ctx.insts if not i.holds and not harness.match_known(prop, i, known)]
        if m.get("expect") == "ok":
            # behaviour-preserving twin: the check must stay silent
            if failing:
                i = failing[0]
                return (m["name"], "false-alarm", f"{i.rule} {i.file}:{i.line} {i.construct}: {i.reason}")
            return (m["name"], "silent", "no rule fired on the behaviour-preserving variant")
        want = set(m.get("rules", []))
        hit = [i for i in failing if not want or i.rule in want]
        if hit:
            i = hit[0]
            return (m["name"], "killed", f"{i.rule} {i.file}:{i.line} {i.construct}: {i.reason}")
        if failing:
            i = failing[0]
            return (m["name"], "missed", f"reported by {i.rule} but expected {sorted(want)}")
        return (m["name"], "missed", "no rule fired")
    except Exception:
        return (m["name"], "error", traceback.format_exc())


def main(prop, repo_root: str, jobs: int = 16, quiet: bool = False) -> int:
    props = [prop] if prop else harness_all()
    rc = 0
    summary = {}
    t0 = time.time()
    for p in props:
        muts = load_mutants(p)
        if not muts:
            continue
        with ProcessPoolExecutor(max_workers=min(jobs, len(muts))) as ex:
            res = list(ex.map(_run_one, [(p, repo_root, m) for m in muts]))
        killed = [r for r in res if r[1] in ("killed", "silent")]
        bad = [r for r in res if r[1] in ("missed", "error", "broken-mutant", "false-alarm")]
        na = [r for r in res if r[1] == "not-applicable"]
        summary[p] = {"mutants": len(muts), "killed": len(killed), "not_applicable": len(na), "missed": [r[0] for r in bad]}
        if not quiet:
            for r in res:
                print(f"  [{p}] {r[1]:15s} {r[0]}: {r[2].splitlines()[-1] if r[2] else ''}")
        for r in bad:
            print(f"ANALYSIS-ERROR property={p} self-test mutant '{r[0]}' {r[1]}: {r[2].splitlines()[-1]}")
            rc = 2
        print(f"SELFTEST property={p} mutants={len(muts)} killed={len(killed)} not_applicable={len(na)} missed={len(bad)} wall={time.time()-t0:.1f}s")
        # merge into the evidence file if present
        ev = VERIF / "evidence" / f"{p}.json"
        if ev.exists():
            try:
                d = json.loads(ev.read_text())
                d["coverage"]["selftest"] = summary[p]
                ev.write_text(json.dumps(d, indent=1))
            except Exception:
                pass
    return rc


def harness_all() -> list[str]:
    return sorted(p.stem for p in (VERIF / "props").glob("C*.py"))
