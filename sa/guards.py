"""E6: guard-interval domain.

A *guard* is an ``if`` whose body ends in ``raise``.  Its test is normalised, for one named
quantity, into the region of values that is ACCEPTED (does not raise):

    Interval(lo, lo_closed, hi, hi_closed)      numeric range (None = unbounded)
    ("len", n)                                  len(x) == n
    ("type", text)                              isinstance(x, <text>)

Wrappers ``x is not None and G``, ``x and G``, ``isinstance(x, int | float) and G`` (also as an
enclosing ``if``) are recorded as ``applies_when`` and do not change the accepted region.
A test outside the grammar yields ``None`` (callers decide whether that is an error).
"""

from __future__ import annotations

import ast
from dataclasses import dataclass
from fractions import Fraction
from typing import Optional

from .index import dotted, norm


@dataclass(frozen=True)
class Interval:
    lo: Optional[Fraction]
    lo_closed: bool
    hi: Optional[Fraction]
    hi_closed: bool

    def __str__(self) -> str:
        l = "(-inf" if self.lo is None else (("[" if self.lo_closed else "(") + _fmt(self.lo))
        h = "+inf)" if self.hi is None else (_fmt(self.hi) + ("]" if self.hi_closed else ")"))
        return f"{l}, {h}"


def _fmt(x: Fraction) -> str:
    return str(int(x)) if x.denominator == 1 else str(float(x))


def _num(e: ast.expr) -> Optional[Fraction]:
    if isinstance(e, ast.Constant) and isinstance(e.value, (int, float)) and not isinstance(e.value, bool):
        return Fraction(str(e.value)) if isinstance(e.value, float) else Fraction(e.value)
    if isinstance(e, ast.UnaryOp) and isinstance(e.op, ast.USub):
        v = _num(e.operand)
        return -v if v is not None else None
    return None


def _is_var(e: ast.expr, var: str) -> Optional[str]:
    """'plain' if e is the variable, 'min'/'max' for np.min(var)/np.max(var)/min(var)."""
    if dotted(e) == var:
        return "plain"
    if isinstance(e, ast.Call) and len(e.args) == 1 and dotted(e.args[0]) == var:
        fn = dotted(e.func) or ""
        if fn.split(".")[-1] in ("min", "amin", "nanmin"):
            return "min"
        if fn.split(".")[-1] in ("max", "amax", "nanmax"):
            return "max"
    return None


_FLIP = {ast.Lt: ast.Gt, ast.Gt: ast.Lt, ast.LtE: ast.GtE, ast.GtE: ast.LtE}


def _accept_of_compare(t: ast.Compare, var: str) -> Optional[Interval]:
    """Region where the comparison is TRUE."""
    ops = [type(o) for o in t.ops]
    terms = [t.left] + list(t.comparators)
    if len(ops) == 2 and _is_var(terms[1], var) and _num(terms[0]) is not None and _num(terms[2]) is not None:
        a, b = _num(terms[0]), _num(terms[2])
        if all(o in (ast.Lt, ast.LtE) for o in ops):
            return Interval(a, ops[0] is ast.LtE, b, ops[1] is ast.LtE)
        if all(o in (ast.Gt, ast.GtE) for o in ops):
            return Interval(b, ops[1] is ast.GtE, a, ops[0] is ast.GtE)
        return None
    if len(ops) == 1:
        l, r, op = terms[0], terms[1], ops[0]
        if _is_var(r, var) and _num(l) is not None and op in _FLIP:
            l, r, op = r, l, _FLIP[op]
        if _is_var(l, var) and _num(r) is not None:
            c = _num(r)
            if op is ast.Lt:
                return Interval(None, False, c, False)
            if op is ast.LtE:
                return Interval(None, False, c, True)
            if op is ast.Gt:
                return Interval(c, False, None, False)
            if op is ast.GtE:
                return Interval(c, True, None, False)
    return None


def _complement(i: Interval) -> Optional[Interval]:
    """Complement when it is itself one interval (one-sided input)."""
    if i.lo is None and i.hi is not None:
        return Interval(i.hi, not i.hi_closed, None, False)
    if i.hi is None and i.lo is not None:
        return Interval(None, False, i.lo, not i.lo_closed)
    return None


def _intersect(a: Interval, b: Interval) -> Interval:
    lo, lc = a.lo, a.lo_closed
    if b.lo is not None and (lo is None or b.lo > lo or (b.lo == lo and not b.lo_closed)):
        lo, lc = b.lo, b.lo_closed
    hi, hc = a.hi, a.hi_closed
    if b.hi is not None and (hi is None or b.hi < hi or (b.hi == hi and not b.hi_closed)):
        hi, hc = b.hi, b.hi_closed
    return Interval(lo, lc, hi, hc)


def _wrapper(t: ast.expr, var: str) -> Optional[str]:
    s = norm(t)
    if s == var:
        return "truthy"
    if s == f"{var} is not None":
        return "not-none"
    if s.startswith(f"isinstance({var}, ") and "Sequence" not in s:
        return "isinstance:" + s[len(f"isinstance({var}, ") : -1]
    return None


def reject_to_accept(test: ast.expr, var: str):
    """Parse a RAISING test about ``var``.

    Returns (constraint, applies_when) or None.  constraint is Interval | ("len", n) | ("type", txt).
    """
    applies = []
    t = test
    # peel `W and G`
    while isinstance(t, ast.BoolOp) and isinstance(t.op, ast.And) and len(t.values) >= 2:
        w = _wrapper(t.values[0], var)
        if w is None:
            break
        applies.append(w)
        t = t.values[1] if len(t.values) == 2 else ast.BoolOp(op=ast.And(), values=t.values[1:])
    # not (...)
    if isinstance(t, ast.UnaryOp) and isinstance(t.op, ast.Not):
        inner = t.operand
        if isinstance(inner, ast.Compare):
            if len(inner.ops) == 1 and isinstance(inner.ops[0], ast.Eq) and norm(inner.left) == f"len({var})" and _num(inner.comparators[0]) is not None:
                return ("len", int(_num(inner.comparators[0]))), tuple(applies)
            acc = _accept_of_compare(inner, var)
            if acc is not None:
                return acc, tuple(applies)
        if isinstance(inner, ast.BoolOp) and isinstance(inner.op, ast.And) and all(isinstance(v, ast.Compare) for v in inner.values):
            # not (lo <= min(x) and max(x) <= hi): conjunction of acceptance tests
            acc = None
            for v in inner.values:
                a = _accept_of_compare(v, var)
                if a is None:
                    return None
                acc = a if acc is None else _intersect(acc, a)
            return acc, tuple(applies)
        if isinstance(inner, ast.Call) and norm(inner).startswith(f"isinstance({var}, "):
            return ("type", norm(inner)[len(f"isinstance({var}, ") : -1]), tuple(applies)
        return None
    if isinstance(t, ast.Compare):
        if len(t.ops) == 1 and isinstance(t.ops[0], ast.NotEq) and norm(t.left) == f"len({var})" and _num(t.comparators[0]) is not None:
            return ("len", int(_num(t.comparators[0]))), tuple(applies)
        rej = _accept_of_compare(t, var)  # region that raises
        if rej is not None:
            acc = _complement(rej)
            if acc is not None:
                return acc, tuple(applies)
        return None
    if isinstance(t, ast.BoolOp) and isinstance(t.op, ast.Or) and len(t.values) == 2:
        parts = []
        for v in t.values:
            if not isinstance(v, ast.Compare):
                return None
            rej = _accept_of_compare(v, var)
            if rej is None:
                return None
            acc = _complement(rej)
            if acc is None:
                return None
            parts.append(acc)
        return _intersect(parts[0], parts[1]), tuple(applies)
    return None


def refuses_unordered(test: ast.expr, var: str) -> Optional[bool]:
    """Does a RAISING test fire for a value that is unordered with every number (NaN)?

    Three-valued evaluation with: every ordering / equality comparison that involves ``var`` false
    (``!=`` true), ``var`` itself truthy, ``var is None`` false.  None = cannot tell."""

    def ev(t: ast.expr) -> Optional[bool]:
        if isinstance(t, ast.BoolOp):
            vals = [ev(v) for v in t.values]
            if isinstance(t.op, ast.And):
                if any(v is False for v in vals):
                    return False
                return True if all(v is True for v in vals) else None
            if any(v is True for v in vals):
                return True
            return False if all(v is False for v in vals) else None
        if isinstance(t, ast.UnaryOp) and isinstance(t.op, ast.Not):
            v = ev(t.operand)
            return None if v is None else not v
        if isinstance(t, ast.Compare):
            terms = [t.left] + list(t.comparators)
            if len(t.ops) == 1 and isinstance(t.ops[0], (ast.Is, ast.IsNot)) and dotted(t.left) == var and isinstance(t.comparators[0], ast.Constant) and t.comparators[0].value is None:
                return isinstance(t.ops[0], ast.IsNot)
            res: Optional[bool] = True
            left = terms[0]
            for op, right in zip(t.ops, terms[1:]):
                involved = _is_var(left, var) is not None or _is_var(right, var) is not None
                if not involved:
                    link = None
                elif isinstance(op, (ast.Lt, ast.LtE, ast.Gt, ast.GtE, ast.Eq)):
                    link = False
                elif isinstance(op, ast.NotEq):
                    link = True
                else:
                    link = None
                if link is False:
                    return False
                if link is None:
                    res = None
                left = right
            return res
        if dotted(t) == var:
            return True
        if isinstance(t, ast.Call) and dotted(t.func) == "isinstance" and len(t.args) == 2 and dotted(t.args[0]) == var:
            kinds = norm(t.args[1])
            return True if any(k in kinds for k in ("float", "Number", "Real")) else None
        return None

    return ev(test)
