"""E5: polynomial normal form of arithmetic ast expressions over named symbols."""

from __future__ import annotations

import ast
from fractions import Fraction
from typing import Callable, Optional

from .index import dotted, norm

Mono = tuple[tuple[str, int], ...]  # sorted ((symbol, exponent), ...), exponents may be <0


class Poly:
    __slots__ = ("terms",)

    def __init__(self, terms: Optional[dict[Mono, Fraction]] = None):
        self.terms: dict[Mono, Fraction] = {m: c for m, c in (terms or {}).items() if c != 0}

    # constructors
    @staticmethod
    def const(c) -> "Poly":
        return Poly({(): Fraction(c)})

    @staticmethod
    def sym(name: str) -> "Poly":
        return Poly({((name, 1),): Fraction(1)})

    # arithmetic
    def __add__(self, o: "Poly") -> "Poly":
        t = dict(self.terms)
        for m, c in o.terms.items():
            t[m] = t.get(m, Fraction(0)) + c
        return Poly(t)

    def __neg__(self) -> "Poly":
        return Poly({m: -c for m, c in self.terms.items()})

    def __sub__(self, o: "Poly") -> "Poly":
        return self + (-o)

    def __mul__(self, o: "Poly") -> "Poly":
        t: dict[Mono, Fraction] = {}
        for m1, c1 in self.terms.items():
            for m2, c2 in o.terms.items():
                m = _mul_mono(m1, m2)
                t[m] = t.get(m, Fraction(0)) + c1 * c2
        return Poly(t)

    def inverse(self) -> Optional["Poly"]:
        """1/self when self is a single monomial."""
        if len(self.terms) != 1:
            return None
        (m, c), = self.terms.items()
        return Poly({tuple((s, -e) for s, e in m): 1 / c})

    def pow(self, n: int) -> "Poly":
        r = Poly.const(1)
        for _ in range(n):
            r = r * self
        return r

    # queries
    def is_zero(self) -> bool:
        return not self.terms

    def __eq__(self, o) -> bool:  # type: ignore[override]
        return isinstance(o, Poly) and (self - o).is_zero()

    def __hash__(self):  # pragma: no cover
        return hash(tuple(sorted(self.terms.items())))

    def is_const(self) -> bool:
        return all(m == () for m in self.terms)

    def const_value(self) -> Optional[Fraction]:
        if self.is_const():
            return self.terms.get((), Fraction(0))
        return None

    def symbols(self) -> set[str]:
        return {s for m in self.terms for s, _ in m}

    def degrees(self, symbol: str) -> set[int]:
        """Set of exponents of ``symbol`` over all terms (0 for terms without it)."""
        out = set()
        for m in self.terms:
            e = 0
            for s, k in m:
                if s == symbol:
                    e = k
            out.add(e)
        return out or {0}

    def __repr__(self) -> str:
        if not self.terms:
            return "0"
        parts = []
        for m, c in sorted(self.terms.items()):
            ms = "*".join(f"{s}" + (f"^{e}" if e != 1 else "") for s, e in m)
            parts.append(f"{c}" + (f"*{ms}" if ms else ""))
        return " + ".join(parts)


def _mul_mono(a: Mono, b: Mono) -> Mono:
    d: dict[str, int] = {}
    for s, e in a + b:
        d[s] = d.get(s, 0) + e
    return tuple(sorted((s, e) for s, e in d.items() if e != 0))


TRANSPARENT = {
    "np.array",
    "np.asarray",
    "np.asanyarray",
    "numpy.array",
    "numpy.asarray",
    "float",
    "int",
    "np.float64",
    "bool",
    "Quantity",
    "u.Quantity",
}


def to_poly(
    e: ast.expr,
    symmap: Optional[Callable[[str], str]] = None,
    transparent: Optional[set[str]] = None,
) -> Poly:
    """Normalise an arithmetic expression.  Unknown sub-expressions become opaque symbols."""
    tr = TRANSPARENT if transparent is None else transparent
    sm = symmap or (lambda s: s)

    def rec(n: ast.expr) -> Poly:
        if isinstance(n, ast.Constant) and isinstance(n.value, (int, float)) and not isinstance(n.value, bool):
            return Poly.const(Fraction(str(n.value)) if isinstance(n.value, float) else n.value)
        if isinstance(n, ast.UnaryOp) and isinstance(n.op, ast.USub):
            return -rec(n.operand)
        if isinstance(n, ast.UnaryOp) and isinstance(n.op, ast.UAdd):
            return rec(n.operand)
        if isinstance(n, ast.BinOp):
            if isinstance(n.op, ast.Add):
                return rec(n.left) + rec(n.right)
            if isinstance(n.op, ast.Sub):
                return rec(n.left) - rec(n.right)
            if isinstance(n.op, ast.Mult):
                return rec(n.left) * rec(n.right)
            if isinstance(n.op, ast.Div):
                inv = rec(n.right).inverse()
                if inv is not None:
                    return rec(n.left) * inv
            if isinstance(n.op, ast.Pow):
                if isinstance(n.right, ast.Constant) and isinstance(n.right.value, int) and 0 <= n.right.value <= 8:
                    return rec(n.left).pow(n.right.value)
        if isinstance(n, ast.Call):
            fn = dotted(n.func)
            if fn in tr and n.args:
                return rec(n.args[0])
        d = dotted(n)
        if d is not None:
            return Poly.sym(sm(d))
        if isinstance(n, ast.Subscript):
            return Poly.sym(sm(norm(n)))
        return Poly.sym(sm("<" + norm(n) + ">"))

    return rec(e)
