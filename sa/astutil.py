"""Small AST helpers shared by the rule modules (E4 provenance lives here too)."""

from __future__ import annotations

import ast
import copy
from typing import Callable, Iterable, Iterator, Optional

from .index import (
    AnalysisError,
    FuncInfo,
    ancestors,
    dotted,
    enclosing_stmt,
    norm,
    parent,
    walk_local,
    walk_ordered,
)


def calls_in(node: ast.AST, pred: Optional[Callable[[ast.Call], bool]] = None) -> list[ast.Call]:
    out = [n for n in walk_ordered(node) if isinstance(n, ast.Call)]
    if pred:
        out = [c for c in out if pred(c)]
    return out


def call_name(call: ast.Call) -> str:
    return dotted(call.func) or norm(call.func)


def kw(call: ast.Call, name: str) -> Optional[ast.expr]:
    for k in call.keywords:
        if k.arg == name:
            return k.value
    return None


def arg_or_kw(call: ast.Call, index: int, name: str) -> Optional[ast.expr]:
    v = kw(call, name)
    if v is not None:
        return v
    if index < len(call.args) and not isinstance(call.args[index], ast.Starred):
        return call.args[index]
    return None


def is_name(node: ast.AST, name: str) -> bool:
    return isinstance(node, ast.Name) and node.id == name


def is_chain(node: ast.AST, text: str) -> bool:
    return dotted(node) == text


def names_in(node: ast.AST) -> set[str]:
    return {n.id for n in ast.walk(node) if isinstance(n, ast.Name)}


def attr_chains_in(node: ast.AST) -> set[str]:
    out = set()
    for n in ast.walk(node):
        if isinstance(n, (ast.Attribute, ast.Name)):
            d = dotted(n)
            if d:
                out.add(d)
    return out


def is_none(node: ast.AST) -> bool:
    return isinstance(node, ast.Constant) and node.value is None


def const_value(node: ast.AST):
    if isinstance(node, ast.Constant):
        return node.value
    raise AnalysisError(f"expected constant, got {norm(node)}")


# --------------------------------------------------------------------------- stores
def assign_targets(st: ast.stmt) -> list[ast.expr]:
    if isinstance(st, ast.Assign):
        out = []
        for t in st.targets:
            if isinstance(t, (ast.Tuple, ast.List)):
                out.extend(t.elts)
            else:
                out.append(t)
        return out
    if isinstance(st, (ast.AnnAssign, ast.AugAssign)):
        return [st.target]
    return []


def stores(node: ast.AST, pred: Callable[[ast.expr], bool]) -> list[tuple[ast.stmt, ast.expr]]:
    """(statement, target) for every assignment-like store whose target satisfies pred."""
    out = []
    for n in walk_ordered(node):
        if isinstance(n, (ast.Assign, ast.AnnAssign, ast.AugAssign)):
            if isinstance(n, ast.AnnAssign) and n.value is None:
                continue
            for t in assign_targets(n):
                if pred(t):
                    out.append((n, t))
        elif isinstance(n, (ast.For, ast.AsyncFor)):
            for t in ast.walk(n.target):
                if isinstance(t, (ast.Name, ast.Attribute, ast.Subscript)) and pred(t):
                    out.append((n, t))
        elif isinstance(n, ast.withitem) and n.optional_vars is not None:
            if pred(n.optional_vars):
                out.append((enclosing_stmt(n.optional_vars), n.optional_vars))
        elif isinstance(n, ast.NamedExpr):
            if pred(n.target):
                out.append((enclosing_stmt(n), n.target))
        elif isinstance(n, ast.Delete):
            for t in n.targets:
                if pred(t):
                    out.append((n, t))
    return out


def attr_stores(node: ast.AST, base: str, attr: Optional[str] = None):
    """Stores to ``<base>.<attr>`` (base a dotted chain text, attr None = any)."""

    def pred(t: ast.expr) -> bool:
        return (
            isinstance(t, ast.Attribute)
            and dotted(t.value) == base
            and (attr is None or t.attr == attr)
        )

    return stores(node, pred)


def local_defs(f: FuncInfo | ast.AST, name: str) -> list[tuple[ast.stmt, Optional[ast.expr]]]:
    """All definitions of local variable ``name``: (statement, value expr or None)."""
    node = f.node if isinstance(f, FuncInfo) else f
    out = []
    for st, t in stores(node, lambda t: isinstance(t, ast.Name) and t.id == name):
        val = None
        if isinstance(st, (ast.Assign, ast.AnnAssign)):
            # plain single-target assignment keeps its value; tuple unpacking does not
            if isinstance(st, ast.Assign) and any(
                isinstance(x, (ast.Tuple, ast.List)) for x in st.targets
            ):
                val = None
                if len(st.targets) == 1 and isinstance(st.value, (ast.Tuple, ast.List)):
                    tg = st.targets[0]
                    if len(tg.elts) == len(st.value.elts):
                        for a, b in zip(tg.elts, st.value.elts):
                            if a is t:
                                val = b
                elif len(st.targets) == 1 and not any(
                    isinstance(x, ast.Starred) for x in st.targets[0].elts
                ):
                    # a, b = rhs   ->   a is rhs[0], b is rhs[1]
                    for i, a in enumerate(st.targets[0].elts):
                        if a is t:
                            val = ast.Subscript(
                                value=st.value, slice=ast.Constant(value=i), ctx=ast.Load()
                            )
            else:
                val = st.value
        elif isinstance(st, ast.AugAssign):
            val = None
        out.append((st, val))
    return out


def clone(n):
    """Deep copy of an ast subtree WITHOUT the parent links (copy.deepcopy would follow
    ``_parent`` and copy the whole module)."""
    if isinstance(n, ast.AST):
        new = n.__class__()
        for fld in n._fields:
            if hasattr(n, fld):
                setattr(new, fld, clone(getattr(n, fld)))
        for a in ("lineno", "col_offset", "end_lineno", "end_col_offset"):
            if hasattr(n, a):
                setattr(new, a, getattr(n, a))
        return new
    if isinstance(n, list):
        return [clone(x) for x in n]
    return n


def expand(f: FuncInfo | ast.AST, expr: ast.expr, depth: int = 6, _seen=None) -> ast.expr:
    """Substitute local single-assignment variables by their defining expression.

    A name with exactly one definition in the function (a plain assignment) and that is
    not a parameter is replaced, recursively, up to ``depth``.  Everything else is kept.
    """
    node = f.node if isinstance(f, FuncInfo) else f
    params = set()
    if isinstance(node, (ast.FunctionDef, ast.AsyncFunctionDef)):
        a = node.args
        params = {x.arg for x in a.posonlyargs + a.args + a.kwonlyargs}
        if a.vararg:
            params.add(a.vararg.arg)
        if a.kwarg:
            params.add(a.kwarg.arg)
    seen = set(_seen or ())

    class Sub(ast.NodeTransformer):
        def visit_Name(self, n: ast.Name):
            if not isinstance(n.ctx, ast.Load) or n.id in params or n.id in seen:
                return n
            defs = local_defs(node, n.id)
            if len(defs) != 1 or defs[0][1] is None or depth <= 0:
                return n
            val = defs[0][1]
            if n.id in names_in(val):
                return n
            if isinstance(
                val, (ast.Dict, ast.List, ast.Set, ast.ListComp, ast.DictComp, ast.SetComp)
            ) and _mutated(node, n.id):
                return n  # a container that is filled later is not its initial literal
            return expand(node, val, depth - 1, seen | {n.id})

        def visit_Lambda(self, n):
            return n

    return Sub().visit(clone(expr))


def _mutated(func_node: ast.AST, name: str) -> bool:
    for st, t in stores(
        func_node,
        lambda t: isinstance(t, (ast.Subscript, ast.Attribute))
        and isinstance(t.value, ast.Name)
        and t.value.id == name,
    ):
        return True
    for n in walk_local(func_node):
        if (
            isinstance(n, ast.Call)
            and isinstance(n.func, ast.Attribute)
            and isinstance(n.func.value, ast.Name)
            and n.func.value.id == name
            and n.func.attr in ("append", "extend", "update", "add", "insert", "setdefault", "pop", "clear", "remove")
        ):
            return True
    return False


def expanded_text(f, expr: ast.expr) -> str:
    return norm(expand(f, expr))


# --------------------------------------------------------------------------- guards
def always_exits(stmts: list[ast.stmt]) -> bool:
    """Every path through the statement list leaves it abruptly (return / raise / continue / break)."""
    if not stmts:
        return False
    last = stmts[-1]
    if isinstance(last, (ast.Return, ast.Raise, ast.Continue, ast.Break)):
        return True
    if isinstance(last, ast.If):
        return always_exits(last.body) and always_exits(last.orelse)
    if isinstance(last, ast.With):
        return always_exits(last.body)
    if isinstance(last, ast.Try):
        return (always_exits(last.finalbody)) or (always_exits(last.body + last.orelse) and all(always_exits(h.body) for h in last.handlers))
    return False


def always_raises(stmts: list[ast.stmt]) -> bool:
    """Every path through the statement list ends in ``raise`` (a rejection, not a skip)."""
    if not stmts:
        return False
    last = stmts[-1]
    if isinstance(last, ast.Raise):
        return True
    if isinstance(last, ast.If):
        return always_raises(last.body) and always_raises(last.orelse)
    if isinstance(last, ast.With):
        return always_raises(last.body)
    return False


def enclosing_tests(node: ast.AST, stop: Optional[ast.AST] = None, guards: bool = True, rejections: bool = False) -> list[tuple[ast.expr, bool]]:
    """(test, polarity) of every test whose outcome is known where ``node`` runs, up to ``stop``:
    every ``if``/``while``/ternary enclosing it (polarity True = node sits in the body), and -
    with ``guards`` - every earlier sibling guard clause ``if c: <always exits>`` (polarity False)
    or ``if c: ... else: <always exits>`` (polarity True).  The two forms of one decision,
    nesting and early exit, therefore give the same answer.  Guard clauses that REJECT (every
    path raises) are left out unless ``rejections``: they do not decide whether ``node`` runs in
    an execution that completes.
    """
    out = []
    child = node
    for anc in ancestors(node):
        if anc is stop:
            break
        if guards:
            for fld in ("body", "orelse", "finalbody"):
                lst = getattr(anc, fld, None)
                if isinstance(lst, list) and any(child is s for s in lst):
                    for sib in lst:
                        if sib is child:
                            break
                        if isinstance(sib, ast.If):
                            if always_exits(sib.body) and not always_exits(sib.orelse):
                                if rejections or not always_raises(sib.body):
                                    out.append((sib.test, False))
                            elif sib.orelse and always_exits(sib.orelse) and not always_exits(sib.body):
                                if rejections or not always_raises(sib.orelse):
                                    out.append((sib.test, True))
        if isinstance(anc, (ast.If, ast.While)):
            if any(child is s for s in anc.body):
                out.append((anc.test, True))
            elif any(child is s for s in anc.orelse):
                out.append((anc.test, False))
        elif isinstance(anc, ast.IfExp):
            if child is anc.body:
                out.append((anc.test, True))
            elif child is anc.orelse:
                out.append((anc.test, False))
        if isinstance(anc, (ast.FunctionDef, ast.AsyncFunctionDef, ast.Lambda)):
            break
        child = anc
    return out


def conjuncts(test: ast.expr) -> list[ast.expr]:
    if isinstance(test, ast.BoolOp) and isinstance(test.op, ast.And):
        out = []
        for v in test.values:
            out += conjuncts(v)
        return out
    return [test]


def disjuncts(test: ast.expr) -> list[ast.expr]:
    if isinstance(test, ast.BoolOp) and isinstance(test.op, ast.Or):
        out = []
        for v in test.values:
            out += disjuncts(v)
        return out
    return [test]


def is_falsy_test(test: ast.expr, var: str) -> bool:
    """``not var`` / ``var is None`` / ``var == None``."""
    if isinstance(test, ast.UnaryOp) and isinstance(test.op, ast.Not):
        return dotted(test.operand) == var
    if isinstance(test, ast.Compare) and len(test.ops) == 1:
        if isinstance(test.ops[0], (ast.Is, ast.Eq)) and is_none(test.comparators[0]):
            return dotted(test.left) == var
    return False


def is_truthy_test(test: ast.expr, var: str) -> bool:
    if dotted(test) == var:
        return True
    if isinstance(test, ast.Compare) and len(test.ops) == 1:
        if isinstance(test.ops[0], (ast.IsNot, ast.NotEq)) and is_none(test.comparators[0]):
            return dotted(test.left) == var
    return False


def loops_in(node: ast.AST) -> list[ast.For | ast.While]:
    return [n for n in walk_ordered(node) if isinstance(n, (ast.For, ast.AsyncFor, ast.While))]


def enclosing_loop(node: ast.AST) -> Optional[ast.AST]:
    for anc in ancestors(node):
        if isinstance(anc, (ast.For, ast.AsyncFor, ast.While)):
            return anc
        if isinstance(anc, (ast.FunctionDef, ast.AsyncFunctionDef, ast.Lambda)):
            return None
    return None


def loop_exits(loop: ast.AST) -> list[ast.stmt]:
    """Statements that leave ``loop`` or cut one of ITS iterations short: ``return`` anywhere in
    its body, ``break`` / ``continue`` that belong to this loop (not to a loop nested in it)."""
    out = []
    for n in walk_ordered(loop):
        if isinstance(n, ast.Return):
            out.append(n)
        elif isinstance(n, (ast.Break, ast.Continue)) and enclosing_loop(n) is loop:
            # a break in the loop's own else-clause belongs to an outer loop
            out.append(n)
    return out


def contains(outer: ast.AST, inner: ast.AST) -> bool:
    if outer is inner:
        return True
    return any(a is outer for a in ancestors(inner))


ORDER_PRESERVING = {"tuple", "list", "enumerate", "iter"}
ORDER_BREAKING = {"sorted", "reversed", "set", "frozenset", "dict", "random.shuffle", "shuffle"}


def strip_order_preserving(e: ast.expr) -> tuple[ast.expr, list[str]]:
    """Peel order-preserving wrappers; returns (core, wrappers met)."""
    met = []
    while isinstance(e, ast.Call) and call_name(e) in ORDER_PRESERVING and e.args:
        met.append(call_name(e))
        e = e.args[0]
    return e, met


def order_breakers(e: ast.expr) -> list[str]:
    out = []
    for n in ast.walk(e):
        if isinstance(n, ast.Call) and call_name(n) in ORDER_BREAKING:
            out.append(call_name(n))
        if isinstance(n, ast.Subscript) and isinstance(n.slice, ast.Slice):
            out.append("slice[" + norm(n.slice) + "]")
    return out


def returns_of(f: FuncInfo | ast.AST) -> list[ast.Return]:
    node = f.node if isinstance(f, FuncInfo) else f
    return [n for n in walk_ordered(node) if isinstance(n, ast.Return)]


def single_return_expr(f: FuncInfo) -> ast.expr:
    rs = [r for r in returns_of(f) if r.value is not None]
    if len(rs) != 1:
        raise AnalysisError(f"{f.qual}: expected exactly one return with a value, found {len(rs)}")
    return rs[0].value  # type: ignore[return-value]


# --------------------------------------------------------------------------- raise guards
def raising_ifs(node: ast.AST) -> list[ast.If]:
    """``if`` statements (elif included) whose body ends in ``raise`` on all paths."""
    from .cfg import ends_in_raise

    return [n for n in walk_ordered(node) if isinstance(n, ast.If) and ends_in_raise(n.body)]


def first_store_stmt(node: ast.AST, target_text: str) -> Optional[ast.stmt]:
    sts = stores(node, lambda t: dotted(t) == target_text)
    return sts[0][0] if sts else None


def stmt_calls(f, resolver, qualnames: set[str]) -> list[ast.Call]:
    """Calls in ``f`` whose resolved callee is one of ``qualnames``."""
    out = []
    for cs in resolver.call_sites(f):
        if isinstance(cs.node, ast.Call) and any(getattr(c, "qual", None) in qualnames for c in cs.callees):
            out.append(cs.node)
    out.sort(key=lambda c: (c.lineno, c.col_offset))
    return out


def flow_closure(f, expr: ast.expr) -> set[str]:
    """Names the value of ``expr`` may derive from inside function ``f``: transitive closure
    over *all* local definitions (assignments and augmented assignments) of the names met."""
    node = f.node if isinstance(f, FuncInfo) else f
    live = set(names_in(expr))
    body = [s for s in walk_ordered(node) if isinstance(s, (ast.Assign, ast.AugAssign, ast.AnnAssign))]
    changed = True
    while changed:
        changed = False
        for s_ in body:
            tg = s_.targets if isinstance(s_, ast.Assign) else [s_.target]
            tn = {x.id for t in tg for x in ast.walk(t) if isinstance(x, ast.Name)}
            if tn & live and getattr(s_, "value", None) is not None:
                add = names_in(s_.value) - live
                if add:
                    live |= add
                    changed = True
    return live
