"""Small AST helpers shared by the rule modules (E4 provenance lives here too)."""

from __future__ import annotations

import ast
import copy
from typing import Callable, Iterable, Iterator, Optional

from .index import (
    AnalysisError,
    FuncInfo,
    ancestors,
    dotted,
    enclosing_stmt,
    norm,
    parent,
    walk_local,
    walk_ordered,
)


def calls_in(node: ast.AST, pred: Optional[Callable[[ast.Call], bool]] = None) -> list[ast.Call]:
    out = [n for n in walk_ordered(node) if isinstance(n, ast.Call)]
    if pred:
        out = [c for c in out if pred(c)]
    return out


def call_name(call: ast.Call) -> str:
    return dotted(call.func) or norm(call.func)


def kw(call: ast.Call, name: str) -> Optional[ast.expr]:
    for k in call.keywords:
        if k.arg == name:
            return k.value
    # f(**opts) where `opts` is a local mapping built from constant keys (`opts = {"a": x}; opts["b"] = y`):
    # the keyword is the entry of that mapping
    for k in call.keywords:
        if k.arg is None and isinstance(k.value, ast.Name):
            fn = getattr(call, "_parent", None)
            while fn is not None and not isinstance(fn, (ast.FunctionDef, ast.AsyncFunctionDef)):
                fn = getattr(fn, "_parent", None)
            if fn is None:
                continue
            try:
                dd = dict_display(fn, k.value.id)
            except Exception:
                dd = None
            if dd is not None:
                for kk, vv in zip(dd.keys, dd.values):
                    if kk is not None and isinstance(kk, ast.Constant) and kk.value == name:
                        return vv
    return None


def arg_or_kw(call: ast.Call, index: int, name: str) -> Optional[ast.expr]:
    v = kw(call, name)
    if v is not None:
        return v
    if index < len(call.args) and not isinstance(call.args[index], ast.Starred):
        return call.args[index]
    return None


def is_name(node: ast.AST, name: str) -> bool:
    return isinstance(node, ast.Name) and node.id == name


def is_chain(node: ast.AST, text: str) -> bool:
    return dotted(node) == text


def names_in(node: ast.AST) -> set[str]:
    return {n.id for n in ast.walk(node) if isinstance(n, ast.Name)}


def attr_chains_in(node: ast.AST) -> set[str]:
    out = set()
    for n in ast.walk(node):
        if isinstance(n, (ast.Attribute, ast.Name)):
            d = dotted(n)
            if d:
                out.add(d)
    return out


def is_none(node: ast.AST) -> bool:
    return isinstance(node, ast.Constant) and node.value is None


def const_value(node: ast.AST):
    if isinstance(node, ast.Constant):
        return node.value
    raise AnalysisError(f"expected constant, got {norm(node)}")


# --------------------------------------------------------------------------- stores
def assign_targets(st: ast.stmt) -> list[ast.expr]:
    if isinstance(st, ast.Assign):
        out = []
        for t in st.targets:
            if isinstance(t, (ast.Tuple, ast.List)):
                out.extend(t.elts)
            else:
                out.append(t)
        return out
    if isinstance(st, (ast.AnnAssign, ast.AugAssign)):
        return [st.target]
    return []


def stores(node: ast.AST, pred: Callable[[ast.expr], bool]) -> list[tuple[ast.stmt, ast.expr]]:
    """(statement, target) for every assignment-like store whose target satisfies pred."""
    out = []
    for n in walk_ordered(node):
        if isinstance(n, (ast.Assign, ast.AnnAssign, ast.AugAssign)):
            if isinstance(n, ast.AnnAssign) and n.value is None:
                continue
            for t in assign_targets(n):
                if pred(t):
                    out.append((n, t))
        elif isinstance(n, (ast.For, ast.AsyncFor)):
            for t in ast.walk(n.target):
                if isinstance(t, (ast.Name, ast.Attribute, ast.Subscript)) and pred(t):
                    out.append((n, t))
        elif isinstance(n, ast.withitem) and n.optional_vars is not None:
            if pred(n.optional_vars):
                out.append((enclosing_stmt(n.optional_vars), n.optional_vars))
        elif isinstance(n, ast.NamedExpr):
            if pred(n.target):
                out.append((enclosing_stmt(n), n.target))
        elif isinstance(n, ast.Delete):
            for t in n.targets:
                if pred(t):
                    out.append((n, t))
    return out


def attr_stores(node: ast.AST, base: str, attr: Optional[str] = None):
    """Stores to ``<base>.<attr>`` (base a dotted chain text, attr None = any)."""

    def pred(t: ast.expr) -> bool:
        return (
            isinstance(t, ast.Attribute)
            and dotted(t.value) == base
            and (attr is None or t.attr == attr)
        )

    return stores(node, pred)


def local_defs(f: FuncInfo | ast.AST, name: str) -> list[tuple[ast.stmt, Optional[ast.expr]]]:
    """All definitions of local variable ``name``: (statement, value expr or None)."""
    node = f.node if isinstance(f, FuncInfo) else f
    out = []
    for st, t in stores(node, lambda t: isinstance(t, ast.Name) and t.id == name):
        val = None
        if isinstance(st, (ast.Assign, ast.AnnAssign)):
            # plain single-target assignment keeps its value; tuple unpacking does not
            if isinstance(st, ast.Assign) and any(
                isinstance(x, (ast.Tuple, ast.List)) for x in st.targets
            ):
                val = None
                if len(st.targets) == 1 and isinstance(st.value, (ast.Tuple, ast.List)):
                    tg = st.targets[0]
                    if len(tg.elts) == len(st.value.elts):
                        for a, b in zip(tg.elts, st.value.elts):
                            if a is t:
                                val = b
                elif len(st.targets) == 1 and not any(
                    isinstance(x, ast.Starred) for x in st.targets[0].elts
                ):
                    # a, b = rhs   ->   a is rhs[0], b is rhs[1]
                    for i, a in enumerate(st.targets[0].elts):
                        if a is t:
                            val = ast.Subscript(
                                value=st.value, slice=ast.Constant(value=i), ctx=ast.Load()
                            )
            else:
                val = st.value
        elif isinstance(st, ast.AugAssign):
            val = None
        out.append((st, val))
    return out


def clone(n):
    """Deep copy of an ast subtree WITHOUT the parent links (copy.deepcopy would follow
    ``_parent`` and copy the whole module)."""
    if isinstance(n, ast.AST):
        new = n.__class__()
        for fld in n._fields:
            if hasattr(n, fld):
                setattr(new, fld, clone(getattr(n, fld)))
        for a in ("lineno", "col_offset", "end_lineno", "end_col_offset"):
            if hasattr(n, a):
                setattr(new, a, getattr(n, a))
        new._src = getattr(n, "_src", n)  # the node of the indexed tree this copy stands for
        if hasattr(n, "_origin"):
            new._origin = n._origin
        return new
    if isinstance(n, list):
        return [clone(x) for x in n]
    return n


def _empty_container(val: ast.expr) -> Optional[str]:
    if isinstance(val, ast.List) and not val.elts:
        return "list"
    if isinstance(val, ast.Dict) and not val.keys:
        return "dict"
    if isinstance(val, ast.Call) and not val.args and not val.keywords and isinstance(val.func, ast.Name) and val.func.id in ("list", "dict"):
        return val.func.id
    return None


def _mutation_sites(func_node: ast.AST, name: str) -> list[ast.AST]:
    """Every construct that changes the container bound to local ``name`` in place."""
    out: list[ast.AST] = []
    for st, t in stores(func_node, lambda t: isinstance(t, (ast.Subscript, ast.Attribute)) and isinstance(t.value, ast.Name) and t.value.id == name):
        out.append(st)
    for st, t in stores(func_node, lambda t: isinstance(t, ast.Name) and t.id == name):
        if isinstance(st, ast.AugAssign):
            out.append(st)
    for n in walk_local(func_node):
        if isinstance(n, ast.Call) and isinstance(n.func, ast.Attribute) and isinstance(n.func.value, ast.Name) and n.func.value.id == name and n.func.attr in ("append", "extend", "update", "add", "insert", "setdefault", "pop", "clear", "remove", "sort", "reverse", "popitem", "appendleft"):
            out.append(n)
    return out


def accumulator_comp(func_node: ast.AST, name: str) -> Optional[ast.expr]:
    """The comprehension equivalent to an accumulate-loop over local ``name``, or None.

    Recognised life cycles (``x`` has exactly one definition and exactly one in-place change):
      x = [] ; for t in S: [if c:] x.append(E)             ->  [E for t in S if c]
      x = {} ; for t in S: [if c:] x[K] = V | x.update({K: V})  ->  {K: V for t in S if c}
      x = dict(A) | A.copy() | {**A} ; x.update(B)           ->  {**A, **B}
    Loops may nest; temporaries assigned once inside the loop are substituted into E.  A loop
    with break / continue / return / else, or a while / try around the change, is not recognised.
    """
    defs = local_defs(func_node, name)
    # counter:  n = 0 ; for t in S: [if c:] n += E      ->   sum(E for t in S if c)
    plain = [(st_, v_) for st_, v_ in defs if not isinstance(st_, ast.AugAssign)]
    augs = [st_ for st_, v_ in defs if isinstance(st_, ast.AugAssign)]
    if len(plain) == 1 and len(augs) == 1 and isinstance(plain[0][1], ast.Constant) and plain[0][1].value == 0 and isinstance(augs[0].op, ast.Add) and isinstance(augs[0].target, ast.Name):
        return _loop_comp(func_node, name, plain[0][0], augs[0], None, augs[0].value, counter=True)
    if len(defs) != 1 or defs[0][1] is None:
        return None
    dst, dval = defs[0]
    sites = _mutation_sites(func_node, name)
    if len(sites) != 1:
        return None
    site = sites[0]
    kind = _empty_container(dval)
    # x = dict(A); x.update(B)
    if kind is None:
        base = None
        if isinstance(dval, ast.Call) and call_name(dval) == "dict" and len(dval.args) == 1 and not dval.keywords:
            base = dval.args[0]
        elif isinstance(dval, ast.Call) and isinstance(dval.func, ast.Attribute) and dval.func.attr == "copy" and not dval.args:
            base = dval.func.value
        elif isinstance(dval, ast.Dict) and len(dval.keys) == 1 and dval.keys[0] is None:
            base = dval.values[0]
        if base is not None and isinstance(site, ast.Call) and site.func.attr == "update" and len(site.args) == 1 and not site.keywords:
            sst = enclosing_stmt(site)
            if isinstance(sst, ast.Expr) and parent(sst) is parent(dst):
                return ast.copy_location(ast.Dict(keys=[None, None], values=[clone(base), clone(site.args[0])]), dval)
        return None
    # element / key / value
    elt = key = None
    if isinstance(site, ast.Call):
        sst = enclosing_stmt(site)
        if not isinstance(sst, ast.Expr) or sst.value is not site:
            return None
        extra = []
        if kind == "list" and site.func.attr == "append" and len(site.args) == 1:
            elt = site.args[0]
        elif kind == "list" and site.func.attr == "extend" and len(site.args) == 1 and isinstance(site.args[0], (ast.ListComp, ast.GeneratorExp)):
            # x.extend(E for u in T)  ==  for u in T: x.append(E)
            elt = site.args[0].elt
            extra = [clone(g_) for g_ in site.args[0].generators]
            return _loop_comp(func_node, name, dst, sst, key, elt, extra_gens=extra)
        elif kind == "dict" and site.func.attr == "update" and len(site.args) == 1 and isinstance(site.args[0], ast.Dict) and len(site.args[0].keys) == 1 and site.args[0].keys[0] is not None:
            key, elt = site.args[0].keys[0], site.args[0].values[0]
        else:
            return None
    elif isinstance(site, ast.Assign) and kind == "dict" and len(site.targets) == 1 and isinstance(site.targets[0], ast.Subscript):
        sst = site
        key, elt = site.targets[0].slice, site.value
    else:
        return None
    return _loop_comp(func_node, name, dst, sst, key, elt)


def _loop_comp(func_node, name, dst, sst, key, elt, counter: bool = False, extra_gens=None) -> Optional[ast.expr]:
    # chain of loops / ifs between the definition's statement list and the site
    gens: list[ast.comprehension] = []
    pending_ifs: list[ast.expr] = []
    child: ast.AST = sst
    chain = []
    for anc in ancestors(sst):
        if anc is func_node or isinstance(anc, (ast.FunctionDef, ast.AsyncFunctionDef, ast.Lambda, ast.ClassDef)):
            break
        if parent(dst) is anc and any(child is s_ for fld in ("body", "orelse", "finalbody") for s_ in (getattr(anc, fld, None) or [])) and not isinstance(anc, (ast.For, ast.If)):
            break
        chain.append((anc, child))
        if parent(dst) is anc:
            # definition and loop live in the same block of this for/if: the container is
            # re-created there; outer constructs are not part of the accumulation
            chain.pop()
            break
        child = anc
    loops = [a for a, _ in chain if isinstance(a, (ast.For,))]
    if not loops:
        return None
    for anc, ch in reversed(chain):
        if isinstance(anc, ast.For):
            if anc.orelse or any(e is not None for e in loop_exits(anc)):
                return None
            gens.append(ast.comprehension(target=clone(anc.target), iter=clone(anc.iter), ifs=[], is_async=0))
        elif isinstance(anc, ast.If):
            if not gens:
                return None
            if any(ch is s_ for s_ in anc.body):
                gens[-1].ifs.append(clone(anc.test))
            else:
                gens[-1].ifs.append(ast.UnaryOp(op=ast.Not(), operand=clone(anc.test)))
        else:
            return None
    outer = loops[-1]
    # temporaries of the loop body
    loop_targets = {n.id for lp in loops for n in ast.walk(lp.target) if isinstance(n, ast.Name)}
    if extra_gens:
        gens.extend(extra_gens)
        loop_targets |= {n.id for g_ in extra_gens for n in ast.walk(g_.target) if isinstance(n, ast.Name)}

    def sub(e: ast.expr) -> ast.expr:
        return _expand_in(func_node, e, scope=outer, stop=loop_targets | {name})

    if counter:
        new: ast.expr = ast.Call(func=ast.Name(id="sum", ctx=ast.Load()), args=[ast.GeneratorExp(elt=sub(elt), generators=gens)], keywords=[])
    elif key is not None:
        new = ast.DictComp(key=sub(key), value=sub(elt), generators=gens)
    else:
        new = ast.ListComp(elt=sub(elt), generators=gens)
    for g in gens:
        g.ifs = [sub(t) for t in g.ifs]
    new._acc_loop = outer  # type: ignore[attr-defined]
    return ast.fix_missing_locations(ast.copy_location(new, outer))


def _expand_in(func_node, e: ast.expr, scope: ast.AST, stop: set[str], depth: int = 4) -> ast.expr:
    """Substitute temporaries that are assigned exactly once, inside ``scope``."""

    class T(ast.NodeTransformer):
        def visit_Name(self, n: ast.Name):
            if not isinstance(n.ctx, ast.Load) or n.id in stop or depth <= 0:
                return n
            defs = local_defs(func_node, n.id)
            if len(defs) == 2 and all(v_ is not None and contains(scope, s_) and n.id not in names_in(v_) for s_, v_ in defs):
                # if c: t = A else: t = B   ->   A if c else B
                p0, p1 = parent(defs[0][0]), parent(defs[1][0])
                if p0 is p1 and isinstance(p0, ast.If) and any(defs[0][0] is s_ for s_ in p0.body) and any(defs[1][0] is s_ for s_ in p0.orelse) and len(p0.body) == 1 and len(p0.orelse) == 1:
                    ife = ast.IfExp(test=clone(p0.test), body=clone(defs[0][1]), orelse=clone(defs[1][1]))
                    return _expand_in(func_node, ast.copy_location(ife, n), scope, stop | {n.id}, depth - 1)
            if len(defs) != 1 or defs[0][1] is None or not contains(scope, defs[0][0]) or n.id in names_in(defs[0][1]):
                return n
            if _mutated(func_node, n.id):
                comp = accumulator_comp(func_node, n.id)
                if comp is None:
                    return n
                return _expand_in(func_node, comp, scope, stop | {n.id}, depth - 1)
            return _expand_in(func_node, defs[0][1], scope, stop | {n.id}, depth - 1)

        def visit_Lambda(self, n):
            return n

    return T().visit(clone(e))


def fuse_comprehensions(e: ast.expr) -> ast.expr:
    """[E(t) for t in [G(u) for u in S if c]]  ->  [E(G(u)) for u in S if c]   (bottom-up);
    dict(zip(K, V))  ->  {k: v for k, v in zip(K, V)}."""

    class F(ast.NodeTransformer):
        def _fuse(self, n):
            self.generic_visit(n)
            changed = True
            while changed:
                changed = False
                for i, g in enumerate(n.generators):
                    it = g.iter
                    if isinstance(it, (ast.ListComp, ast.GeneratorExp)) and len(it.generators) == 1 and isinstance(g.target, ast.Name):
                        var = g.target.id
                        inner = it.generators[0]

                        class S(ast.NodeTransformer):
                            def visit_Name(self, m):
                                if m.id == var and isinstance(m.ctx, ast.Load):
                                    return clone(it.elt)
                                return m

                        for fld in ("elt", "key", "value"):
                            if hasattr(n, fld):
                                setattr(n, fld, S().visit(getattr(n, fld)))
                        for g2 in n.generators[i + 1 :]:
                            g2.iter = S().visit(g2.iter)
                            g2.ifs = [S().visit(t) for t in g2.ifs]
                        new_ifs = list(inner.ifs) + [S().visit(t) for t in g.ifs]
                        n.generators[i] = ast.comprehension(target=inner.target, iter=inner.iter, ifs=new_ifs, is_async=0)
                        changed = True
                        break
            return n

        visit_ListComp = visit_GeneratorExp = visit_SetComp = visit_DictComp = _fuse

        def visit_Call(self, n: ast.Call):
            self.generic_visit(n)
            if isinstance(n.func, ast.Name) and n.func.id == "dict" and len(n.args) == 1 and not n.keywords and isinstance(n.args[0], ast.Call) and call_name(n.args[0]) == "zip" and len(n.args[0].args) == 2:
                z = n.args[0]
                tgt = ast.Tuple(elts=[ast.Name(id="_k", ctx=ast.Store()), ast.Name(id="_v", ctx=ast.Store())], ctx=ast.Store())
                new = ast.DictComp(key=ast.Name(id="_k", ctx=ast.Load()), value=ast.Name(id="_v", ctx=ast.Load()), generators=[ast.comprehension(target=tgt, iter=z, ifs=[], is_async=0)])
                return ast.fix_missing_locations(ast.copy_location(new, n))
            return n

    return F().visit(clone(e))


def expand(f: FuncInfo | ast.AST, expr: ast.expr, depth: int = 6, _seen=None) -> ast.expr:
    """Substitute local single-assignment variables by their defining expression.

    A name with exactly one definition in the function (a plain assignment) and that is
    not a parameter is replaced, recursively, up to ``depth``.  Everything else is kept.
    """
    if expr is None:
        return None  # an absent argument / keyword: nothing to expand (callers compare the result with what they expect)
    node = f.node if isinstance(f, FuncInfo) else f
    params = set()
    if isinstance(node, (ast.FunctionDef, ast.AsyncFunctionDef)):
        a = node.args
        params = {x.arg for x in a.posonlyargs + a.args + a.kwonlyargs}
        if a.vararg:
            params.add(a.vararg.arg)
        if a.kwarg:
            params.add(a.kwarg.arg)
    seen = set(_seen or ())

    class Sub(ast.NodeTransformer):
        def visit_Name(self, n: ast.Name):
            if not isinstance(n.ctx, ast.Load) or n.id in params or n.id in seen:
                return n
            defs = local_defs(node, n.id)
            if len(defs) == 2 and depth > 0 and any(isinstance(st_, ast.AugAssign) for st_, _ in defs):
                comp = accumulator_comp(node, n.id)
                if comp is not None:
                    lp = getattr(comp, "_acc_loop", None)
                    src = getattr(n, "_src", n)
                    if lp is None or not any(a is lp for a in ancestors(src)):
                        return fuse_comprehensions(expand(node, comp, depth - 1, seen | {n.id}))
                return n
            if len(defs) != 1 or defs[0][1] is None or depth <= 0:
                return n
            val = defs[0][1]
            if n.id in names_in(val):
                return n
            if _mutated(node, n.id):
                # a container that is filled later is not its initial value; an accumulate-loop
                # is replaced by the equivalent comprehension (uses inside that loop excepted)
                comp = accumulator_comp(node, n.id)
                if comp is None:
                    if isinstance(val, (ast.Dict, ast.List, ast.Set, ast.ListComp, ast.DictComp, ast.SetComp)) or _empty_container(val) or (isinstance(val, ast.Call) and call_name(val) in ("dict", "list")):
                        return n
                else:
                    lp = getattr(comp, "_acc_loop", None)
                    src = getattr(n, "_src", n)
                    if lp is not None and any(a is lp for a in ancestors(src)):
                        return n
                    return fuse_comprehensions(expand(node, comp, depth - 1, seen | {n.id}))
            return expand(node, val, depth - 1, seen | {n.id})

        def visit_Lambda(self, n):
            return n

    return Sub().visit(clone(expr))


def _target_path(target: ast.expr, name: str) -> Optional[list[int]]:
    if isinstance(target, ast.Name):
        return [] if target.id == name else None
    if isinstance(target, (ast.Tuple, ast.List)):
        for i, e in enumerate(target.elts):
            if isinstance(e, ast.Starred):
                return None
            p = _target_path(e, name)
            if p is not None:
                return [i] + p
    return None


def alpha(f: FuncInfo | ast.AST, expr: ast.expr, depth: int = 6) -> ast.expr:
    """Rename-invariant form of ``expr``: local single-assignment names are expanded and a name
    bound (only) as the target of one ``for`` loop or comprehension becomes ``EACH(<iterable>)[i]..``,
    the i-th component of an element of what is iterated.  Two functions that differ only in the
    names of locals and loop variables give the same text."""
    node = f.node if isinstance(f, FuncInfo) else f
    e = expand(node, expr, depth)

    class A(ast.NodeTransformer):
        def __init__(self):
            self.bound: list[set[str]] = []

        def _comp(self, n):
            names = {x.id for g in n.generators for x in ast.walk(g.target) if isinstance(x, ast.Name)}
            self.bound.append(names)
            self.generic_visit(n)
            self.bound.pop()
            return n

        visit_ListComp = visit_SetComp = visit_GeneratorExp = visit_DictComp = _comp

        def visit_Lambda(self, n):
            return n

        def visit_Name(self, n: ast.Name):
            if not isinstance(n.ctx, ast.Load) or any(n.id in b for b in self.bound):
                return n
            defs = [(st, t) for st, t in stores(node, lambda t: isinstance(t, ast.Name) and t.id == n.id)]
            if len(defs) != 1 or not isinstance(defs[0][0], (ast.For, ast.AsyncFor)):
                return n
            lp = defs[0][0]
            path = _target_path(lp.target, n.id)
            if path is None or depth <= 0:
                return n
            it = alpha(node, lp.iter, depth - 1) if n.id not in names_in(lp.iter) else clone(lp.iter)
            out: ast.expr = ast.Call(func=ast.Name(id="EACH", ctx=ast.Load()), args=[it], keywords=[])
            for i in path:
                out = ast.Subscript(value=out, slice=ast.Constant(value=i), ctx=ast.Load())
            return ast.fix_missing_locations(ast.copy_location(out, n))

    return A().visit(e)


def seq_len(f: FuncInfo | ast.AST, expr: ast.expr, _depth: int = 8) -> Optional[str]:
    """A token naming the LENGTH of the sequence ``expr`` denotes (two expressions with the same
    token have the same length whatever the inputs), "inf" for an endless iterator, None = unknown."""
    node = f.node if isinstance(f, FuncInfo) else f
    e = alpha(node, expr)

    def L(x: ast.expr, d: int) -> Optional[str]:
        if d <= 0:
            return None
        if isinstance(x, (ast.ListComp, ast.GeneratorExp)) and len(x.generators) == 1 and not x.generators[0].ifs:
            return L(x.generators[0].iter, d - 1)
        if isinstance(x, (ast.Tuple, ast.List)) and not any(isinstance(t, ast.Starred) for t in x.elts):
            return f"#{len(x.elts)}"
        if isinstance(x, ast.Call):
            fn = call_name(x)
            last = fn.split(".")[-1]
            if last == "count" and fn in ("count", "itertools.count"):
                return "inf"
            if fn in ("list", "tuple", "sorted", "reversed", "enumerate", "iter") and x.args:
                return L(x.args[0], d - 1)
            if isinstance(x.func, ast.Attribute) and x.func.attr in ("values", "keys", "items") and not x.args:
                return L(x.func.value, d - 1)
            if fn == "zip" and x.args and not any(isinstance(a_, ast.Starred) for a_ in x.args):
                ls = {L(a_, d - 1) for a_ in x.args} - {"inf"}
                return ls.pop() if len(ls) == 1 and None not in ls else None
            if fn == "range" and len(x.args) == 1 and isinstance(x.args[0], ast.Call) and call_name(x.args[0]) == "len" and x.args[0].args:
                return L(x.args[0].args[0], d - 1)
            return None
        if isinstance(x, ast.Subscript) and isinstance(x.slice, ast.Constant) and isinstance(x.slice.value, int):
            # EACH(zip(A, B))[i] is an element of the i-th operand; EACH(enumerate(A))[1] of A
            base = x.value
            if isinstance(base, ast.Call) and call_name(base) == "EACH" and base.args:
                it = base.args[0]
                if isinstance(it, ast.Call) and call_name(it) == "zip" and x.slice.value < len(it.args):
                    return E(it.args[x.slice.value], d - 1)
                if isinstance(it, ast.Call) and call_name(it) == "enumerate" and x.slice.value == 1 and it.args:
                    return E(it.args[0], d - 1)
            return None
        if isinstance(x, ast.Call) and call_name(x) == "EACH" and x.args:
            return E(x.args[0], d - 1)
        if isinstance(x, (ast.Name, ast.Attribute)):
            return "len:" + norm(x)
        return None

    def E(it: ast.expr, d: int) -> Optional[str]:
        """Length of ONE ELEMENT of iterable ``it``."""
        if d <= 0:
            return None
        if isinstance(it, ast.Call) and call_name(it) in ("itertools.product", "product") and len(it.args) == 1 and isinstance(it.args[0], ast.Starred) and not it.keywords:
            return L(it.args[0].value, d - 1)
        if isinstance(it, ast.Call) and call_name(it) == "zip" and not any(isinstance(a_, ast.Starred) for a_ in it.args):
            return f"#{len(it.args)}"
        if isinstance(it, ast.Call) and call_name(it) in ("list", "tuple", "iter") and it.args:
            return E(it.args[0], d - 1)
        if isinstance(it, ast.Call) and call_name(it) == "EACH":
            return None
        return None

    return L(e, _depth)


def _mutated(func_node: ast.AST, name: str) -> bool:
    for st, t in stores(
        func_node,
        lambda t: isinstance(t, (ast.Subscript, ast.Attribute))
        and isinstance(t.value, ast.Name)
        and t.value.id == name,
    ):
        return True
    for n in walk_local(func_node):
        if (
            isinstance(n, ast.Call)
            and isinstance(n.func, ast.Attribute)
            and isinstance(n.func.value, ast.Name)
            and n.func.value.id == name
            and n.func.attr in ("append", "extend", "update", "add", "insert", "setdefault", "pop", "clear", "remove")
        ):
            return True
    return False


def expanded_text(f, expr: ast.expr) -> str:
    return norm(expand(f, expr))


# --------------------------------------------------------------------------- guards
def always_exits(stmts: list[ast.stmt]) -> bool:
    """Every path through the statement list leaves it abruptly (return / raise / continue / break)."""
    if not stmts:
        return False
    last = stmts[-1]
    if isinstance(last, (ast.Return, ast.Raise, ast.Continue, ast.Break)):
        return True
    if isinstance(last, ast.If):
        return always_exits(last.body) and always_exits(last.orelse)
    if isinstance(last, ast.With):
        return always_exits(last.body)
    if isinstance(last, ast.Try):
        return (always_exits(last.finalbody)) or (always_exits(last.body + last.orelse) and all(always_exits(h.body) for h in last.handlers))
    return False


def always_raises(stmts: list[ast.stmt]) -> bool:
    """Every path through the statement list ends in ``raise`` (a rejection, not a skip)."""
    if not stmts:
        return False
    last = stmts[-1]
    if isinstance(last, ast.Raise):
        return True
    if isinstance(last, ast.If):
        return always_raises(last.body) and always_raises(last.orelse)
    if isinstance(last, ast.With):
        return always_raises(last.body)
    return False


def enclosing_tests(node: ast.AST, stop: Optional[ast.AST] = None, guards: bool = True, rejections: bool = False) -> list[tuple[ast.expr, bool]]:
    """(test, polarity) of every test whose outcome is known where ``node`` runs, up to ``stop``:
    every ``if``/``while``/ternary enclosing it (polarity True = node sits in the body), and -
    with ``guards`` - every earlier sibling guard clause ``if c: <always exits>`` (polarity False)
    or ``if c: ... else: <always exits>`` (polarity True).  The two forms of one decision,
    nesting and early exit, therefore give the same answer.  Guard clauses that REJECT (every
    path raises) are left out unless ``rejections``: they do not decide whether ``node`` runs in
    an execution that completes.
    """
    out = []
    child = node
    for anc in ancestors(node):
        if anc is stop and not guards:
            break
        if guards:
            for fld in ("body", "orelse", "finalbody"):
                lst = getattr(anc, fld, None)
                if isinstance(lst, list) and any(child is s for s in lst):
                    for sib in lst:
                        if sib is child:
                            break
                        if isinstance(sib, ast.If):
                            if always_exits(sib.body) and not always_exits(sib.orelse):
                                if rejections or not always_raises(sib.body):
                                    out.append((sib.test, False))
                            elif sib.orelse and always_exits(sib.orelse) and not always_exits(sib.body):
                                if rejections or not always_raises(sib.orelse):
                                    out.append((sib.test, True))
        if anc is stop:
            break  # the guard clauses of `stop`'s own block still count, its enclosing tests do not
        if isinstance(anc, (ast.If, ast.While)):
            if any(child is s for s in anc.body):
                out.append((anc.test, True))
            elif any(child is s for s in anc.orelse):
                out.append((anc.test, False))
        elif isinstance(anc, ast.IfExp):
            if child is anc.body:
                out.append((anc.test, True))
            elif child is anc.orelse:
                out.append((anc.test, False))
        if isinstance(anc, (ast.FunctionDef, ast.AsyncFunctionDef, ast.Lambda)):
            break
        child = anc
    # one spelling per decision: `not X` known to hold  ==  X known not to hold
    canon = []
    for t, pol in out:
        while isinstance(t, ast.UnaryOp) and isinstance(t.op, ast.Not):
            t, pol = t.operand, not pol
        canon.append((t, pol))
    return canon


def conjuncts(test: ast.expr) -> list[ast.expr]:
    if isinstance(test, ast.BoolOp) and isinstance(test.op, ast.And):
        out = []
        for v in test.values:
            out += conjuncts(v)
        return out
    return [test]


def disjuncts(test: ast.expr) -> list[ast.expr]:
    if isinstance(test, ast.BoolOp) and isinstance(test.op, ast.Or):
        out = []
        for v in test.values:
            out += disjuncts(v)
        return out
    return [test]


def is_falsy_test(test: ast.expr, var: str) -> bool:
    """``not var`` / ``var is None`` / ``var == None``."""
    if isinstance(test, ast.UnaryOp) and isinstance(test.op, ast.Not):
        return dotted(test.operand) == var
    if isinstance(test, ast.Compare) and len(test.ops) == 1:
        if isinstance(test.ops[0], (ast.Is, ast.Eq)) and is_none(test.comparators[0]):
            return dotted(test.left) == var
    return False


def is_truthy_test(test: ast.expr, var: str) -> bool:
    if dotted(test) == var:
        return True
    if isinstance(test, ast.Compare) and len(test.ops) == 1:
        if isinstance(test.ops[0], (ast.IsNot, ast.NotEq)) and is_none(test.comparators[0]):
            return dotted(test.left) == var
    return False


def loops_in(node: ast.AST) -> list[ast.For | ast.While]:
    return [n for n in walk_ordered(node) if isinstance(n, (ast.For, ast.AsyncFor, ast.While))]


def enclosing_loop(node: ast.AST) -> Optional[ast.AST]:
    for anc in ancestors(node):
        if isinstance(anc, (ast.For, ast.AsyncFor, ast.While)):
            return anc
        if isinstance(anc, (ast.FunctionDef, ast.AsyncFunctionDef, ast.Lambda)):
            return None
    return None


def loop_exits(loop: ast.AST) -> list[ast.stmt]:
    """Statements that leave ``loop`` or cut one of ITS iterations short: ``return`` anywhere in
    its body, ``break`` / ``continue`` that belong to this loop (not to a loop nested in it)."""
    out = []
    for n in walk_ordered(loop):
        if isinstance(n, ast.Return):
            out.append(n)
        elif isinstance(n, (ast.Break, ast.Continue)) and enclosing_loop(n) is loop:
            # a break in the loop's own else-clause belongs to an outer loop
            out.append(n)
    return out


def contains(outer: ast.AST, inner: ast.AST) -> bool:
    if outer is inner:
        return True
    return any(a is outer for a in ancestors(inner))


ORDER_PRESERVING = {"tuple", "list", "enumerate", "iter"}
ORDER_BREAKING = {"sorted", "reversed", "set", "frozenset", "dict", "random.shuffle", "shuffle"}


def strip_order_preserving(e: ast.expr) -> tuple[ast.expr, list[str]]:
    """Peel order-preserving wrappers; returns (core, wrappers met)."""
    met = []
    while isinstance(e, ast.Call) and call_name(e) in ORDER_PRESERVING and e.args:
        met.append(call_name(e))
        e = e.args[0]
    return e, met


def order_breakers(e: ast.expr) -> list[str]:
    out = []
    for n in ast.walk(e):
        if isinstance(n, ast.Call) and call_name(n) in ORDER_BREAKING:
            out.append(call_name(n))
        if isinstance(n, ast.Subscript) and isinstance(n.slice, ast.Slice):
            out.append("slice[" + norm(n.slice) + "]")
    return out


def returns_of(f: FuncInfo | ast.AST) -> list[ast.Return]:
    node = f.node if isinstance(f, FuncInfo) else f
    return [n for n in walk_ordered(node) if isinstance(n, ast.Return)]


def single_return_expr(f: FuncInfo) -> ast.expr:
    rs = [r for r in returns_of(f) if r.value is not None]
    if len(rs) != 1:
        raise AnalysisError(f"{f.qual}: expected exactly one return with a value, found {len(rs)}")
    return rs[0].value  # type: ignore[return-value]


# --------------------------------------------------------------------------- raise guards
def raising_ifs(node: ast.AST) -> list[ast.If]:
    """``if`` statements (elif included) whose body ends in ``raise`` on all paths."""
    from .cfg import ends_in_raise

    return [n for n in walk_ordered(node) if isinstance(n, ast.If) and ends_in_raise(n.body)]


def first_store_stmt(node: ast.AST, target_text: str) -> Optional[ast.stmt]:
    sts = stores(node, lambda t: dotted(t) == target_text)
    return sts[0][0] if sts else None


def stmt_calls(f, resolver, qualnames: set[str]) -> list[ast.Call]:
    """Calls in ``f`` whose resolved callee is one of ``qualnames``."""
    out = []
    for cs in resolver.call_sites(f):
        if isinstance(cs.node, ast.Call) and any(getattr(c, "qual", None) in qualnames for c in cs.callees):
            out.append(cs.node)
    out.sort(key=lambda c: (c.lineno, c.col_offset))
    return out


_MUTATORS = ("append", "extend", "update", "add", "insert", "setdefault", "appendleft", "__setitem__")


def flow_exprs(f, expr: ast.expr) -> tuple[set[str], list[ast.expr]]:
    """(names, value expressions) the value of ``expr`` may derive from inside ``f``: transitive
    closure over ALL local definitions of the names met - assignments, augmented assignments,
    loop / with targets, and container fills (``x.append(v)``, ``x[k] = v``, ``x.update(v)``)."""
    node = f.node if isinstance(f, FuncInfo) else f
    live = set(names_in(expr))
    exprs: list[ast.expr] = [expr]
    edges: list[tuple[set[str], ast.expr]] = []
    for s_ in walk_ordered(node):
        if isinstance(s_, (ast.Assign, ast.AugAssign, ast.AnnAssign)) and getattr(s_, "value", None) is not None:
            tg = s_.targets if isinstance(s_, ast.Assign) else [s_.target]
            tn = set()
            for t in tg:
                base = t
                while isinstance(base, (ast.Subscript, ast.Attribute, ast.Starred)):
                    base = base.value
                if isinstance(base, ast.Name):
                    tn.add(base.id)
                elif isinstance(base, (ast.Tuple, ast.List)):
                    tn |= {x.id for x in ast.walk(base) if isinstance(x, ast.Name) and isinstance(x.ctx, ast.Store)}
            edges.append((tn, s_.value))
        elif isinstance(s_, (ast.For, ast.AsyncFor, ast.comprehension)):
            edges.append(({x.id for x in ast.walk(s_.target) if isinstance(x, ast.Name)}, s_.iter))
        elif isinstance(s_, ast.withitem) and s_.optional_vars is not None:
            edges.append(({x.id for x in ast.walk(s_.optional_vars) if isinstance(x, ast.Name)}, s_.context_expr))
        elif isinstance(s_, ast.NamedExpr):
            edges.append(({s_.target.id}, s_.value))
        elif isinstance(s_, ast.Call) and isinstance(s_.func, ast.Attribute) and s_.func.attr in _MUTATORS and isinstance(s_.func.value, ast.Name):
            for a in list(s_.args) + [k.value for k in s_.keywords]:
                edges.append(({s_.func.value.id}, a))
    changed = True
    used = set()
    while changed:
        changed = False
        for i, (tn, val) in enumerate(edges):
            if i in used or not (tn & live):
                continue
            used.add(i)
            exprs.append(val)
            add = names_in(val) - live
            if add:
                live |= add
            changed = True
    return live, exprs


def flow_closure(f, expr: ast.expr) -> set[str]:
    """Names the value of ``expr`` may derive from inside function ``f`` (see flow_exprs)."""
    return flow_exprs(f, expr)[0]


def result_sites(f) -> list[tuple[ast.stmt, ast.expr]]:
    """(statement, value) pairs that decide what ``f`` returns: every ``return e`` with ``e`` not a
    plain local, and - for ``return x`` with ``x`` a local - every definition of ``x`` (so that
    ``found = E ... return found`` and ``return E`` describe the same result sites)."""
    node = f.node if isinstance(f, FuncInfo) else f
    out: list[tuple[ast.stmt, ast.expr]] = []
    seen: set[str] = set()
    for r in returns_of(node):
        if r.value is None:
            continue
        if isinstance(r.value, ast.Name):
            defs = [(st, val) for st, val in local_defs(node, r.value.id) if val is not None]
            if defs:
                if r.value.id not in seen:
                    seen.add(r.value.id)
                    out.extend(defs)
                continue
        out.append((r, r.value))
    return out


def same_node(a: ast.AST, b: ast.AST) -> bool:
    """``a`` and ``b`` stand for the same construct: identical, or copies (expand / inlining)
    of one node of the indexed tree."""
    return a is b or getattr(a, "_src", a) is getattr(b, "_src", b)


def raise_conditions(f) -> list[tuple[ast.Raise, list[tuple[ast.expr, bool]]]]:
    """For every ``raise`` of ``f``: the tests known to hold there, in canonical polarity
    (``not X`` / ``!=`` / ``is not`` / ``not in`` flipped), whether the rejection is written as
    ``if bad: raise``, as ``if good: return`` followed by ``raise``, or in an ``else``."""
    from .paths import canon_test

    node = f.node if isinstance(f, FuncInfo) else f
    out = []
    for r in walk_ordered(node):
        if isinstance(r, ast.Raise):
            out.append((r, [canon_test(t, pol) for t, pol in enclosing_tests(r, rejections=True)]))
    return out


def branch_blocks(iff: ast.If) -> tuple[list[ast.stmt], list[ast.stmt]]:
    """(statements run when the test holds, statements run when it does not), reading a guard
    clause like the equivalent if/else: after ``if c: <always exits>`` the following statements of
    the same block ARE the else branch."""
    body, orelse = list(iff.body), list(iff.orelse)
    par = parent(iff)
    following: list[ast.stmt] = []
    if par is not None:
        for fld in ("body", "orelse", "finalbody"):
            lst = getattr(par, fld, None)
            if isinstance(lst, list) and any(x is iff for x in lst):
                idx = next(i for i, x in enumerate(lst) if x is iff)
                following = list(lst[idx + 1 :])
    if not orelse and always_exits(body):
        return body, following
    if orelse and always_exits(orelse) and not always_exits(body):
        return body + following, orelse
    return body, orelse


def knows(tests, text: str, pol: bool = True) -> bool:
    """``tests`` (as returned by enclosing_tests / raise_conditions) contain the decision
    ``text`` with polarity ``pol``; both sides are compared in canonical form, so
    knows(ts, "not x.empty") == knows(ts, "x.empty", False)."""
    from .paths import canon_test

    want_t, want_p = canon_test(ast.parse(text, mode="eval").body, pol)
    wt = norm(want_t)
    for t, p_ in tests:
        ct, cp = canon_test(t, p_)
        if norm(ct) == wt and cp == want_p:
            return True
    return False


def only_knows(tests, text: str, pol: bool = True) -> bool:
    """Exactly that one decision is known."""
    return len(tests) == 1 and knows(tests, text, pol)


def dict_display(f, name: str) -> Optional[ast.Dict]:
    """The dictionary a local ends up as, when it is built by constant-key stores:

        d = {} | dict() | {<literal entries>} ; d["a"] = X ; if c: d["b"] = Y else: d["b"] = Z ; d.update({"k": V})

    becomes the display {"a": X, "b": (Y, Z), "k": V} (a key stored on several branches gets the
    tuple of its values, so that what each value reads stays visible).  None when the local is not
    built that way (non-constant keys, handed out / rebound in between)."""
    node = f.node if isinstance(f, FuncInfo) else f
    defs = [(st, v) for st, v in local_defs(node, name) if v is not None]
    if len(defs) != 1:
        return None
    dst, dval = defs[0]
    if isinstance(dval, ast.Call) and call_name(dval) == "dict" and not dval.args:
        entries = [(k.arg, k.value) for k in dval.keywords if k.arg]
    elif isinstance(dval, ast.Call) and call_name(dval).split(".")[-1] in ("Dataset", "OrderedDict", "defaultdict") and not dval.args and not [k for k in dval.keywords if k.arg not in ("attrs",)]:
        entries = []  # an empty keyed container filled by `x["k"] = v`
    elif isinstance(dval, ast.Dict) and all(isinstance(k, ast.Constant) for k in dval.keys):
        entries = [(k.value, v) for k, v in zip(dval.keys, dval.values)]
    else:
        return None
    found = False
    for st in walk_ordered(node):
        if isinstance(st, (ast.Assign, ast.AnnAssign)):
            tg = st.targets if isinstance(st, ast.Assign) else [st.target]
            for t in tg:
                if isinstance(t, ast.Subscript) and dotted(t.value) == name:
                    if not isinstance(t.slice, ast.Constant) or getattr(st, "value", None) is None:
                        return None
                    entries.append((t.slice.value, st.value))
                    found = True
        elif isinstance(st, ast.Expr) and isinstance(st.value, ast.Call) and isinstance(st.value.func, ast.Attribute) and dotted(st.value.func.value) == name:
            c = st.value
            if c.func.attr == "update" and len(c.args) == 1 and isinstance(c.args[0], ast.Dict) and all(isinstance(k, ast.Constant) for k in c.args[0].keys) and not c.keywords:
                entries += [(k.value, v) for k, v in zip(c.args[0].keys, c.args[0].values)]
                found = True
            elif c.func.attr == "update" and not c.args and c.keywords and all(k.arg for k in c.keywords):
                entries += [(k.arg, k.value) for k in c.keywords]
                found = True
            elif c.func.attr == "update" and len(c.args) == 1 and not c.keywords:
                entries.append((None, c.args[0]))  # **mapping: unknown keys, kept as a spread entry
                found = True
            elif c.func.attr in ("pop", "clear", "popitem", "setdefault", "update"):
                return None
    if not found and not isinstance(dval, ast.Dict):
        return None
    merged: dict = {}
    for k, v in entries:
        merged.setdefault(k, []).append(v)
    keys, values = [], []
    for k, vs in merged.items():
        if k is None:
            for v_ in vs:
                keys.append(None)
                values.append(v_)
            continue
        keys.append(ast.Constant(value=k))
        if len(vs) == 1:
            values.append(vs[0])
        else:
            # nested writes into an entry first bound to {} (d["k"] = {}; d["k"][x] = v) keep their values visible too
            values.append(ast.Tuple(elts=list(vs), ctx=ast.Load()))
    # stores one level below: d["k"][...] = V  ->  V joins the values of key "k"
    for st in walk_ordered(node):
        if isinstance(st, ast.Assign):
            for t in st.targets:
                if isinstance(t, ast.Subscript) and isinstance(t.value, ast.Subscript) and dotted(t.value.value) == name and isinstance(t.value.slice, ast.Constant):
                    k = t.value.slice.value
                    for i, kk in enumerate(keys):
                        if kk is not None and kk.value == k:
                            old = values[i]
                            # what the stored value derives from includes the sequences the enclosing loops walk
                            its = [a_.iter for a_ in ancestors(st) if isinstance(a_, (ast.For, ast.AsyncFor))]
                            values[i] = ast.Tuple(elts=(list(old.elts) if isinstance(old, ast.Tuple) else [old]) + [st.value] + its, ctx=ast.Load())
    return ast.fix_missing_locations(ast.copy_location(ast.Dict(keys=keys, values=values), dval))


def precedes(root, a: ast.AST, b: ast.AST) -> bool:
    """``a`` comes before ``b`` in the statement order of ``root`` (source order of the tree as analysed - NOT line
    numbers: code inlined from a helper keeps the helper's own line numbers)."""
    node = root.node if isinstance(root, FuncInfo) else root
    ia = ib = None
    for i, n in enumerate(walk_ordered(node)):
        if n is a:
            ia = i
        if n is b:
            ib = i
    if ia is None or ib is None:
        la, lb = getattr(a, "lineno", 0), getattr(b, "lineno", 0)
        return la < lb
    return ia < ib


def after_block(root, block: ast.AST, n: ast.AST) -> bool:
    """``n`` is outside ``block`` and comes after it."""
    return not contains(block, n) and precedes(root, block, n)
