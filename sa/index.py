"""E1 SourceIndex: parse every module of the analysed package once.

Everything here works on the *source text* of the repository (``ast`` only); nothing is
imported or executed.
"""

from __future__ import annotations

import ast
import hashlib
import os
from dataclasses import dataclass, field
from pathlib import Path
from typing import Iterator, Optional


class AnalysisError(Exception):
    """The analysis cannot be carried out (vanished anchor, unknown construct, ...).

    Never reported as a VIOLATION: the CLI prints ``ANALYSIS-ERROR`` and exits 2.
    """


# --------------------------------------------------------------------------- helpers
def norm(node: ast.AST | str | None) -> str:
    """Normalised source text of a node (independent of formatting and comments)."""
    if node is None:
        return ""
    if isinstance(node, str):
        try:
            node = ast.parse(node)
        except SyntaxError:
            return " ".join(node.split())
    try:
        return ast.unparse(node)
    except Exception:  # pragma: no cover
        return ast.dump(node)


def dotted(node: ast.AST) -> Optional[str]:
    """``a.b.c`` for Name/Attribute chains, else None."""
    parts = []
    while isinstance(node, ast.Attribute):
        parts.append(node.attr)
        node = node.value
    if isinstance(node, ast.Name):
        parts.append(node.id)
        return ".".join(reversed(parts))
    return None


def set_parents(tree: ast.AST) -> None:
    for parent in ast.walk(tree):
        for child in ast.iter_child_nodes(parent):
            child._parent = parent  # type: ignore[attr-defined]


def parent(node: ast.AST) -> Optional[ast.AST]:
    return getattr(node, "_parent", None)


def ancestors(node: ast.AST) -> Iterator[ast.AST]:
    p = parent(node)
    while p is not None:
        yield p
        p = parent(p)


def enclosing_stmt(node: ast.AST) -> ast.stmt:
    n: ast.AST | None = node
    while n is not None and not isinstance(n, ast.stmt):
        n = parent(n)
    if n is None:
        raise AnalysisError("expression without enclosing statement")
    return n  # type: ignore[return-value]


def walk_local(node: ast.AST, *, into_nested: bool = False) -> Iterator[ast.AST]:
    """Walk a function body without descending into nested defs/lambdas/classes."""
    stack = list(ast.iter_child_nodes(node))
    while stack:
        n = stack.pop()
        yield n
        if not into_nested and isinstance(
            n, (ast.FunctionDef, ast.AsyncFunctionDef, ast.ClassDef, ast.Lambda)
        ):
            continue
        stack.extend(ast.iter_child_nodes(n))


def walk_ordered(node: ast.AST, *, into_nested: bool = False) -> Iterator[ast.AST]:
    """Like walk_local but in source order (pre-order)."""
    for child in ast.iter_child_nodes(node):
        yield child
        if not into_nested and isinstance(
            child, (ast.FunctionDef, ast.AsyncFunctionDef, ast.ClassDef, ast.Lambda)
        ):
            continue
        yield from walk_ordered(child, into_nested=into_nested)


# --------------------------------------------------------------------------- records
@dataclass(eq=False)
class FuncInfo:
    qual: str  # "pyxel.pipelines.processor:Processor.run_pipeline"
    name: str
    node: ast.FunctionDef
    module: "Module"
    cls: Optional["ClassInfo"] = None
    outer: Optional["FuncInfo"] = None
    kind: str = "function"  # function | method | getter | setter | staticmethod | classmethod
    decorators: list[str] = field(default_factory=list)
    nested: dict[str, "FuncInfo"] = field(default_factory=dict)

    @property
    def file(self) -> str:
        return self.module.relpath

    @property
    def line(self) -> int:
        return self.node.lineno

    @property
    def params(self) -> list[str]:
        a = self.node.args
        names = [x.arg for x in a.posonlyargs + a.args]
        if a.vararg:
            names.append(a.vararg.arg)
        names += [x.arg for x in a.kwonlyargs]
        if a.kwarg:
            names.append(a.kwarg.arg)
        return names

    def param_default(self, name: str) -> Optional[ast.expr]:
        a = self.node.args
        pos = a.posonlyargs + a.args
        defaults = [None] * (len(pos) - len(a.defaults)) + list(a.defaults)
        for p, d in zip(pos, defaults):
            if p.arg == name:
                return d
        for p, d in zip(a.kwonlyargs, a.kw_defaults):
            if p.arg == name:
                return d
        return None

    def param_annotation(self, name: str) -> Optional[ast.expr]:
        a = self.node.args
        for p in a.posonlyargs + a.args + a.kwonlyargs:
            if p.arg == name:
                return p.annotation
        return None

    def __repr__(self) -> str:
        return f"<Func {self.qual}>"


@dataclass(eq=False)
class ClassInfo:
    qual: str  # "pyxel.pipelines.processor:Processor"
    name: str
    node: ast.ClassDef
    module: "Module"
    base_exprs: list[str] = field(default_factory=list)
    methods: dict[str, FuncInfo] = field(default_factory=dict)
    getters: dict[str, FuncInfo] = field(default_factory=dict)
    setters: dict[str, FuncInfo] = field(default_factory=dict)
    consts: dict[str, ast.expr] = field(default_factory=dict)
    const_ann: dict[str, ast.expr] = field(default_factory=dict)

    @property
    def file(self) -> str:
        return self.module.relpath

    def all_funcs(self) -> list[FuncInfo]:
        return (
            list(self.methods.values())
            + list(self.getters.values())
            + list(self.setters.values())
        )

    def __repr__(self) -> str:
        return f"<Class {self.qual}>"


@dataclass(eq=False)
class Module:
    name: str  # "pyxel.pipelines.processor"
    path: Path
    relpath: str
    tree: ast.Module
    src: str
    is_pkg: bool
    imports: dict[str, str] = field(default_factory=dict)  # local name -> dotted target
    functions: dict[str, FuncInfo] = field(default_factory=dict)
    classes: dict[str, ClassInfo] = field(default_factory=dict)
    globals_: dict[str, ast.expr] = field(default_factory=dict)  # simple NAME = expr

    @property
    def lines(self) -> list[str]:
        return self.src.splitlines()


# --------------------------------------------------------------------------- index
class Repo:
    def __init__(
        self,
        root: str | os.PathLike,
        package: str = "pyxel",
        overlay: Optional[dict[str, str]] = None,
    ):
        self.root = Path(root)
        self.package = package
        self.overlay = dict(overlay or {})
        self._mro_cache: dict[str, list[ClassInfo]] = {}
        self._sub_cache: dict[str, list[ClassInfo]] = {}
        self.modules: dict[str, Module] = {}
        self.funcs: dict[str, FuncInfo] = {}
        self.classes: dict[str, ClassInfo] = {}
        self.consulted: set[str] = set()
        self._load()

    # ---- loading
    def _load(self) -> None:
        pkgdir = self.root / self.package
        if not pkgdir.is_dir():
            raise AnalysisError(f"package directory {pkgdir} not found")
        for path in sorted(pkgdir.rglob("*.py")):
            rel = path.relative_to(self.root)
            parts = list(rel.with_suffix("").parts)
            is_pkg = parts[-1] == "__init__"
            if is_pkg:
                parts = parts[:-1]
            name = ".".join(parts)
            if str(rel) in self.overlay:
                src = self.overlay[str(rel)]
            else:
                src = path.read_text(encoding="utf-8")
            try:
                tree = ast.parse(src, filename=str(path))
            except SyntaxError as exc:
                raise AnalysisError(f"cannot parse {rel}: {exc}") from exc
            set_parents(tree)
            mod = Module(name, path, str(rel), tree, src, is_pkg)
            self.modules[name] = mod
        for mod in self.modules.values():
            self._index_module(mod)

    def digest(self) -> str:
        h = hashlib.sha256()
        for name in sorted(self.modules):
            h.update(name.encode())
            h.update(self.modules[name].src.encode())
        return h.hexdigest()

    def _abs_import(self, mod: Module, level: int, target: Optional[str]) -> str:
        if level == 0:
            return target or ""
        parts = mod.name.split(".")
        if not mod.is_pkg:
            parts = parts[:-1]
        if level > 1:
            parts = parts[: len(parts) - (level - 1)]
        if target:
            parts = parts + target.split(".")
        return ".".join(parts)

    def _index_module(self, mod: Module) -> None:
        # imports anywhere in the module (function-local imports are common here)
        for n in ast.walk(mod.tree):
            if isinstance(n, ast.Import):
                for a in n.names:
                    if a.asname:
                        mod.imports.setdefault(a.asname, a.name)
                    else:
                        top = a.name.split(".")[0]
                        mod.imports.setdefault(top, top)
            elif isinstance(n, ast.ImportFrom):
                base = self._abs_import(mod, n.level, n.module)
                for a in n.names:
                    if a.name == "*":
                        continue
                    mod.imports.setdefault(a.asname or a.name, f"{base}.{a.name}")
        for st in mod.tree.body:
            self._index_stmt(mod, st)

    def _index_stmt(self, mod: Module, st: ast.stmt) -> None:
        if isinstance(st, (ast.FunctionDef, ast.AsyncFunctionDef)):
            fi = self._mk_func(mod, st, None, None)
            mod.functions[st.name] = fi
        elif isinstance(st, ast.ClassDef):
            self._mk_class(mod, st)
        elif isinstance(st, ast.Assign) and len(st.targets) == 1:
            t = st.targets[0]
            if isinstance(t, ast.Name):
                mod.globals_[t.id] = st.value
        elif isinstance(st, ast.AnnAssign) and isinstance(st.target, ast.Name):
            if st.value is not None:
                mod.globals_[st.target.id] = st.value
        elif isinstance(st, (ast.If, ast.Try)):
            # e.g. `if TYPE_CHECKING:` / try-import blocks
            for sub in ast.iter_child_nodes(st):
                if isinstance(sub, ast.stmt):
                    self._index_stmt(mod, sub)
                elif isinstance(sub, ast.ExceptHandler):
                    for s2 in sub.body:
                        self._index_stmt(mod, s2)

    def _mk_func(
        self,
        mod: Module,
        node: ast.FunctionDef,
        cls: Optional[ClassInfo],
        outer: Optional[FuncInfo],
    ) -> FuncInfo:
        decos = [norm(d) for d in node.decorator_list]
        kind = "method" if cls is not None and outer is None else "function"
        for d in decos:
            if d == "property" or d.endswith("cached_property"):
                kind = "getter"
            elif d.endswith(".setter"):
                kind = "setter"
            elif d == "staticmethod":
                kind = "staticmethod"
            elif d == "classmethod":
                kind = "classmethod"
        if outer is not None:
            qual = f"{outer.qual}.<locals>.{node.name}"
        elif cls is not None:
            suffix = {"setter": "#setter"}.get(kind, "")
            qual = f"{cls.qual}.{node.name}{suffix}"
        else:
            qual = f"{mod.name}:{node.name}"
        fi = FuncInfo(qual, node.name, node, mod, cls, outer, kind, decos)
        self.funcs[qual] = fi
        # nested defs
        for n in walk_local(node):
            if isinstance(n, (ast.FunctionDef, ast.AsyncFunctionDef)):
                # only direct nesting level (walk_local does not descend further)
                sub = self._mk_func(mod, n, cls, fi)
                fi.nested[n.name] = sub
        return fi

    def _mk_class(self, mod: Module, node: ast.ClassDef) -> None:
        ci = ClassInfo(f"{mod.name}:{node.name}", node.name, node, mod)
        ci.base_exprs = [norm(b) for b in node.bases]
        mod.classes[node.name] = ci
        self.classes[ci.qual] = ci
        for st in node.body:
            if isinstance(st, (ast.FunctionDef, ast.AsyncFunctionDef)):
                fi = self._mk_func(mod, st, ci, None)
                if fi.kind == "getter":
                    ci.getters[st.name] = fi
                elif fi.kind == "setter":
                    ci.setters[st.name] = fi
                else:
                    ci.methods[st.name] = fi
            elif isinstance(st, ast.Assign) and len(st.targets) == 1:
                if isinstance(st.targets[0], ast.Name):
                    ci.consts[st.targets[0].id] = st.value
            elif isinstance(st, ast.AnnAssign) and isinstance(st.target, ast.Name):
                ci.const_ann[st.target.id] = st.annotation
                if st.value is not None:
                    ci.consts[st.target.id] = st.value

    # ---- lookup
    def module(self, name: str) -> Module:
        m = self.modules.get(name)
        if m is None:
            raise AnalysisError(f"anchor module {name} not found")
        self.consulted.add(m.relpath)
        return m

    def func(self, qual: str) -> FuncInfo:
        f = self.funcs.get(qual)
        if f is None:
            raise AnalysisError(f"anchor function {qual} not found")
        self.consulted.add(f.module.relpath)
        return f

    def cls(self, qual: str) -> ClassInfo:
        c = self.classes.get(qual)
        if c is None:
            raise AnalysisError(f"anchor class {qual} not found")
        self.consulted.add(c.module.relpath)
        return c

    def has_func(self, qual: str) -> bool:
        return qual in self.funcs

    def resolve_dotted(self, dotted_name: str, _depth: int = 0):
        """Resolve an absolute dotted name to Module | ClassInfo | FuncInfo | str.

        A string result is an external (non-repo) dotted name such as ``numpy.random.seed``.
        Re-exports through ``__init__`` modules are followed.
        """
        if _depth > 12:
            return dotted_name
        if dotted_name in self.modules:
            return self.modules[dotted_name]
        parts = dotted_name.split(".")
        if parts[0] != self.package:
            return dotted_name
        # longest module prefix
        for i in range(len(parts) - 1, 0, -1):
            mname = ".".join(parts[:i])
            if mname in self.modules:
                mod = self.modules[mname]
                rest = parts[i:]
                return self._resolve_in_module(mod, rest, _depth)
        return dotted_name

    def _resolve_in_module(self, mod: Module, rest: list[str], _depth: int):
        head = rest[0]
        obj = None
        if head in mod.classes:
            obj = mod.classes[head]
        elif head in mod.functions:
            obj = mod.functions[head]
        elif head in mod.imports and mod.imports[head] != f"{mod.name}.{head}":
            target = mod.imports[head]
            obj = self.resolve_dotted(target, _depth + 1)
            if isinstance(obj, str):
                return ".".join([obj] + rest[1:])
        elif head in mod.globals_:
            return f"{mod.name}.{'.'.join(rest)}"
        else:
            return f"{mod.name}.{'.'.join(rest)}"
        for attr in rest[1:]:
            if isinstance(obj, Module):
                obj = self._resolve_in_module(obj, [attr], _depth + 1)
            elif isinstance(obj, ClassInfo):
                m = self.find_member(obj, attr)
                if m is None:
                    return f"{obj.qual}.{attr}"
                obj = m
            else:
                return f"{getattr(obj, 'qual', obj)}.{attr}"
        return obj

    def resolve_name(self, mod: Module, name: str):
        """Resolve a (possibly dotted) name as written in module ``mod``."""
        parts = name.split(".")
        head = parts[0]
        if head in mod.classes:
            return self._resolve_in_module(mod, parts, 0)
        if head in mod.functions:
            return self._resolve_in_module(mod, parts, 0)
        if head in mod.imports:
            target = mod.imports[head]
            return self.resolve_dotted(".".join([target] + parts[1:]))
        if head in mod.globals_:
            return f"{mod.name}.{name}"
        return name  # builtin or unknown

    def external_name(self, mod: Module, node: ast.AST) -> Optional[str]:
        """Canonical dotted name of a Name/Attribute chain as an *external* symbol.

        ``np.random.seed`` -> ``numpy.random.seed``.  Returns None if not a dotted chain.
        Repo-internal objects are returned as their qualified name string.
        """
        d = dotted(node)
        if d is None:
            return None
        r = self.resolve_name(mod, d)
        if isinstance(r, (FuncInfo, ClassInfo)):
            return r.qual
        if isinstance(r, Module):
            return r.name
        return r

    # ---- class hierarchy
    def bases(self, ci: ClassInfo) -> list[ClassInfo]:
        out = []
        for b in ci.base_exprs:
            r = self.resolve_name(ci.module, b.split("[")[0])
            if isinstance(r, ClassInfo):
                out.append(r)
        return out

    def mro(self, ci: ClassInfo) -> list[ClassInfo]:
        if ci.qual in self._mro_cache:
            return self._mro_cache[ci.qual]
        seen: list[ClassInfo] = []

        def rec(c: ClassInfo) -> None:
            if c in seen:
                return
            seen.append(c)
            for b in self.bases(c):
                rec(b)

        rec(ci)
        self._mro_cache[ci.qual] = seen
        return seen

    def subclasses(self, ci: ClassInfo) -> list[ClassInfo]:
        if ci.qual not in self._sub_cache:
            self._sub_cache[ci.qual] = [
                c for c in self.classes.values() if c is not ci and ci in self.mro(c)
            ]
        return self._sub_cache[ci.qual]

    def find_member(self, ci: ClassInfo, name: str, *, setter: bool = False):
        for c in self.mro(ci):
            if setter:
                if name in c.setters:
                    return c.setters[name]
                continue
            if name in c.methods:
                return c.methods[name]
            if name in c.getters:
                return c.getters[name]
        return None

    def find_const(self, ci: ClassInfo, name: str) -> Optional[ast.expr]:
        for c in self.mro(ci):
            if name in c.consts:
                return c.consts[name]
        return None

    def all_functions(self) -> list[FuncInfo]:
        return list(self.funcs.values())

    def literal(self, node: ast.expr):
        try:
            return ast.literal_eval(node)
        except Exception as exc:
            raise AnalysisError(f"not a literal: {norm(node)}") from exc
