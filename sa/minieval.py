"""Finite-domain evaluation of small pure functions over concrete inputs.

A few properties quantify over a small finite domain (the 64 ADC resolutions, the alignment
keywords, the emptiness combinations of two containers).  For those the decisive function is
evaluated - by this interpreter over the syntax tree, never by importing or running the
repository - for EVERY element of the domain.  Whatever control structure the function uses (an
if/elif ladder, a lookup table walked by a loop, a dict, guard clauses) gives the same verdict.

Concrete values: int, float, bool, str, None, tuple, list, dict.  Everything the interpreter does
not know (attribute chains such as ``np.uint8``, calls such as ``np.dtype(..)``) becomes an
``Opaque`` carrying its normalised text; opaque values can be returned, stored, compared for
identity of text, but any control decision that depends on one raises ``Undecided``.
"""

from __future__ import annotations

import ast
import math
from dataclasses import dataclass

from .index import AnalysisError, norm


class Undecided(AnalysisError):
    pass


@dataclass(frozen=True)
class Opaque:
    text: str

    def __repr__(self) -> str:
        return self.text


class Record(dict):
    """A concrete object given to the interpreter: attribute reads return the entries."""


class _Return(Exception):
    def __init__(self, value):
        self.value = value


class _Raise(Exception):
    def __init__(self, exc):
        self.exc = exc


class _Break(Exception):
    pass


class _Continue(Exception):
    pass


_PURE = {
    "len": len,
    "range": lambda *a: list(range(*a)),
    "min": min,
    "max": max,
    "abs": abs,
    "int": int,
    "float": float,
    "bool": bool,
    "str": str,
    "tuple": tuple,
    "list": list,
    "sorted": sorted,
    "sum": sum,
    "any": any,
    "all": all,
    "enumerate": lambda x, start=0: list(enumerate(x, start)),
    "zip": lambda *a: list(zip(*a)),
    "reversed": lambda x: list(reversed(x)),
    "math.ceil": math.ceil,
    "math.floor": math.floor,
    "math.log2": math.log2,
    "divmod": divmod,
    "isinstance": None,  # handled separately
}

MAX_STEPS = 20000


def _concrete(v) -> bool:
    if isinstance(v, Opaque):
        return False
    if isinstance(v, (tuple, list)):
        return all(_concrete(x) for x in v)
    if isinstance(v, dict):
        return all(_concrete(k) and _concrete(x) for k, x in v.items())
    return True


def _text(v) -> str:
    if isinstance(v, Opaque):
        return v.text
    if isinstance(v, (tuple, list)):
        inner = ", ".join(_text(x) for x in v)
        return f"({inner})" if isinstance(v, tuple) else f"[{inner}]"
    return repr(v)


class Interp:
    def __init__(self, globals_: dict | None = None):
        self.globals = dict(globals_ or {})
        self.steps = 0

    def call(self, fn: ast.FunctionDef, args: dict):
        """('return', value) | ('raise', text of the exception expression)."""
        env = dict(args)
        a = fn.args
        pos = a.posonlyargs + a.args
        defaults = [None] * (len(pos) - len(a.defaults)) + list(a.defaults)
        for p, d in list(zip(pos, defaults)) + list(zip(a.kwonlyargs, a.kw_defaults)):
            if p.arg not in env:
                if d is None:
                    raise Undecided(f"minieval: parameter {p.arg} unbound")
                env[p.arg] = self.expr(d, env)
        try:
            self.block(fn.body, env)
        except _Return as r:
            return "return", r.value
        except _Raise as r:
            return "raise", r.exc
        return "return", None

    # -- statements
    def block(self, stmts, env):
        for st in stmts:
            self.stmt(st, env)

    def stmt(self, st, env):
        self.steps += 1
        if self.steps > MAX_STEPS:
            raise Undecided("minieval: step budget exceeded")
        if isinstance(st, (ast.Pass, ast.Import, ast.ImportFrom, ast.Assert, ast.Global, ast.Nonlocal, ast.FunctionDef, ast.ClassDef)):
            return
        if isinstance(st, ast.Expr):
            if not isinstance(st.value, ast.Constant):
                self.expr(st.value, env)
            return
        if isinstance(st, ast.Assign):
            v = self.expr(st.value, env)
            for t in st.targets:
                self.bind(t, v, env)
            return
        if isinstance(st, ast.AnnAssign):
            if st.value is not None:
                self.bind(st.target, self.expr(st.value, env), env)
            return
        if isinstance(st, ast.AugAssign):
            cur = self.expr(ast.copy_location(_load(st.target), st), env)
            v = self.binop(st.op, cur, self.expr(st.value, env), st)
            self.bind(st.target, v, env)
            return
        if isinstance(st, ast.Return):
            raise _Return(self.expr(st.value, env) if st.value is not None else None)
        if isinstance(st, ast.Raise):
            raise _Raise(norm(st.exc).split("(")[0] if st.exc is not None else "re-raise")
        if isinstance(st, ast.If):
            self.block(st.body if self.truth(self.expr(st.test, env), st.test) else st.orelse, env)
            return
        if isinstance(st, ast.For):
            it = self.expr(st.iter, env)
            if isinstance(it, dict):
                it = list(it)
            if not isinstance(it, (list, tuple, str)):
                raise Undecided(f"minieval: loop over {_text(it)}")
            broke = False
            for x in it:
                self.bind(st.target, x, env)
                try:
                    self.block(st.body, env)
                except _Break:
                    broke = True
                    break
                except _Continue:
                    continue
            if not broke:
                self.block(st.orelse, env)
            return
        if isinstance(st, ast.While):
            while self.truth(self.expr(st.test, env), st.test):
                try:
                    self.block(st.body, env)
                except _Break:
                    break
                except _Continue:
                    continue
            return
        if isinstance(st, ast.Break):
            raise _Break()
        if isinstance(st, ast.Continue):
            raise _Continue()
        if isinstance(st, ast.Match):
            subj = self.expr(st.subject, env)
            for c in st.cases:
                if self.match(c.pattern, subj, env) and (c.guard is None or self.truth(self.expr(c.guard, env), c.guard)):
                    self.block(c.body, env)
                    return
            return
        if isinstance(st, ast.Try):
            # only the no-exception path of the interpreted code is followed
            self.block(st.body, env)
            self.block(st.orelse, env)
            self.block(st.finalbody, env)
            return
        raise Undecided(f"minieval: unsupported statement {type(st).__name__}")

    def match(self, pat, subj, env) -> bool:
        if isinstance(pat, ast.MatchValue):
            v = self.expr(pat.value, env)
            if isinstance(v, Opaque) and isinstance(subj, Opaque):
                return v.text == subj.text
            if not (_concrete(v) and _concrete(subj)):
                raise Undecided("minieval: match on an unknown value")
            return v == subj
        if isinstance(pat, ast.MatchOr):
            return any(self.match(p, subj, env) for p in pat.patterns)
        if isinstance(pat, ast.MatchAs) and pat.pattern is None:
            if pat.name:
                env[pat.name] = subj
            return True
        if isinstance(pat, ast.MatchSingleton):
            return subj is pat.value
        raise Undecided(f"minieval: unsupported pattern {norm(pat)}")

    def bind(self, t, v, env):
        if isinstance(t, ast.Name):
            env[t.id] = v
        elif isinstance(t, (ast.Tuple, ast.List)):
            if not isinstance(v, (tuple, list)) or len(v) != len(t.elts):
                raise Undecided(f"minieval: cannot unpack {_text(v)}")
            for x, y in zip(t.elts, v):
                self.bind(x, y, env)
        elif isinstance(t, ast.Subscript):
            base = self.expr(t.value, env)
            k = self.expr(t.slice, env)
            if isinstance(base, (dict, list)) and _concrete(k):
                base[k] = v
            else:
                raise Undecided("minieval: store into an unknown container")
        else:
            raise Undecided(f"minieval: unsupported target {norm(t)}")

    # -- expressions
    def truth(self, v, node) -> bool:
        if isinstance(v, Opaque):
            raise Undecided(f"minieval: decision on unknown value `{norm(node)}`")
        return bool(v)

    def binop(self, op, l, r, node):
        if not (_concrete(l) and _concrete(r)):
            return Opaque(f"({_text(l)} {type(op).__name__} {_text(r)})")
        try:
            if isinstance(op, ast.Add):
                return l + r
            if isinstance(op, ast.Sub):
                return l - r
            if isinstance(op, ast.Mult):
                return l * r
            if isinstance(op, ast.Div):
                return l / r
            if isinstance(op, ast.FloorDiv):
                return l // r
            if isinstance(op, ast.Mod):
                return l % r
            if isinstance(op, ast.Pow):
                return l**r
            if isinstance(op, ast.LShift):
                return l << r
            if isinstance(op, ast.RShift):
                return l >> r
            if isinstance(op, ast.BitAnd):
                return l & r
            if isinstance(op, ast.BitOr):
                return l | r
        except Exception as exc:  # the interpreted code would raise as well
            raise _Raise(type(exc).__name__)
        raise Undecided(f"minieval: operator {type(op).__name__}")

    def expr(self, e, env):
        if isinstance(e, ast.Constant):
            return e.value
        if isinstance(e, ast.Name):
            if e.id in env:
                return env[e.id]
            if e.id in self.globals:
                return self.globals[e.id]
            if e.id in ("True", "False", "None"):
                return {"True": True, "False": False, "None": None}[e.id]
            return Opaque(e.id)
        if isinstance(e, (ast.Tuple, ast.List)):
            vals = [self.expr(x, env) for x in e.elts]
            return tuple(vals) if isinstance(e, ast.Tuple) else vals
        if isinstance(e, ast.Set):
            return tuple(self.expr(x, env) for x in e.elts)
        if isinstance(e, ast.Dict):
            out = {}
            for k, v in zip(e.keys, e.values):
                if k is None:
                    sub = self.expr(v, env)
                    if not isinstance(sub, dict):
                        raise Undecided("minieval: ** of unknown mapping")
                    out.update(sub)
                else:
                    kk = self.expr(k, env)
                    if not _concrete(kk):
                        raise Undecided("minieval: unknown dict key")
                    out[kk] = self.expr(v, env)
            return out
        if isinstance(e, ast.UnaryOp):
            v = self.expr(e.operand, env)
            if isinstance(e.op, ast.Not):
                return not self.truth(v, e.operand)
            if not _concrete(v):
                return Opaque(f"({type(e.op).__name__} {_text(v)})")
            return -v if isinstance(e.op, ast.USub) else +v if isinstance(e.op, ast.UAdd) else ~v
        if isinstance(e, ast.BinOp):
            return self.binop(e.op, self.expr(e.left, env), self.expr(e.right, env), e)
        if isinstance(e, ast.BoolOp):
            last = None
            for v in e.values:
                last = self.expr(v, env)
                t = self.truth(last, v)
                if isinstance(e.op, ast.And) and not t:
                    return last
                if isinstance(e.op, ast.Or) and t:
                    return last
            return last
        if isinstance(e, ast.Compare):
            left = self.expr(e.left, env)
            for op, c in zip(e.ops, e.comparators):
                right = self.expr(c, env)
                r = self.compare(op, left, right, e)
                if not r:
                    return False
                left = right
            return True
        if isinstance(e, ast.IfExp):
            return self.expr(e.body if self.truth(self.expr(e.test, env), e.test) else e.orelse, env)
        if isinstance(e, ast.Subscript):
            base = self.expr(e.value, env)
            if isinstance(e.slice, ast.Slice):
                if isinstance(base, (list, tuple, str)):
                    lo = self.expr(e.slice.lower, env) if e.slice.lower is not None else None
                    hi = self.expr(e.slice.upper, env) if e.slice.upper is not None else None
                    stp = self.expr(e.slice.step, env) if e.slice.step is not None else None
                    if all(x is None or isinstance(x, int) for x in (lo, hi, stp)):
                        return base[lo:hi:stp]
                return Opaque(f"{_text(base)}[{norm(e.slice)}]")
            k = self.expr(e.slice, env)
            if isinstance(base, (list, tuple, str, dict)) and _concrete(k):
                try:
                    return base[k]
                except Exception as exc:
                    raise _Raise(type(exc).__name__)
            return Opaque(f"{_text(base)}[{_text(k)}]")
        if isinstance(e, ast.Attribute):
            base = self.expr(e.value, env)
            if isinstance(base, Opaque):
                return Opaque(f"{base.text}.{e.attr}")
            if isinstance(base, Record) and e.attr in base:
                return base[e.attr]
            return Opaque(f"{_text(base)}.{e.attr}")
        if isinstance(e, ast.Call):
            return self.call_expr(e, env)
        if isinstance(e, ast.JoinedStr):
            parts = []
            for v in e.values:
                if isinstance(v, ast.Constant):
                    parts.append(str(v.value))
                    continue
                val = self.expr(v.value, env) if isinstance(v, ast.FormattedValue) else Opaque("?")
                if isinstance(v, ast.FormattedValue) and v.format_spec is None and v.conversion == -1 and isinstance(val, (str, int)) and not isinstance(val, bool):
                    parts.append(str(val))
                else:
                    return Opaque(norm(e))
            return "".join(parts)
        if isinstance(e, (ast.ListComp, ast.GeneratorExp, ast.SetComp)):
            return self.comp(e, env)
        if isinstance(e, ast.DictComp):
            out = {}
            for sub in self.comp_envs(e.generators, env):
                out[self.expr(e.key, sub)] = self.expr(e.value, sub)
            return out
        if isinstance(e, ast.NamedExpr):
            v = self.expr(e.value, env)
            env[e.target.id] = v
            return v
        if isinstance(e, ast.Lambda):
            return Opaque(norm(e))
        raise Undecided(f"minieval: unsupported expression {type(e).__name__}")

    def comp_envs(self, gens, env):
        def rec(i, cur):
            if i == len(gens):
                yield cur
                return
            g = gens[i]
            it = self.expr(g.iter, cur)
            if isinstance(it, dict):
                it = list(it)
            if not isinstance(it, (list, tuple, str)):
                raise Undecided(f"minieval: comprehension over {_text(it)}")
            for x in it:
                sub = dict(cur)
                self.bind(g.target, x, sub)
                if all(self.truth(self.expr(c, sub), c) for c in g.ifs):
                    yield from rec(i + 1, sub)

        yield from rec(0, dict(env))

    def comp(self, e, env):
        return [self.expr(e.elt, sub) for sub in self.comp_envs(e.generators, env)]

    def compare(self, op, l, r, node) -> bool:
        if isinstance(op, (ast.Is, ast.IsNot)):
            if isinstance(l, Opaque) or isinstance(r, Opaque):
                if (l is None or r is None) and not (isinstance(l, Opaque) and isinstance(r, Opaque)):
                    import re as _re

                    o = l if isinstance(l, Opaque) else r
                    if _re.fullmatch(r"(np|numpy)\.[A-Za-z_][A-Za-z0-9_]*", o.text):
                        # a public attribute of numpy (a dtype class, a function) is an object, never None
                        return isinstance(op, ast.IsNot)
                    raise Undecided(f"minieval: `{norm(node)}` on an unknown value")
                same = isinstance(l, Opaque) and isinstance(r, Opaque) and l.text == r.text
                return same if isinstance(op, ast.Is) else not same
            res = l is r or (l == r and type(l) is type(r) and isinstance(l, (int, str, bool, type(None))))
            return res if isinstance(op, ast.Is) else not res
        if isinstance(op, (ast.In, ast.NotIn)):
            if isinstance(r, dict):
                r = list(r)
            if not isinstance(r, (list, tuple, str)):
                raise Undecided(f"minieval: membership `{norm(node)}` on an unknown value")
            if isinstance(r, str):
                if not isinstance(l, str):
                    raise Undecided(f"minieval: membership `{norm(node)}` on an unknown value")
                found = l in r
            else:
                # symbolic constants (enum members, `np.uint8`) are compared by their text
                def same(a, b):
                    if isinstance(a, Opaque) or isinstance(b, Opaque):
                        return isinstance(a, Opaque) and isinstance(b, Opaque) and a.text == b.text
                    if not (_concrete(a) and _concrete(b)):
                        raise Undecided(f"minieval: membership `{norm(node)}` on an unknown value")
                    return a == b

                found = any(same(l, x) for x in r)
            return found if isinstance(op, ast.In) else not found
        if not (_concrete(l) and _concrete(r)):
            if isinstance(op, (ast.Eq, ast.NotEq)) and isinstance(l, Opaque) and isinstance(r, Opaque):
                return (l.text == r.text) if isinstance(op, ast.Eq) else (l.text != r.text)
            raise Undecided(f"minieval: comparison `{norm(node)}` on an unknown value")
        try:
            if isinstance(op, ast.Eq):
                return l == r
            if isinstance(op, ast.NotEq):
                return l != r
            if isinstance(op, ast.Lt):
                return l < r
            if isinstance(op, ast.LtE):
                return l <= r
            if isinstance(op, ast.Gt):
                return l > r
            if isinstance(op, ast.GtE):
                return l >= r
        except TypeError:
            raise _Raise("TypeError")
        raise Undecided(f"minieval: comparison {type(op).__name__}")

    def call_expr(self, e: ast.Call, env):
        fn = norm(e.func)
        args = [self.expr(a, env) for a in e.args if not isinstance(a, ast.Starred)]
        kws = {k.arg: self.expr(k.value, env) for k in e.keywords if k.arg}
        if any(isinstance(a, ast.Starred) for a in e.args) or any(k.arg is None for k in e.keywords):
            return Opaque(norm(e))
        if fn == "isinstance" and len(args) == 2 and _concrete(args[0]) and not isinstance(args[0], (tuple, list, dict)):
            names = norm(e.args[1])
            table = {"int": int, "float": float, "str": str, "bool": bool}
            tys = tuple(table[n.strip()] for n in names.strip("()").replace("|", ",").split(",") if n.strip() in table)
            unknown = [n for n in names.strip("()").replace("|", ",").split(",") if n.strip() and n.strip() not in table]
            if isinstance(args[0], tys) if tys else False:
                return True
            if not unknown:
                return False
            raise Undecided(f"minieval: isinstance against {names}")
        callee = self.globals.get(fn) if isinstance(e.func, ast.Name) else None
        if isinstance(callee, (ast.FunctionDef,)) and getattr(self, "_depth", 0) < 6:
            # a function of the analysed package handed in by the rule: interpreted the same way
            names = [a_.arg for a_ in callee.args.posonlyargs + callee.args.args]
            bound = dict(zip(names, args))
            bound.update(kws)
            self._depth = getattr(self, "_depth", 0) + 1
            try:
                kind, val = self.call(callee, bound)
            finally:
                self._depth -= 1
            if kind == "raise":
                raise _Raise(val)
            return val
        if callee is not None and callable(callee) and not isinstance(callee, ast.AST) and all(_concrete(a) for a in args) and all(_concrete(v) for v in kws.values()):
            # a trusted model of a library function, supplied by the rule (documented behaviour, listed in the evidence)
            try:
                return callee(*args, **kws)
            except Exception as exc:
                raise _Raise(type(exc).__name__)
        f = _PURE.get(fn)
        if f is not None and all(_concrete(a) for a in args) and all(_concrete(v) for v in kws.values()):
            try:
                return f(*args, **kws)
            except Exception as exc:
                raise _Raise(type(exc).__name__)
        # methods of concrete containers / strings
        if isinstance(e.func, ast.Attribute):
            base = self.expr(e.func.value, env)
            m = e.func.attr
            if isinstance(base, dict) and m in ("get", "items", "keys", "values") and all(_concrete(a) for a in args[:1]):
                if m == "get":
                    return base.get(args[0], args[1] if len(args) > 1 else None)
                return list(getattr(base, m)())
            if isinstance(base, str) and m in ("startswith", "endswith", "lower", "upper", "split", "strip", "partition", "rpartition", "removeprefix", "removesuffix", "replace", "find", "isdigit") and all(_concrete(a) for a in args):
                return getattr(base, m)(*args)
            if isinstance(base, (list, tuple)) and m in ("index", "count") and all(_concrete(a) for a in args) and _concrete(base):
                try:
                    return getattr(base, m)(*args)
                except Exception as exc:
                    raise _Raise(type(exc).__name__)
            if isinstance(base, list) and m == "append" and len(args) == 1:
                base.append(args[0])
                return None
        inner = ", ".join([_text(a) for a in args] + [f"{k}={_text(v)}" for k, v in kws.items()])
        return Opaque(f"{fn}({inner})")


def _load(t: ast.expr) -> ast.expr:
    from .astutil import clone

    c = clone(t)
    for n in ast.walk(c):
        if hasattr(n, "ctx"):
            n.ctx = ast.Load()
    return c


def evaluate(fn_node: ast.FunctionDef, args: dict, globals_: dict | None = None):
    """Evaluate ``fn_node`` on concrete ``args``: ('return', value) / ('raise', exception name)."""
    return Interp(globals_).call(fn_node, args)
