"""E2: receiver typing, callee resolution and the call graph (own resolver, ast only)."""

from __future__ import annotations

import ast
from dataclasses import dataclass, field
from typing import Iterable, Optional

from .index import (
    AnalysisError,
    ClassInfo,
    FuncInfo,
    Module,
    Repo,
    dotted,
    norm,
    walk_local,
    walk_ordered,
)

_CONTAINER_HEADS = {
    "Sequence",
    "list",
    "List",
    "Iterable",
    "Iterator",
    "tuple",
    "Tuple",
    "set",
    "Set",
    "frozenset",
    "MutableSequence",
    "Collection",
    "Generator",
    "deque",
}
_MAPPING_HEADS = {"Mapping", "dict", "Dict", "MutableMapping", "OrderedDict"}
_OPTIONAL_HEADS = {"Optional", "Union"}


@dataclass
class TypeRef:
    classes: frozenset[str] = frozenset()  # class quals (instances)
    elem: frozenset[str] = frozenset()  # element classes if this is a container
    meta: frozenset[str] = frozenset()  # class objects themselves (type[X])

    def __or__(self, other: "TypeRef") -> "TypeRef":
        return TypeRef(
            self.classes | other.classes, self.elem | other.elem, self.meta | other.meta
        )

    def __bool__(self) -> bool:
        return bool(self.classes or self.elem or self.meta)


EMPTY = TypeRef()


class Resolver:
    def __init__(self, repo: Repo):
        self.repo = repo
        self._attr_types: dict[tuple[str, str], TypeRef] = {}
        self._attr_busy: set[tuple[str, str]] = set()
        self._env_cache: dict[str, dict[str, TypeRef]] = {}
        self._calls_cache: dict[str, list["CallSite"]] = {}
        self._graph: Optional[dict[str, set[str]]] = None
        self._rgraph: Optional[dict[str, set[str]]] = None

    # ------------------------------------------------------------------ annotations
    def ann_type(self, mod: Module, ann: Optional[ast.expr]) -> TypeRef:
        if ann is None:
            return EMPTY
        if isinstance(ann, ast.Constant) and isinstance(ann.value, str):
            try:
                ann = ast.parse(ann.value, mode="eval").body
            except SyntaxError:
                return EMPTY
        if isinstance(ann, ast.BinOp) and isinstance(ann.op, ast.BitOr):
            return self.ann_type(mod, ann.left) | self.ann_type(mod, ann.right)
        if isinstance(ann, ast.Subscript):
            head = dotted(ann.value) or ""
            head = head.split(".")[-1]
            sl = ann.slice
            args = list(sl.elts) if isinstance(sl, ast.Tuple) else [sl]
            if head in _OPTIONAL_HEADS:
                t = EMPTY
                for a in args:
                    t = t | self.ann_type(mod, a)
                return t
            if head in _CONTAINER_HEADS:
                t = EMPTY
                for a in args:
                    t = t | self.ann_type(mod, a)
                return TypeRef(elem=t.classes)
            if head in _MAPPING_HEADS and len(args) == 2:
                t = self.ann_type(mod, args[1])
                return TypeRef(elem=t.classes)
            if head in ("type", "Type"):
                t = self.ann_type(mod, args[0])
                return TypeRef(meta=t.classes)
            return self.ann_type(mod, ann.value)
        d = dotted(ann)
        if d is None:
            return EMPTY
        r = self.repo.resolve_name(mod, d)
        if isinstance(r, ClassInfo):
            return TypeRef(classes=frozenset([r.qual]))
        return EMPTY

    # ------------------------------------------------------------------ attributes
    def attr_type(self, cls_qual: str, attr: str) -> TypeRef:
        key = (cls_qual, attr)
        if key in self._attr_types:
            return self._attr_types[key]
        if key in self._attr_busy:
            return EMPTY
        self._attr_busy.add(key)
        try:
            t = self._attr_type(cls_qual, attr)
        finally:
            self._attr_busy.discard(key)
        self._attr_types[key] = t
        return t

    def _attr_type(self, cls_qual: str, attr: str) -> TypeRef:
        ci = self.repo.classes.get(cls_qual)
        if ci is None:
            return EMPTY
        result = EMPTY
        for c in self.repo.mro(ci):
            if attr in c.getters:
                g = c.getters[attr]
                t = self.ann_type(c.module, g.node.returns)
                if t:
                    return t
                # infer from return expressions
                env = self.env(g)
                for n in walk_local(g.node):
                    if isinstance(n, ast.Return) and n.value is not None:
                        t = t | self.expr_type(g, n.value, env)
                if t:
                    return t
            if attr in c.const_ann:
                t = self.ann_type(c.module, c.const_ann[attr])
                if t:
                    return t
            # assignments self.attr = ... in any method of this class
            for f in c.all_funcs():
                if not f.params or f.kind in ("staticmethod",):
                    continue
                selfname = f.params[0]
                for n in walk_local(f.node):
                    tgt = None
                    val = None
                    ann = None
                    if isinstance(n, ast.Assign):
                        for t_ in n.targets:
                            if _is_self_attr(t_, selfname, attr):
                                tgt, val = t_, n.value
                    elif isinstance(n, ast.AnnAssign) and _is_self_attr(
                        n.target, selfname, attr
                    ):
                        tgt, val, ann = n.target, n.value, n.annotation
                    if tgt is None:
                        continue
                    if ann is not None:
                        t = self.ann_type(c.module, ann)
                        if t:
                            result = result | t
                            continue
                    if val is not None:
                        result = result | self.expr_type(f, val, self.env(f))
            if result:
                return result
        return result

    # ------------------------------------------------------------------ environments
    def env(self, f: FuncInfo) -> dict[str, TypeRef]:
        ck = getattr(f, "ckey", f.qual)
        if ck in self._env_cache:
            return self._env_cache[ck]
        env: dict[str, TypeRef] = {}
        self._env_cache[ck] = env  # recursion guard
        if f.outer is not None:
            env.update(self.env(f.outer))
        a = f.node.args
        allp = a.posonlyargs + a.args + a.kwonlyargs
        for i, p in enumerate(allp):
            t = self.ann_type(f.module, p.annotation)
            if (
                i == 0
                and f.cls is not None
                and f.outer is None
                and f.kind in ("method", "getter", "setter")
            ):
                t = TypeRef(classes=frozenset([f.cls.qual]))
            if i == 0 and f.cls is not None and f.outer is None and f.kind == "classmethod":
                t = TypeRef(meta=frozenset([f.cls.qual]))
            if t:
                env[p.arg] = t
        # two passes over assignments (flow-insensitive union)
        for _ in range(2):
            for n in walk_ordered(f.node):
                if isinstance(n, ast.Assign):
                    t = self.expr_type(f, n.value, env)
                    for tg in n.targets:
                        self._bind(f, env, tg, t, n.value)
                elif isinstance(n, ast.AnnAssign) and isinstance(n.target, ast.Name):
                    t = self.ann_type(f.module, n.annotation)
                    if not t and n.value is not None:
                        t = self.expr_type(f, n.value, env)
                    if t:
                        env[n.target.id] = env.get(n.target.id, EMPTY) | t
                elif isinstance(n, (ast.For, ast.comprehension)):
                    it = self.expr_type(f, n.iter, env)
                    self._bind_iter(f, env, n.target, n.iter, it)
                elif isinstance(n, ast.withitem) and n.optional_vars is not None:
                    t = self.expr_type(f, n.context_expr, env)
                    self._bind(f, env, n.optional_vars, t, n.context_expr)
                elif isinstance(n, ast.NamedExpr):
                    t = self.expr_type(f, n.value, env)
                    self._bind(f, env, n.target, t, n.value)
        return env

    def _bind(self, f, env, target, t: TypeRef, value) -> None:
        if isinstance(target, ast.Name):
            if t:
                env[target.id] = env.get(target.id, EMPTY) | t
        elif isinstance(target, (ast.Tuple, ast.List)) and isinstance(
            value, (ast.Tuple, ast.List)
        ):
            for tg, v in zip(target.elts, value.elts):
                self._bind(f, env, tg, self.expr_type(f, v, env), v)

    def _bind_iter(self, f, env, target, iter_expr, it: TypeRef) -> None:
        # for x in seq  /  for i, x in enumerate(seq)  /  for a, b in zip(s1, s2)
        if isinstance(target, ast.Name):
            if it.elem:
                env[target.id] = env.get(target.id, EMPTY) | TypeRef(classes=it.elem)
            return
        if isinstance(target, (ast.Tuple, ast.List)) and isinstance(iter_expr, ast.Call):
            fn = dotted(iter_expr.func)
            if fn == "enumerate" and len(target.elts) == 2 and iter_expr.args:
                inner = iter_expr.args[0]
                self._bind_iter(
                    f, env, target.elts[1], inner, self.expr_type(f, inner, env)
                )
            elif fn == "zip":
                for tg, arg in zip(target.elts, iter_expr.args):
                    self._bind_iter(f, env, tg, arg, self.expr_type(f, arg, env))

    # ------------------------------------------------------------------ expressions
    def expr_type(self, f: FuncInfo, e: ast.expr, env=None) -> TypeRef:
        if env is None:
            env = self.env(f)
        if isinstance(e, ast.Name):
            if e.id in env:
                return env[e.id]
            r = self.repo.resolve_name(f.module, e.id)
            if isinstance(r, ClassInfo):
                return TypeRef(meta=frozenset([r.qual]))
            return EMPTY
        if isinstance(e, ast.Attribute):
            base = self.expr_type(f, e.value, env)
            t = EMPTY
            for c in base.classes:
                t = t | self.attr_type(c, e.attr)
            if not base:
                r = self.repo.external_name(f.module, e)
                if r and r in self.repo.classes:
                    return TypeRef(meta=frozenset([r]))
            return t
        if isinstance(e, ast.Call):
            t = EMPTY
            for callee in self.resolve_call(f, e, env):
                if isinstance(callee, ClassInfo):
                    t = t | TypeRef(classes=frozenset([callee.qual]))
                elif isinstance(callee, FuncInfo):
                    if callee.kind == "classmethod" and _returns_self(callee):
                        base = (
                            self.expr_type(f, e.func.value, env)
                            if isinstance(e.func, ast.Attribute)
                            else EMPTY
                        )
                        if base.meta:
                            t = t | TypeRef(classes=base.meta)
                            continue
                    rt = self.ann_type(callee.module, callee.node.returns)
                    if _returns_self(callee) and callee.cls is not None:
                        rt = TypeRef(classes=frozenset([callee.cls.qual]))
                    t = t | rt
            fn = dotted(e.func)
            if fn in ("copy.deepcopy", "deepcopy", "copy.copy", "copy") and e.args:
                t = t | self.expr_type(f, e.args[0], env)
            if fn in ("list", "tuple", "sorted", "reversed", "iter") and e.args:
                t = t | self.expr_type(f, e.args[0], env)
            return t
        if isinstance(e, ast.IfExp):
            return self.expr_type(f, e.body, env) | self.expr_type(f, e.orelse, env)
        if isinstance(e, ast.BoolOp):
            t = EMPTY
            for v in e.values:
                t = t | self.expr_type(f, v, env)
            return t
        if isinstance(e, ast.Subscript):
            base = self.expr_type(f, e.value, env)
            if base.elem:
                if isinstance(e.slice, ast.Slice):
                    return TypeRef(elem=base.elem)
                return TypeRef(classes=base.elem)
            return EMPTY
        if isinstance(e, (ast.List, ast.Tuple, ast.Set)):
            el = EMPTY
            for v in e.elts:
                el = el | self.expr_type(f, v, env)
            return TypeRef(elem=el.classes)
        if isinstance(e, (ast.ListComp, ast.GeneratorExp, ast.SetComp)):
            return TypeRef(elem=self.expr_type(f, e.elt, env).classes)
        if isinstance(e, ast.NamedExpr):
            return self.expr_type(f, e.value, env)
        if isinstance(e, ast.Await):
            return self.expr_type(f, e.value, env)
        return EMPTY

    # ------------------------------------------------------------------ calls
    def resolve_call(self, f: FuncInfo, call: ast.Call, env=None) -> list:
        """Possible callees: FuncInfo / ClassInfo (constructor) / str (external dotted)."""
        if env is None:
            env = self.env(f)
        fn = call.func
        out: list = []
        if isinstance(fn, ast.Name):
            # local nested function?
            g: Optional[FuncInfo] = f
            while g is not None:
                if fn.id in g.nested:
                    return [g.nested[fn.id]]
                g = g.outer
            if fn.id in env and env[fn.id].meta:
                return [self.repo.classes[c] for c in env[fn.id].meta]
            if fn.id in env and env[fn.id].classes:
                res = []
                for c in env[fn.id].classes:
                    m = self.repo.find_member(self.repo.classes[c], "__call__")
                    if m:
                        res.append(m)
                if res:
                    return res
            r = self.repo.resolve_name(f.module, fn.id)
            if isinstance(r, (FuncInfo, ClassInfo)):
                return [r]
            if isinstance(r, str):
                return [r]
            return []
        if isinstance(fn, ast.Attribute):
            # super().method(...)
            if (
                isinstance(fn.value, ast.Call)
                and isinstance(fn.value.func, ast.Name)
                and fn.value.func.id == "super"
                and f.cls is not None
            ):
                for c in self.repo.mro(f.cls)[1:]:
                    if fn.attr in c.methods:
                        return [c.methods[fn.attr]]
                return []
            base = self.expr_type(f, fn.value, env)
            for c in sorted(base.classes):
                ci = self.repo.classes[c]
                m = self.repo.find_member(ci, fn.attr)
                if m is not None:
                    out.append(m)
                # subclasses overriding the method are possible targets as well
                for sub in self.repo.subclasses(ci):
                    if fn.attr in sub.methods and sub.methods[fn.attr] not in out:
                        out.append(sub.methods[fn.attr])
            for c in sorted(base.meta):
                ci = self.repo.classes[c]
                m = self.repo.find_member(ci, fn.attr)
                if m is not None:
                    out.append(m)
            if out:
                return out
            ext = self.repo.external_name(f.module, fn)
            if ext is not None:
                r = ext
                if r in self.repo.funcs:
                    return [self.repo.funcs[r]]
                if r in self.repo.classes:
                    return [self.repo.classes[r]]
                head = dotted(fn) or ""
                root = head.split(".")[0]
                if root in f.module.imports and root not in env:
                    return [r]
            return []
        return []

    def _func_value(self, f: FuncInfo, a: ast.expr, env) -> Optional[FuncInfo]:
        """If expression ``a`` (not being called) denotes a repo function, return it."""
        par = getattr(a, "_parent", None)
        if isinstance(par, ast.Call) and par.func is a:
            return None
        if isinstance(a, ast.Name):
            g: Optional[FuncInfo] = f
            while g is not None:
                if a.id in g.nested:
                    return g.nested[a.id]
                g = g.outer
            if a.id in env:
                return None
            r = self.repo.resolve_name(f.module, a.id)
            return r if isinstance(r, FuncInfo) else None
        if isinstance(a, ast.Attribute):
            base = self.expr_type(f, a.value, env)
            for c in sorted(base.classes | base.meta):
                m = self.repo.find_member(self.repo.classes[c], a.attr)
                if m is not None and m.kind not in ("getter", "setter"):
                    return m
            ext = self.repo.external_name(f.module, a)
            if ext in self.repo.funcs:
                return self.repo.funcs[ext]
        return None

    def call_sites(self, f: FuncInfo) -> list["CallSite"]:
        ck = getattr(f, "ckey", f.qual)
        if ck in self._calls_cache:
            return self._calls_cache[ck]
        env = self.env(f)
        sites = []
        for n in walk_local(f.node):
            if isinstance(n, ast.Call):
                callees = self.resolve_call(f, n, env)
                sites.append(CallSite(f, n, callees))
        # functions handed to higher-order callables (apply_ufunc, delayed, map, partial, ...)
        for n in walk_local(f.node):
            if not isinstance(n, ast.Call):
                continue
            cands = list(n.args) + [k.value for k in n.keywords]
            for a in cands:
                if isinstance(a, (ast.Name, ast.Attribute)):
                    tgt = self._func_value(f, a, env)
                    if tgt is not None:
                        hk: dict[str, ast.expr] = {}
                        kwv = next((k.value for k in n.keywords if k.arg == "kwargs"), None)
                        if isinstance(kwv, ast.Name):
                            from .astutil import expand as _expand

                            kwv = _expand(f.node, kwv)  # kwargs=<local holding the dict literal>
                        if isinstance(kwv, ast.Dict):
                            for k_, v_ in zip(kwv.keys, kwv.values):
                                if isinstance(k_, ast.Constant) and isinstance(k_.value, str):
                                    hk[k_.value] = v_
                        if dotted(n.func) in ("partial", "functools.partial"):
                            for k in n.keywords:
                                if k.arg:
                                    hk[k.arg] = k.value
                        sites.append(CallSite(f, n, [tgt], indirect=True, hof_kwargs=hk))
        # delayed(F)(args) / partial(F)(args): the outer call invokes F with these args
        for n in walk_local(f.node):
            if isinstance(n, ast.Call) and isinstance(n.func, ast.Call) and n.func.args:
                inner = n.func
                if dotted(inner.func) in ("delayed", "dask.delayed", "partial", "functools.partial"):
                    a0 = inner.args[0]
                    if isinstance(a0, (ast.Name, ast.Attribute)):
                        tgt = self._func_value(f, a0, env)
                        if tgt is not None:
                            sites.append(CallSite(f, n, [tgt]))
        # property reads/writes on typed receivers are calls too
        for n in walk_local(f.node):
            if isinstance(n, ast.Attribute):
                base = self.expr_type(f, n.value, env)
                for c in sorted(base.classes):
                    ci = self.repo.classes[c]
                    if isinstance(n.ctx, ast.Store):
                        m = self.repo.find_member(ci, n.attr, setter=True)
                    else:
                        m = self.repo.find_member(ci, n.attr)
                        if m is not None and m.kind != "getter":
                            m = None
                    if m is not None:
                        sites.append(CallSite(f, n, [m], implicit=True))
        self._calls_cache[ck] = sites
        return sites

    # ------------------------------------------------------------------ call graph
    def graph(self) -> dict[str, set[str]]:
        if self._graph is not None:
            return self._graph
        g: dict[str, set[str]] = {}
        for f in self.repo.all_functions():
            tgt: set[str] = set()
            for cs in self.call_sites(f):
                for c in cs.callees:
                    if isinstance(c, FuncInfo):
                        tgt.add(c.qual)
                    elif isinstance(c, ClassInfo):
                        init = self.repo.find_member(c, "__init__")
                        if init is not None:
                            tgt.add(init.qual)
                        post = self.repo.find_member(c, "__post_init__")
                        if post is not None:
                            tgt.add(post.qual)
            # nested functions are reachable from their definer (closures handed around)
            for sub in f.nested.values():
                tgt.add(sub.qual)
            g[f.qual] = tgt
        self._graph = g
        rg: dict[str, set[str]] = {}
        for a, bs in g.items():
            for b in bs:
                rg.setdefault(b, set()).add(a)
        self._rgraph = rg
        return g

    def callers(self, qual: str) -> set[str]:
        self.graph()
        assert self._rgraph is not None
        return set(self._rgraph.get(qual, set()))

    def reachable_from(self, quals: Iterable[str], stop: Iterable[str] = ()) -> set[str]:
        g = self.graph()
        stop_s = set(stop)
        seen: set[str] = set()
        stack = list(quals)
        while stack:
            q = stack.pop()
            if q in seen or q in stop_s:
                continue
            seen.add(q)
            stack.extend(g.get(q, ()))
        return seen

    def sites_calling(self, target_qual: str) -> list["CallSite"]:
        out = []
        for caller in sorted(self.callers(target_qual)):
            f = self.repo.funcs[caller]
            for cs in self.call_sites(f):
                for c in cs.callees:
                    q = c.qual if isinstance(c, FuncInfo) else None
                    if isinstance(c, ClassInfo):
                        init = self.repo.find_member(c, "__init__")
                        q = init.qual if init else None
                    if q == target_qual:
                        out.append(cs)
                        break
        return out


@dataclass(eq=False)
class CallSite:
    caller: FuncInfo
    node: ast.AST  # ast.Call, or ast.Attribute for implicit property access
    callees: list
    implicit: bool = False
    indirect: bool = False  # callee passed as a value to a higher-order callable
    hof_kwargs: dict = field(default_factory=dict)

    @property
    def line(self) -> int:
        return getattr(self.node, "lineno", 0)

    def kwarg(self, name: str) -> Optional[ast.expr]:
        if isinstance(self.node, ast.Call):
            for k in self.node.keywords:
                if k.arg == name:
                    return k.value
        return None

    def arg_for(self, callee: FuncInfo, pname: str) -> Optional[ast.expr]:
        """Expression bound to parameter ``pname`` of callee at this site (or None)."""
        if not isinstance(self.node, ast.Call):
            return None
        if self.indirect:
            return self.hof_kwargs.get(pname)
        kw = self.kwarg(pname)
        if kw is not None:
            return kw
        params = callee.params
        offset = 0
        if callee.cls is not None and callee.kind in ("method", "classmethod") and callee.outer is None:
            offset = 1
        if callee.name == "__init__":
            offset = 1
        try:
            idx = params.index(pname) - offset
        except ValueError:
            return None
        if 0 <= idx < len(self.node.args):
            a = self.node.args[idx]
            if not isinstance(a, ast.Starred):
                return a
        return None


def _is_self_attr(t: ast.AST, selfname: str, attr: str) -> bool:
    return (
        isinstance(t, ast.Attribute)
        and t.attr == attr
        and isinstance(t.value, ast.Name)
        and t.value.id == selfname
    )


def _returns_self(f: FuncInfo) -> bool:
    r = f.node.returns
    if r is None:
        return False
    s = norm(r).strip("'\"")
    return s in ("Self", "typing.Self", "te.Self")
