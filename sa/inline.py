"""Helper inlining: a normalising pre-pass that makes the rules indifferent to "extract method".

``inline(R, f)`` returns a synthetic FuncInfo whose body is ``f``'s body with calls to small
private repository helpers replaced by the helper's (renamed) body.  The synthetic function is
never registered in the repository index; it shares ``qual`` with ``f`` (so that constructs
reported by rules keep their names) but has its own cache key.

What is inlined (everything else is left as a call):

* the callee resolves to exactly ONE repository function (through the receiver typing of
  ``Resolver.resolve_call``), is not recursive, not a generator / async / decorated (other than
  staticmethod / classmethod), has no ``*args`` / ``**kwargs`` / nested defs / global / nonlocal,
  and satisfies the caller-supplied ``policy`` (default: private name ``_x`` that is not a dunder);
* the call is the whole right-hand side of a statement ``helper(..)``, ``x = helper(..)``,
  ``x: T = helper(..)``, ``return helper(..)`` (statement splice), or the callee is an
  *expression function* (optional docstring, single-assignment locals, one ``return e``) and the
  call sits anywhere inside an expression (expression substitution);
* for a statement splice, ``return`` inside the helper is eliminated structurally: ``if c: return a``
  followed by ``rest`` becomes ``if c: x = a  else: rest``; a return inside a loop, or a branch
  that returns on some paths only, makes the helper non-inlinable (left as a call).

Parameters whose argument is a side-effect-free chain (Name / Attribute / Constant) and that are
never re-assigned in the helper are substituted directly; the others are bound by an assignment
in front of the spliced body.  Helper locals keep their names unless they clash with a name of
the caller, in which case they get a ``__<n>`` suffix.
"""

from __future__ import annotations

import ast
import dataclasses
from typing import Callable, Optional

from .astutil import clone
from .index import FuncInfo, set_parents, walk_local

MAX_STMTS = 80
# decorators that do not change what a call of the function does
TRANSPARENT_DECORATORS = ("staticmethod", "classmethod", "numba.njit", "njit", "numba.jit", "jit", "override", "typing.override", "typing_extensions.override")
CONTEXTMANAGER = ("contextmanager", "contextlib.contextmanager")


class _Bail(Exception):
    pass


def _is_accessor(g: FuncInfo) -> bool:
    """A public method without parameters whose whole body is ``return <expression over self>``."""
    if g.kind != "method" or g.name.startswith("__") or g.decorators:
        return False
    a = g.node.args
    if len(a.posonlyargs + a.args) != 1 or a.kwonlyargs or a.vararg or a.kwarg:
        return False
    body = list(g.node.body)
    if body and isinstance(body[0], ast.Expr) and isinstance(body[0].value, ast.Constant) and isinstance(body[0].value.value, str):
        body = body[1:]
    if len(body) != 1 or not isinstance(body[0], ast.Return) or body[0].value is None:
        return False
    me = a.args[0].arg if a.args else a.posonlyargs[0].arg
    names = {n.id for n in ast.walk(body[0].value) if isinstance(n, ast.Name)}
    return names <= {me, "bool", "len", "int", "float"} and sum(1 for _ in ast.walk(body[0].value)) <= 12


_REVIEWED: Optional[frozenset] = None


def _reviewed() -> frozenset:
    """Qualified names of the functions of the reviewed tree (reference/functions.json.gz)."""
    global _REVIEWED
    if _REVIEWED is None:
        import gzip
        import json
        from pathlib import Path

        p = Path(__file__).resolve().parent.parent / "reference" / "functions.json.gz"
        try:
            _REVIEWED = frozenset(json.loads(gzip.open(p).read()))
        except Exception:
            _REVIEWED = frozenset()
    return _REVIEWED


def default_policy(g: FuncInfo) -> bool:
    if _is_accessor(g):
        return True
    rv = _reviewed()
    if rv and g.outer is None and g.qual not in rv and not (g.name.startswith("__") and g.name.endswith("__")) and g.kind in ("function", "method", "staticmethod", "classmethod"):
        return True  # introduced after the review: a helper of its callers whatever its name
    return g.name.startswith("_") and not (g.name.startswith("__") and g.name.endswith("__"))


def norm_ann(a) -> str:
    if a is None:
        return ""
    if isinstance(a, ast.Constant) and isinstance(a.value, str):
        return a.value
    try:
        return ast.unparse(a)
    except Exception:
        return ""


def _is_simple(e: ast.expr) -> bool:
    if isinstance(e, ast.Constant):
        return True
    if isinstance(e, ast.Name):
        return True
    if isinstance(e, ast.Attribute):
        return _is_simple(e.value)
    if isinstance(e, ast.UnaryOp) and isinstance(e.operand, ast.Constant):
        return True
    return False


def _assigned_names(node: ast.AST) -> set[str]:
    out: set[str] = set()
    for n in walk_local(node):
        if isinstance(n, ast.Name) and isinstance(n.ctx, (ast.Store, ast.Del)):
            # comprehension targets are scoped to the comprehension
            p = getattr(n, "_parent", None)
            comp = False
            q = n
            while p is not None and not isinstance(p, ast.stmt):
                if isinstance(p, ast.comprehension) and (q is p.target or _within(p.target, n)):
                    comp = True
                    break
                q, p = p, getattr(p, "_parent", None)
            if not comp:
                out.add(n.id)
        elif isinstance(n, ast.ExceptHandler) and n.name:
            out.add(n.name)
        elif isinstance(n, ast.FunctionDef):
            out.add(n.name)
    return out


def _ancestors(node: ast.AST, stop: ast.AST):
    p = getattr(node, "_parent", None)
    while p is not None and p is not stop:
        yield p
        p = getattr(p, "_parent", None)


def _within(root: ast.AST, node: ast.AST) -> bool:
    return any(x is node for x in ast.walk(root))


def _all_names(node: ast.AST) -> set[str]:
    out = {n.id for n in ast.walk(node) if isinstance(n, ast.Name)}
    out |= {n.name for n in ast.walk(node) if isinstance(n, ast.ExceptHandler) and n.name}
    out |= {a.arg for n in ast.walk(node) if isinstance(n, ast.arguments) for a in n.posonlyargs + n.args + n.kwonlyargs}
    return out


# --------------------------------------------------------------------------- return elimination
_FALL, _RET, _ABRUPT = "fall", "ret", "abrupt"


def _contains_return(stmts) -> bool:
    for st in stmts:
        if isinstance(st, (ast.FunctionDef, ast.AsyncFunctionDef, ast.ClassDef)):
            continue
        for n in [st, *walk_local(st)]:
            if isinstance(n, ast.Return):
                return True
    return False


class _Elim:
    """Structured elimination of ``return`` from a helper body.

    ``on_return(value_expr, return_stmt) -> list[stmt]`` says what a return becomes (an assignment
    to the call's target, an expression statement, or - for a boolean helper used as an ``if``
    test - the statements of the branch it selects).  ``free`` = nothing has to be delivered and
    nothing follows, so a path that simply falls off the end needs no rewriting.
    """

    def __init__(self, on_return, needs_value: bool):
        self.on_return = on_return
        self.needs_value = needs_value

    def run(self, stmts: list[ast.stmt], tail: bool = True) -> tuple[list[ast.stmt], str]:
        out: list[ast.stmt] = []
        for i, st in enumerate(stmts):
            rest = stmts[i + 1 :]
            if isinstance(st, ast.Return):
                val = st.value if st.value is not None else ast.Constant(value=None)
                out.extend(self.on_return(val, st))
                return out, _RET
            if isinstance(st, (ast.Raise, ast.Continue, ast.Break)):
                out.append(st)
                return out, _ABRUPT
            if not _contains_return([st]):
                out.append(st)
                continue
            sub_tail = tail and not rest
            free = sub_tail and not self.needs_value
            if isinstance(st, ast.If):
                b, kb = self.run(st.body, sub_tail)
                o, ko = self.run(st.orelse, sub_tail) if st.orelse else ([], _FALL)
                mixed = (kb == _FALL and _contains_return(st.body)) or (ko == _FALL and _contains_return(st.orelse))
                mk = lambda bb, oo: ast.copy_location(ast.If(test=st.test, body=bb or [ast.copy_location(ast.Pass(), st)], orelse=oo), st)
                if mixed:
                    if free:
                        out.append(mk(b, o))
                        return out, _FALL
                    raise _Bail("a branch returns on some of its paths only")
                if kb != _FALL and ko != _FALL:
                    out.append(mk(b, o))
                    return out, (_RET if _RET in (kb, ko) else _ABRUPT)
                r, kr = self.run(rest, tail)
                if kb != _FALL:
                    out.append(mk(b, o + r))
                else:
                    out.append(mk(b + r, o))
                return out, kr
            if isinstance(st, ast.With):
                b, kb = self.run(st.body, sub_tail)
                if kb == _FALL and not free:
                    raise _Bail("with-body returns on some paths only")
                out.append(ast.copy_location(ast.With(items=st.items, body=b), st))
                return out, kb
            if isinstance(st, ast.Try):
                if st.finalbody and _contains_return(st.finalbody):
                    raise _Bail("return inside finally")
                b, kb = self.run(st.body, sub_tail and not st.orelse)
                if st.orelse and _contains_return(st.body):
                    raise _Bail("try/else after a returning body")
                o, ko = self.run(st.orelse, sub_tail) if st.orelse else ([], kb)
                hs = []
                hkinds = []
                for h in st.handlers:
                    hb, kh = self.run(h.body, sub_tail)
                    hs.append(ast.copy_location(ast.ExceptHandler(type=h.type, name=h.name, body=hb or [ast.copy_location(ast.Pass(), h)]), h))
                    hkinds.append(kh)
                kinds = [ko] + hkinds
                if _FALL in kinds:
                    if free:
                        out.append(ast.copy_location(ast.Try(body=b, handlers=hs, orelse=o if st.orelse else [], finalbody=st.finalbody), st))
                        return out, _FALL
                    if ko == _FALL and _FALL not in hkinds and not _contains_return(st.body + st.orelse) and not st.finalbody:
                        # the protected part falls through, every handler leaves: what follows the
                        # try runs exactly when nothing was raised -> it is the try's else-clause
                        r, kr = self.run(rest, tail)
                        out.append(ast.copy_location(ast.Try(body=b, handlers=hs, orelse=(o if st.orelse else []) + r, finalbody=[]), st))
                        if kr == _FALL:
                            return out, _FALL
                        return out, (_RET if _RET in [kr] + hkinds else _ABRUPT)
                    raise _Bail("try returns on some paths only")
                out.append(ast.copy_location(ast.Try(body=b, handlers=hs, orelse=o if st.orelse else [], finalbody=st.finalbody), st))
                return out, (_RET if _RET in kinds else _ABRUPT)
            if isinstance(st, (ast.For, ast.While)) and not any(isinstance(n, (ast.For, ast.While)) and n is not st and _contains_return(n.body) for n in walk_local(st)):
                # `for ..: ... return v` followed by `rest`  ==  `for ..: ... <deliver v>; break`
                # with `rest` as the loop's else-clause (it runs exactly when the loop was not left)
                body = self._loop_body(st.body)
                r, kr = self.run(list(st.orelse) + rest, tail)
                if kr == _FALL and self.needs_value:
                    raise _Bail("loop may end without a return value")
                if isinstance(st, ast.For):
                    new_loop = ast.For(target=st.target, iter=st.iter, body=body, orelse=r, type_comment=None)
                else:
                    new_loop = ast.While(test=st.test, body=body, orelse=r)
                out.append(ast.copy_location(new_loop, st))
                return out, (_FALL if kr == _FALL else _RET)
            raise _Bail(f"return inside {type(st).__name__}")
        return out, _FALL

    def _loop_body(self, stmts: list[ast.stmt]) -> list[ast.stmt]:
        """Inside the loop a return becomes <deliver>; break - no restructuring is needed because
        break already skips everything that follows."""
        out: list[ast.stmt] = []
        for st in stmts:
            if isinstance(st, ast.Return):
                val = st.value if st.value is not None else ast.Constant(value=None)
                out.extend(self.on_return(val, st))
                out.append(ast.copy_location(ast.Break(), st))
                return out
            if not _contains_return([st]):
                out.append(st)
                continue
            if isinstance(st, ast.If):
                out.append(ast.copy_location(ast.If(test=st.test, body=self._loop_body(st.body) or [ast.copy_location(ast.Pass(), st)], orelse=self._loop_body(st.orelse)), st))
            elif isinstance(st, ast.With):
                out.append(ast.copy_location(ast.With(items=st.items, body=self._loop_body(st.body)), st))
            elif isinstance(st, ast.Try):
                if st.finalbody and _contains_return(st.finalbody):
                    raise _Bail("return inside finally")
                hs = [ast.copy_location(ast.ExceptHandler(type=h.type, name=h.name, body=self._loop_body(h.body) or [ast.copy_location(ast.Pass(), h)]), h) for h in st.handlers]
                out.append(ast.copy_location(ast.Try(body=self._loop_body(st.body), handlers=hs, orelse=self._loop_body(st.orelse), finalbody=st.finalbody), st))
            else:
                raise _Bail(f"return inside {type(st).__name__} inside a loop")
        return out


def _elim(stmts: list[ast.stmt], target: Optional[list[ast.expr]], ann, tail: bool = True) -> tuple[list[ast.stmt], str]:
    """``return e`` -> ``target = e`` (or an expression statement when the result is unused)."""

    def on_return(val, st):
        if target is None:
            if any(isinstance(n, (ast.Call, ast.Await)) for n in ast.walk(val)):
                return [ast.copy_location(ast.Expr(value=val), st)]
            return []
        if ann is not None and len(target) == 1 and isinstance(target[0], ast.Name):
            return [ast.copy_location(ast.AnnAssign(target=clone(target[0]), annotation=clone(ann), value=val, simple=1), st)]
        return [ast.copy_location(ast.Assign(targets=[clone(t) for t in target], value=val), st)]

    return _Elim(on_return, target is not None).run(stmts, tail)


def _thread(stmts: list[ast.stmt], then_body: list[ast.stmt], else_body: list[ast.stmt]) -> list[ast.stmt]:
    """Jump threading for ``if helper(..): A else: B`` when every return of the helper is a
    boolean constant: ``return True`` becomes A, ``return False`` becomes B."""

    def on_return(val, st):
        if isinstance(val, ast.Constant) and val.value is True:
            return [clone(x) for x in then_body] or [ast.copy_location(ast.Pass(), st)]
        if isinstance(val, ast.Constant) and (val.value is False or val.value is None):
            return [clone(x) for x in else_body] or [ast.copy_location(ast.Pass(), st)]
        raise _Bail("helper used as a test does not return boolean constants")

    body, kind = _Elim(on_return, True).run(stmts, True)
    if kind == _FALL:
        raise _Bail("boolean helper may end without a return")
    return body


# --------------------------------------------------------------------------- renaming / substitution
class _Subst(ast.NodeTransformer):
    def __init__(self, rename: dict[str, str], subst: dict[str, ast.expr]):
        self.rename = rename
        self.subst = subst

    def visit_Name(self, n: ast.Name):
        if n.id in self.subst and isinstance(n.ctx, ast.Load):
            new = clone(self.subst[n.id])
            return ast.copy_location(new, n) if not hasattr(new, "lineno") else new
        if n.id in self.rename:
            return ast.copy_location(ast.Name(id=self.rename[n.id], ctx=n.ctx), n)
        return n

    def visit_FunctionDef(self, n: ast.FunctionDef):
        self.generic_visit(n)
        if n.name in self.rename:
            n.name = self.rename[n.name]
        return n

    def visit_ExceptHandler(self, n: ast.ExceptHandler):
        self.generic_visit(n)
        if n.name and n.name in self.rename:
            n.name = self.rename[n.name]
        return n


class Inliner:
    def __init__(self, R, policy: Callable[[FuncInfo], bool] = default_policy, depth: int = 3, keep: frozenset = frozenset()):
        self.R = R
        self.policy = policy
        self.depth = depth
        self.keep = keep
        self.counter = 0
        self.inlined: list[str] = []
        self.skipped: list[tuple[str, str]] = []
        self.inlined_calls: set[int] = set()  # id() of the ORIGINAL call nodes that were replaced
        self.transparent = TRANSPARENT_DECORATORS

    # -- eligibility
    def _callee(self, fctx: FuncInfo, call: ast.Call, stack: tuple, generator: bool = False, g: Optional[FuncInfo] = None, ctxmgr: bool = False) -> Optional[FuncInfo]:
        if isinstance(call.func, ast.Attribute) and isinstance(call.func.value, ast.Call) and getattr(call.func.value.func, "id", "") == "super":
            return None
        if g is None:
            try:
                cands = self.R.resolve_call(fctx, call)
            except Exception:
                return None
            fs = [c for c in cands if isinstance(c, FuncInfo)]
            if len(fs) != 1 or len(cands) != 1:
                return None
            g = fs[0]
            if not self.policy(g):
                return None
        if g.qual in stack or g.qual in self.keep or g.name in self.keep:
            return None
        if isinstance(g.node, ast.AsyncFunctionDef) or g.kind in ("getter", "setter") or g.outer is not None:
            return None
        if any(d.split("(")[0] not in self.transparent and not (ctxmgr and d in CONTEXTMANAGER) for d in g.decorators):
            return None
        if ctxmgr != any(d in CONTEXTMANAGER for d in g.decorators):
            return None
        a = g.node.args
        if a.kwarg:
            return None
        n_st = 0
        has_yield = False
        for n in walk_local(g.node):
            if isinstance(n, (ast.Yield, ast.YieldFrom)):
                has_yield = True
                par = getattr(n, "_parent", None)
                if not generator or not isinstance(par, ast.Expr):
                    return None  # only `yield v` / `yield from it` as statements can be fused
            if isinstance(n, (ast.Global, ast.Nonlocal, ast.AsyncFunctionDef, ast.ClassDef)):
                return None
            if generator and isinstance(n, ast.Return) and n.value is not None:
                return None
            if generator and not ctxmgr and isinstance(n, (ast.Try, ast.With)) and any(isinstance(x, (ast.Yield, ast.YieldFrom)) for x in ast.walk(n)):
                return None  # suspension inside try / with: cleanup timing would change
            if ctxmgr and isinstance(n, (ast.YieldFrom, ast.Return)):
                return None
            if isinstance(n, ast.stmt):
                n_st += 1
        if generator != has_yield:
            return None
        if n_st > MAX_STMTS:
            return None
        if any(isinstance(x, ast.Starred) for x in call.args) or any(k.arg is None for k in call.keywords):
            return None
        return g

    def _bind(self, g: FuncInfo, call: ast.Call) -> dict[str, ast.expr]:
        a = g.node.args
        pos = [x.arg for x in a.posonlyargs + a.args]
        bind: dict[str, ast.expr] = {}
        args = list(call.args)
        if g.kind in ("method", "classmethod") and g.cls is not None:
            if not isinstance(call.func, ast.Attribute):
                raise _Bail("method called without receiver")
            recv = call.func.value
            # Class.method(obj, ...) form: leave alone
            if g.kind == "method":
                rt = None
                try:
                    rt = self.R.expr_type(self._fctx, recv)
                except Exception:
                    pass
                if rt is not None and rt.meta and not rt.classes:
                    raise _Bail("unbound method call")
            bind[pos[0]] = recv
            pos = pos[1:]
        if len(args) > len(pos):
            if a.vararg is None:
                raise _Bail("too many positional arguments")
            bind[a.vararg.arg] = ast.copy_location(ast.Tuple(elts=list(args[len(pos):]), ctx=ast.Load()), call)
            args = args[: len(pos)]
        elif a.vararg is not None:
            bind[a.vararg.arg] = ast.copy_location(ast.Tuple(elts=[], ctx=ast.Load()), call)
        for p, v in zip(pos, args):
            bind[p] = v
        for k in call.keywords:
            if k.arg in bind or k.arg not in [x.arg for x in a.posonlyargs + a.args + a.kwonlyargs]:
                raise _Bail("keyword mismatch")
            bind[k.arg] = k.value
        for p in [x.arg for x in a.posonlyargs + a.args + a.kwonlyargs]:
            if p not in bind:
                d = g.param_default(p)
                if d is None:
                    raise _Bail(f"parameter {p} unbound")
                bind[p] = d
        return bind

    # -- body of a callee, itself inlined
    def _body_of(self, g: FuncInfo, stack: tuple) -> list[ast.stmt]:
        body = [clone(s) for s in g.node.body]
        if body and isinstance(body[0], ast.Expr) and isinstance(body[0].value, ast.Constant) and isinstance(body[0].value.value, str):
            body = body[1:]
        holder = ast.Module(body=body, type_ignores=[])
        set_parents(holder)
        if len(stack) < self.depth:
            # resolve nested helper calls in g's own context: positions differ, so resolve on the
            # ORIGINAL nodes and carry the decision over by structural position
            orig = list(g.node.body)
            if len(orig) != len(body):
                orig = orig[1:]
            body = self._stmts(g, body, stack + (g.qual,), orig_stmts=orig)
        return body

    def _prepare(self, g: FuncInfo, call: ast.Call, caller_names: set[str], stack: tuple):
        bind = self._bind(g, call)
        body = self._body_of(g, stack)
        holder = ast.Module(body=body, type_ignores=[])
        set_parents(holder)
        assigned = _assigned_names(holder)
        params = list(bind)
        rename: dict[str, str] = {}
        subst: dict[str, ast.expr] = {}
        pre: list[ast.stmt] = []
        used_in_args = set()
        for v in bind.values():
            used_in_args |= {n.id for n in ast.walk(v) if isinstance(n, ast.Name)}
        self.counter += 1
        # `p -= d` on a parameter annotated as an array updates the caller's array in place: binding the
        # argument's own name is exact (an alias `p = arg` would hide that from the rules)
        plain_assigned = set()
        for n_ in ast.walk(holder):
            if isinstance(n_, ast.Name) and isinstance(n_.ctx, (ast.Store, ast.Del)) and not (isinstance(getattr(n_, "_parent", None), ast.AugAssign) and getattr(n_, "_parent").target is n_):
                plain_assigned.add(n_.id)
        for p in params:
            v = bind[p]
            if p in assigned and p not in plain_assigned and isinstance(v, ast.Name) and "ndarray" in norm_ann(g.param_annotation(p)) and v.id not in (assigned - {p}):
                if v.id != p:
                    rename[p] = v.id
                continue
            if p not in assigned and _is_simple(v):
                # the substituted chain must not be re-bound inside the helper body
                roots = {n.id for n in ast.walk(v) if isinstance(n, ast.Name)}
                if not (roots & (assigned - set(params))):
                    subst[p] = v
                    continue
            new = p
            if p in caller_names or p in used_in_args:
                if not (isinstance(v, ast.Name) and v.id == p and p not in assigned):
                    new = f"{p}__{self.counter}"
            if new != p:
                rename[p] = new
            ann = g.param_annotation(p)
            tgt = ast.Name(id=new, ctx=ast.Store())
            if isinstance(v, ast.Name) and v.id == new:
                continue
            if ann is not None:
                st: ast.stmt = ast.AnnAssign(target=tgt, annotation=clone(ann), value=clone(v), simple=1)
            else:
                st = ast.Assign(targets=[tgt], value=clone(v))
            pre.append(ast.copy_location(st, call))
        for nme in sorted(assigned - set(params)):
            if nme in caller_names or nme in used_in_args:
                rename[nme] = f"{nme}__{self.counter}"
        tr = _Subst(rename, subst)
        body = [tr.visit(s) for s in body]
        for s in pre + body:
            for n in ast.walk(s):
                if not hasattr(n, "_origin"):
                    n._origin = g  # type: ignore[attr-defined]
        return pre, body

    @staticmethod
    def _body(g: FuncInfo) -> list[ast.stmt]:
        body = list(g.node.body)
        if body and isinstance(body[0], ast.Expr) and isinstance(body[0].value, ast.Constant):
            body = body[1:]
        return body

    def _is_expr_function(self, g: FuncInfo, plain: bool = False) -> bool:
        """Single-assignment locals, optional guard returns ``if T: return A`` (unless ``plain``)
        and a final ``return B``: the function denotes one (conditional) expression."""
        body = self._body(g)
        if not body or not isinstance(body[-1], ast.Return) or body[-1].value is None:
            return False
        seen = set()
        for st in body[:-1]:
            if isinstance(st, ast.Assign) and len(st.targets) == 1 and isinstance(st.targets[0], ast.Name):
                nm = st.targets[0].id
            elif isinstance(st, ast.AnnAssign) and isinstance(st.target, ast.Name) and st.value is not None:
                nm = st.target.id
            elif not plain and isinstance(st, ast.If) and not st.orelse and len(st.body) == 1 and isinstance(st.body[0], ast.Return) and st.body[0].value is not None:
                continue
            else:
                return False
            if nm in seen or nm in g.params:
                return False
            seen.add(nm)
        return True

    def _expr_of(self, g: FuncInfo, call: ast.Call, stack: tuple) -> ast.expr:
        bind = self._bind(g, call)
        body = self._body(g)
        has_guards = any(isinstance(st, ast.If) for st in body)
        env: dict[str, ast.expr] = {}
        for p, v in bind.items():
            uses = sum(1 for n in walk_local(g.node) if isinstance(n, ast.Name) and n.id == p and isinstance(n.ctx, ast.Load))
            if not _is_simple(v) and uses > 1 and not has_guards:
                raise _Bail("argument would be duplicated")
            env[p] = v
        guards: list[tuple[ast.expr, ast.expr]] = []
        for st in body[:-1]:
            if isinstance(st, ast.If):
                guards.append((_Subst({}, dict(env)).visit(clone(st.test)), _Subst({}, dict(env)).visit(clone(st.body[0].value))))
                continue
            val = st.value
            tgt = st.targets[0].id if isinstance(st, ast.Assign) else st.target.id
            uses = sum(1 for n in walk_local(g.node) if isinstance(n, ast.Name) and n.id == tgt and isinstance(n.ctx, ast.Load))
            if uses > 1 and not _is_simple(val) and not has_guards:
                raise _Bail("local would be duplicated")
            env[tgt] = _Subst({}, dict(env)).visit(clone(val))
        e = _Subst({}, env).visit(clone(body[-1].value))
        for t, v in reversed(guards):
            e = ast.IfExp(test=t, body=v, orelse=e)
        for n in ast.walk(e):
            if not hasattr(n, "lineno"):
                ast.copy_location(n, call)
            if not hasattr(n, "_origin"):
                n._origin = g  # type: ignore[attr-defined]
        return ast.fix_missing_locations(e)

    # -- statements
    def _stmts(self, fctx: FuncInfo, stmts: list[ast.stmt], stack: tuple, orig_stmts=None, caller_names: Optional[set[str]] = None) -> list[ast.stmt]:
        """``stmts`` are clones; ``orig_stmts`` the corresponding original nodes used for resolution."""
        if orig_stmts is None:
            orig_stmts = stmts
        if caller_names is None:
            caller_names = _all_names(fctx.node)
        out: list[ast.stmt] = []
        for st, ost in zip(stmts, orig_stmts):
            out.extend(self._stmt(fctx, st, ost, stack, caller_names))
        return out

    def _stmt(self, fctx, st, ost, stack, caller_names) -> list[ast.stmt]:
        self._fctx = fctx
        if isinstance(st, (ast.FunctionDef, ast.AsyncFunctionDef, ast.ClassDef)):
            return [st]
        # compound statements: recurse into blocks
        for fld in ("body", "orelse", "finalbody"):
            if isinstance(getattr(st, fld, None), list) and getattr(st, fld) and isinstance(getattr(st, fld)[0], ast.stmt):
                setattr(st, fld, self._stmts(fctx, getattr(st, fld), stack, getattr(ost, fld), caller_names))
        if isinstance(st, ast.Try):
            for h, oh in zip(st.handlers, ost.handlers):
                h.body = self._stmts(fctx, h.body, stack, oh.body, caller_names)
        if isinstance(st, ast.Match):
            for c, oc in zip(st.cases, ost.cases):
                c.body = self._stmts(fctx, c.body, stack, oc.body, caller_names)
        # with self._cm(..) [as v]: BODY  (a repository @contextmanager with one `yield`): the generator's
        # body with the yield statement replaced by BODY
        if isinstance(st, ast.With) and len(st.items) == 1 and isinstance(st.items[0].context_expr, ast.Call):
            fusedw = self._fuse_contextmanager(fctx, st, ost, stack, caller_names)
            if fusedw is not None:
                return fusedw
        # for x in self._gen(..): BODY   /   for x in obj: BODY (obj.__iter__ a repository generator)
        if isinstance(st, ast.For) and not st.orelse:
            fused = self._fuse_generator(fctx, st, ost, stack, caller_names)
            if fused is not None:
                return fused
        # x = helper(..) if c else y   ->   if c: x = helper(..) else: x = y   (then spliced)
        if isinstance(st, (ast.Assign, ast.AnnAssign, ast.Return)) and isinstance(st.value, ast.IfExp) and not isinstance(getattr(st, "target", None), (ast.Tuple,)):
            ie, oie = st.value, ost.value
            arms = [(ie.body, oie.body), (ie.orelse, oie.orelse)]
            if any(isinstance(a, ast.Call) and self._callee(fctx, oa, stack) is not None and not self._is_expr_function(self._callee(fctx, oa, stack), plain=True) for a, oa in arms):
                def mk(val, oval):
                    if isinstance(st, ast.Assign):
                        n_, o_ = ast.Assign(targets=[clone(t) for t in st.targets], value=val), ast.Assign(targets=ost.targets, value=oval)
                    elif isinstance(st, ast.AnnAssign):
                        n_, o_ = ast.AnnAssign(target=clone(st.target), annotation=clone(st.annotation), value=val, simple=st.simple), ast.AnnAssign(target=ost.target, annotation=ost.annotation, value=oval, simple=ost.simple)
                    else:
                        n_, o_ = ast.Return(value=val), ast.Return(value=oval)
                    return ast.copy_location(n_, st), ast.copy_location(o_, ost)

                (nb, ob), (ne, oe) = mk(ie.body, oie.body), mk(ie.orelse, oie.orelse)
                new_if = ast.copy_location(ast.If(test=ie.test, body=[nb], orelse=[ne]), st)
                old_if = ast.copy_location(ast.If(test=oie.test, body=[ob], orelse=[oe]), ost)
                for n_ in (nb, ne):
                    n_._parent = new_if  # type: ignore[attr-defined]
                return self._stmt(fctx, new_if, old_if, stack, caller_names)
        # if helper(..): A else: B  with a helper that only returns True / False -> jump threading
        if isinstance(st, ast.If):
            t, ot, neg = st.test, ost.test, False
            if isinstance(t, ast.UnaryOp) and isinstance(t.op, ast.Not):
                t, ot, neg = t.operand, ot.operand, True
            if isinstance(t, ast.Call):
                g = self._callee(fctx, ot, stack)
                if g is not None and not self._is_expr_function(g, plain=True):
                    try:
                        self._fctx = fctx
                        pre, body = self._prepare(g, t, caller_names, stack)
                        then_b, else_b = (st.orelse, st.body) if neg else (st.body, st.orelse)
                        new = pre + _thread(body, then_b, else_b)
                        for s_ in new:
                            ast.fix_missing_locations(s_)
                        self.inlined.append(g.qual)
                        self.inlined_calls.add(id(ot))
                        caller_names |= _all_names(ast.Module(body=new, type_ignores=[]))
                        return new
                    except _Bail as ex:
                        self.skipped.append((g.qual, str(ex)))
        # x = [helper(..) for t in S] / return [helper(..) for t in S]  with a statement helper as the element:
        # the loop it abbreviates (acc = []; for t in S: e = helper(..); acc.append(e)), so that the helper can be spliced
        if isinstance(st, (ast.Assign, ast.AnnAssign, ast.Return)) and isinstance(getattr(st, "value", None), ast.ListComp):
            lc, olc = st.value, ost.value
            if len(lc.generators) == 1 and not lc.generators[0].is_async and isinstance(lc.elt, ast.Call):
                g = self._callee(fctx, olc.elt, stack)
                tg_ok = isinstance(st, ast.Return) or (len(st.targets if isinstance(st, ast.Assign) else [st.target]) == 1 and isinstance((st.targets[0] if isinstance(st, ast.Assign) else st.target), ast.Name))
                loopvars = {n.id for n in ast.walk(lc.generators[0].target) if isinstance(n, ast.Name)}
                if g is not None and not self._is_expr_function(g, plain=True) and tg_ok and not (loopvars & caller_names - {n.id for n in ast.walk(lc) if isinstance(n, ast.Name)}):
                    self.counter += 1
                    acc = (st.targets[0] if isinstance(st, ast.Assign) else st.target).id if not isinstance(st, ast.Return) else f"_acc{self.counter}"
                    tmp = f"_e{self.counter}"
                    gen, ogen = lc.generators[0], olc.generators[0]
                    init = ast.copy_location(ast.Assign(targets=[ast.Name(id=acc, ctx=ast.Store())], value=ast.List(elts=[], ctx=ast.Load())), st)
                    one = ast.copy_location(ast.Assign(targets=[ast.Name(id=tmp, ctx=ast.Store())], value=lc.elt), st)
                    oone = ast.copy_location(ast.Assign(targets=[ast.Name(id=tmp, ctx=ast.Store())], value=olc.elt), ost)
                    app = ast.copy_location(ast.Expr(value=ast.Call(func=ast.Attribute(value=ast.Name(id=acc, ctx=ast.Load()), attr="append", ctx=ast.Load()), args=[ast.Name(id=tmp, ctx=ast.Load())], keywords=[])), st)
                    body = [one, app]
                    obody = [oone, app]
                    for cond, ocond in zip(reversed(gen.ifs), reversed(ogen.ifs)):
                        body = [ast.copy_location(ast.If(test=cond, body=body, orelse=[]), st)]
                        obody = [ast.copy_location(ast.If(test=ocond, body=obody, orelse=[]), ost)]
                    loop = ast.copy_location(ast.For(target=gen.target, iter=gen.iter, body=body, orelse=[]), st)
                    oloop = ast.copy_location(ast.For(target=ogen.target, iter=ogen.iter, body=obody, orelse=[]), ost)
                    before = len(self.inlined)
                    caller_names |= {acc, tmp}
                    new_loop = self._stmt(fctx, loop, oloop, stack, caller_names)
                    if len(self.inlined) > before:
                        tail = [ast.copy_location(ast.Return(value=ast.Name(id=acc, ctx=ast.Load())), st)] if isinstance(st, ast.Return) else []
                        res = [init] + new_loop + tail
                        for s_ in res:
                            ast.fix_missing_locations(s_)
                        return res
        # statement splice
        call = ocall = None
        target = None
        ann = None
        form = None
        if isinstance(st, ast.Expr) and isinstance(st.value, ast.Call):
            call, ocall, form = st.value, ost.value, "expr"
        elif isinstance(st, ast.Assign) and isinstance(st.value, ast.Call):
            call, ocall, form, target = st.value, ost.value, "assign", st.targets
        elif isinstance(st, ast.AnnAssign) and isinstance(st.value, ast.Call):
            call, ocall, form, target, ann = st.value, ost.value, "assign", [st.target], st.annotation
        elif isinstance(st, ast.Return) and isinstance(st.value, ast.Call):
            call, ocall, form = st.value, ost.value, "return"
        if call is not None:
            g = self._callee(fctx, ocall, stack)
            if g is not None:
                try:
                    self._fctx = fctx
                    pre, body = self._prepare(g, call, caller_names, stack)
                    if form == "return":
                        if not body or not isinstance(body[-1], (ast.Return, ast.Raise)):
                            body = body + [ast.copy_location(ast.Return(value=ast.Constant(value=None)), st)]
                        new = pre + body
                    else:
                        b, kind = _elim(body, target if form == "assign" else None, ann)
                        if form == "assign" and kind == _FALL:
                            raise _Bail("helper may end without a return value")
                        new = pre + b
                    if not new:
                        new = [ast.copy_location(ast.Pass(), st)]
                    for s in new:
                        ast.fix_missing_locations(ast.copy_location(s, s) if hasattr(s, "lineno") else ast.copy_location(s, st))
                    self.inlined.append(g.qual)
                    self.inlined_calls.add(id(ocall))
                    caller_names |= _all_names(ast.Module(body=new, type_ignores=[]))
                    # arguments of the spliced call may themselves contain expression helpers
                    return new
                except _Bail as ex:
                    self.skipped.append((g.qual, str(ex)))
        # a statement-helper called somewhere inside a simple statement (x += helper(..),
        # f(helper(..)), if helper(..) > 0: ...): hoist it into `_rN = helper(..)` in front
        hoisted = self._hoist(fctx, st, stack, caller_names)
        if hoisted is not None:
            if hoisted and hoisted[-1] is st:
                self._subst_exprs(fctx, st, ost, stack)  # expression helpers in what is left of the statement
            return hoisted
        # expression substitution anywhere inside this statement's own expressions
        self._subst_exprs(fctx, st, ost, stack)
        return [st]

    def _fuse_contextmanager(self, fctx, st: ast.With, ost: ast.With, stack, caller_names) -> Optional[list[ast.stmt]]:
        call, ocall = st.items[0].context_expr, ost.items[0].context_expr
        g = self._callee(fctx, ocall, stack, generator=True, ctxmgr=True)
        if g is None:
            return None
        yields = [n for n in walk_local(g.node) if isinstance(n, ast.Yield)]
        if len(yields) != 1 or any(isinstance(p_, (ast.For, ast.While)) for p_ in _ancestors(yields[0], g.node)):
            return None
        var = st.items[0].optional_vars
        try:
            self._fctx = fctx
            pre, body = self._prepare(g, call, caller_names, stack)
        except _Bail as ex:
            self.skipped.append((g.qual, str(ex)))
            return None
        holder = ast.Module(body=body, type_ignores=[])
        set_parents(holder)
        ys = [n for n in ast.walk(holder) if isinstance(n, ast.Yield)]
        if len(ys) != 1:
            return None
        ystmt = getattr(ys[0], "_parent", None)
        if not isinstance(ystmt, ast.Expr):
            return None
        new_body: list[ast.stmt] = []
        if var is not None:
            val = ys[0].value if ys[0].value is not None else ast.Constant(value=None)
            new_body.append(ast.copy_location(ast.Assign(targets=[var], value=val), st))
        new_body.extend(st.body)
        blk_owner = getattr(ystmt, "_parent", None)
        placed = False
        for fld in ("body", "orelse", "finalbody"):
            lst = getattr(blk_owner, fld, None)
            if isinstance(lst, list) and ystmt in lst:
                k = lst.index(ystmt)
                lst[k:k + 1] = new_body
                placed = True
                break
        if not placed:
            return None
        new = pre + holder.body
        for s_ in new:
            ast.fix_missing_locations(s_)
        self.inlined.append(g.qual)
        self.inlined_calls.add(id(ocall))
        caller_names |= _all_names(ast.Module(body=new, type_ignores=[]))
        return new

    def _fuse_generator(self, fctx, st: ast.For, ost: ast.For, stack, caller_names) -> Optional[list[ast.stmt]]:
        """Generator-loop fusion: the generator's body with every ``yield v`` replaced by
        ``target = v`` + the loop body (``yield from it`` by a loop over ``it``)."""
        g = None
        call = None
        if isinstance(ost.iter, ast.Call):
            g = self._callee(fctx, ost.iter, stack, generator=True)
            call = st.iter
        else:
            # iteration over an object whose class defines __iter__ as a generator
            try:
                t = self.R.expr_type(fctx, ost.iter)
            except Exception:
                t = None
            if t is not None and len(t.classes) == 1 and not t.meta and _is_simple(ost.iter):
                ci = self.R.repo.classes[next(iter(t.classes))]
                m = self.R.repo.find_member(ci, "__iter__")
                subs = [c for c in self.R.repo.subclasses(ci) if "__iter__" in c.methods]
                if m is not None and not subs:
                    g = self._callee(fctx, ast.Call(func=ast.Attribute(value=ost.iter, attr="__iter__", ctx=ast.Load()), args=[], keywords=[]), stack, generator=True, g=m)
                    call = ast.copy_location(ast.Call(func=ast.Attribute(value=st.iter, attr="__iter__", ctx=ast.Load()), args=[], keywords=[]), st)
        if g is None:
            return None
        try:
            # `continue` of this loop = "done with this item": structured away; `break` cannot be fused
            body = list(st.body)
            for n in walk_local(ast.Module(body=body, type_ignores=[])):
                if isinstance(n, (ast.Break, ast.Continue)):
                    lp = n
                    own = True
                    p_ = getattr(n, "_parent", None)
                    while p_ is not None and p_ is not st:
                        if isinstance(p_, (ast.For, ast.While)):
                            own = False
                            break
                        p_ = getattr(p_, "_parent", None)
                    if own and isinstance(n, ast.Break):
                        raise _Bail("break in the consuming loop")
                    if own:
                        n.__class__ = ast.Return  # temporarily: eliminated structurally below
                        n.value = None
                        n._was_continue = True  # type: ignore[attr-defined]
            has_ret = any(isinstance(n, ast.Return) and not getattr(n, "_was_continue", False) for n in walk_local(ast.Module(body=body, type_ignores=[])))
            if any(getattr(n, "_was_continue", False) for n in walk_local(ast.Module(body=body, type_ignores=[]))):
                if has_ret:
                    raise _Bail("continue and return mixed in the consuming loop")
                body, _k = _Elim(lambda val, s_: [], False).run(body, True)
            self._fctx = fctx
            pre, gbody = self._prepare(g, call, caller_names, stack)
            # `yield v` with v a local of the generator and a plain loop target t: let the generator's
            # variable BE t (instead of `t = v` in front of the body), when t is free in the generator
            tnames = [st.target.id] if isinstance(st.target, ast.Name) else ([e.id for e in st.target.elts] if isinstance(st.target, ast.Tuple) and all(isinstance(e, ast.Name) for e in st.target.elts) else None)
            if tnames and len(set(tnames)) == len(tnames):
                yvals = [n.value.value for s_ in gbody for n in ast.walk(s_) if isinstance(n, ast.Expr) and isinstance(n.value, ast.Yield)]
                shapes = set()
                for yv in yvals:
                    if isinstance(yv, ast.Name) and len(tnames) == 1:
                        shapes.add((yv.id,))
                    elif isinstance(yv, ast.Tuple) and len(yv.elts) == len(tnames) and all(isinstance(e, ast.Name) for e in yv.elts):
                        shapes.add(tuple(e.id for e in yv.elts))
                    else:
                        shapes.add(None)
                used = {n.id for s_ in pre + gbody for n in ast.walk(s_) if isinstance(n, ast.Name)}
                if len(shapes) == 1 and None not in shapes:
                    ynames = next(iter(shapes))
                    stored = {n.id for s_ in gbody for n in ast.walk(s_) if isinstance(n, ast.Name) and isinstance(n.ctx, ast.Store)}
                    if len(set(ynames)) == len(ynames) and all(y in stored for y in ynames) and not any(t in used and t not in ynames for t in tnames):
                        ren = dict(zip(ynames, tnames))
                        for s_ in gbody:
                            for n in ast.walk(s_):
                                if isinstance(n, ast.Name) and n.id in ren:
                                    n.id = ren[n.id]
            n_sites = [0]

            def repl(stmts):
                out = []
                for s_ in stmts:
                    if isinstance(s_, ast.Expr) and isinstance(s_.value, ast.Yield):
                        n_sites[0] += 1
                        v = s_.value.value if s_.value.value is not None else ast.Constant(value=None)
                        out.append(ast.copy_location(ast.Assign(targets=[clone(st.target)], value=v), s_))
                        out.extend(clone(b) for b in body)
                        continue
                    if isinstance(s_, ast.Expr) and isinstance(s_.value, ast.YieldFrom):
                        n_sites[0] += 1
                        out.append(ast.copy_location(ast.For(target=clone(st.target), iter=s_.value.value, body=[clone(b) for b in body], orelse=[], type_comment=None), s_))
                        continue
                    if not isinstance(s_, (ast.FunctionDef, ast.AsyncFunctionDef, ast.ClassDef)):
                        for fld in ("body", "orelse", "finalbody"):
                            sub = getattr(s_, fld, None)
                            if isinstance(sub, list) and sub and isinstance(sub[0], ast.stmt):
                                setattr(s_, fld, repl(sub))
                        if isinstance(s_, ast.Try):
                            for h in s_.handlers:
                                h.body = repl(h.body)
                    out.append(s_)
                return out

            new = pre + repl(gbody)
            if n_sites[0] == 0 or n_sites[0] > 3:
                raise _Bail("no / too many yield sites")
            for s_ in new:
                ast.fix_missing_locations(s_)
            self.inlined.append(g.qual)
            if isinstance(ost.iter, ast.Call):
                self.inlined_calls.add(id(ost.iter))
            caller_names |= _all_names(ast.Module(body=new, type_ignores=[]))
            return new
        except _Bail as ex:
            self.skipped.append((g.qual, str(ex)))
            # undo the temporary continue -> return marking
            for n in walk_local(ast.Module(body=list(st.body), type_ignores=[])):
                if getattr(n, "_was_continue", False):
                    n.__class__ = ast.Continue
            return None

    def _hoist(self, fctx, st, stack, caller_names) -> Optional[list[ast.stmt]]:
        # deliberately narrow: `x op= helper(..)` and `if helper(..) <cmp> ..:` only - hoisting out of
        # arbitrary expressions would rewrite literals (dict displays, call arguments) that rules read
        yield_tuple = None
        if isinstance(st, ast.Expr) and isinstance(st.value, ast.Yield) and isinstance(st.value.value, ast.Tuple):
            # `yield a, helper(b)`: the helper call is a direct element and everything before it is a plain name / constant
            yield_tuple = st.value.value
        # `return {.., "k": helper(..)}` / `x = {.., "k": helper(..)}`: the helper call is a direct value of the
        # display and the values before it are plain reads or .to_dict() / .copy() of attribute chains
        if isinstance(st, (ast.Return, ast.Assign, ast.AnnAssign)) and isinstance(getattr(st, "value", None), ast.Dict):
            def _plain(e) -> bool:
                for c in ast.walk(e):
                    if isinstance(c, ast.Call) and not (isinstance(c.func, ast.Attribute) and c.func.attr in ("to_dict", "copy") and _is_simple(c.func.value) and not c.args and not c.keywords):
                        s0 = getattr(c, "_src", None)
                        g0 = self._callee(fctx, s0, stack) if s0 is not None and getattr(s0, "_parent", None) is not None else None
                        if g0 is not None and self._is_expr_function(g0, plain=True) and all(_is_simple(a_) for a_ in c.args) and not c.keywords and all(_plain(r_.value) for r_ in ast.walk(g0.node) if isinstance(r_, ast.Return) and r_.value is not None):
                            continue  # an expression helper whose own expression is plain
                        return False
                    if isinstance(c, (ast.Lambda, ast.Await, ast.Yield, ast.YieldFrom, ast.NamedExpr)):
                        return False
                return True

            d = st.value
            for i_, e_ in enumerate(d.values):
                if isinstance(e_, ast.Call):
                    src_ = getattr(e_, "_src", None)
                    if src_ is not None and getattr(src_, "_parent", None) is not None:
                        g_ = self._callee(fctx, src_, stack)
                        if g_ is not None and not self._is_expr_function(g_, plain=True) and all(_plain(x) for x in d.values[:i_]) and all(k is None or isinstance(k, ast.Constant) for k in d.keys[: i_ + 1]):
                            self.counter += 1
                            tmp = f"_r{self.counter}"
                            asg = ast.copy_location(ast.Assign(targets=[ast.Name(id=tmp, ctx=ast.Store())], value=e_), st)
                            oasg = ast.copy_location(ast.Assign(targets=[ast.Name(id=tmp, ctx=ast.Store())], value=src_), st)
                            before = len(self.inlined)
                            pre = self._stmt(fctx, asg, oasg, stack, caller_names)
                            if len(self.inlined) == before:
                                return None
                            d.values[i_] = ast.copy_location(ast.Name(id=tmp, ctx=ast.Load()), e_)
                            rest = self._hoist(fctx, st, stack, caller_names)
                            return pre + (rest if rest is not None else [st])
                if not _plain(e_):
                    break
            return None
        if not isinstance(st, (ast.AugAssign, ast.If)) and yield_tuple is None:
            return None
        roots = []
        if yield_tuple is not None:
            roots = []
        elif isinstance(st, ast.If):
            if isinstance(st.test, ast.Compare) and isinstance(st.test.left, ast.Call):
                roots = [("test", st.test)]
            else:
                return None
        elif isinstance(st.value, ast.Call):
            roots = [("value", st.value)]
        else:
            return None
        found = None

        def search(par, fld, idx, node):
            nonlocal found
            if found is not None or isinstance(node, (ast.Lambda, ast.ListComp, ast.SetComp, ast.DictComp, ast.GeneratorExp, ast.IfExp, ast.BoolOp)):
                return  # conditionally / repeatedly evaluated positions are not hoisted
            if isinstance(node, ast.Call):
                src = getattr(node, "_src", None)
                if src is not None and getattr(src, "_parent", None) is not None:
                    g = self._callee(fctx, src, stack)
                    if g is not None and not self._is_expr_function(g, plain=True):
                        found = (par, fld, idx, node, src, g)
                        return
            for f2, v2 in ast.iter_fields(node):
                if isinstance(v2, ast.AST):
                    search(node, f2, None, v2)
                elif isinstance(v2, list):
                    for i, x in enumerate(v2):
                        if isinstance(x, ast.AST):
                            search(node, f2, i, x)

        for fld, r in roots:
            search(st, fld, None, r)
        if yield_tuple is not None:
            for i_, e_ in enumerate(yield_tuple.elts):
                if isinstance(e_, ast.Call):
                    src_ = getattr(e_, "_src", None)
                    if src_ is not None and getattr(src_, "_parent", None) is not None:
                        g_ = self._callee(fctx, src_, stack)
                        if g_ is not None and not self._is_expr_function(g_, plain=True) and all(isinstance(x, (ast.Name, ast.Constant)) for x in yield_tuple.elts[:i_]):
                            found = (yield_tuple, "elts", i_, e_, src_, g_)
                    break
                if not isinstance(e_, (ast.Name, ast.Constant)):
                    break
        if found is None:
            return None
        par, fld, idx, node, src, g = found
        if not (par is st or par is yield_tuple or (isinstance(st, ast.If) and par is st.test and fld == "left")):
            return None
        self.counter += 1
        tmp = f"_r{self.counter}"
        asg = ast.copy_location(ast.Assign(targets=[ast.Name(id=tmp, ctx=ast.Store())], value=node), st)
        oasg = ast.copy_location(ast.Assign(targets=[ast.Name(id=tmp, ctx=ast.Store())], value=src), st)
        before = len(self.inlined)
        pre = self._stmt(fctx, asg, oasg, stack, caller_names)
        if len(self.inlined) == before:
            return None  # could not be spliced: leave the statement as it is
        ref = ast.copy_location(ast.Name(id=tmp, ctx=ast.Load()), node)
        if idx is None:
            setattr(par, fld, ref)
        else:
            getattr(par, fld)[idx] = ref
        rest = self._hoist(fctx, st, stack, caller_names)
        return pre + (rest if rest is not None else [st])

    def _subst_exprs(self, fctx, st, ost, stack) -> None:
        # pair up clone/original expression nodes of this statement (not of nested blocks)
        def own_exprs(s):
            for fld, val in ast.iter_fields(s):
                if fld in ("body", "orelse", "finalbody", "handlers", "cases"):
                    continue
                if isinstance(val, ast.AST):
                    yield s, fld, None, val
                elif isinstance(val, list):
                    for i, v in enumerate(val):
                        if isinstance(v, ast.AST):
                            yield s, fld, i, v

        def rec(par, fld, idx, node, onode):
            if isinstance(node, ast.Lambda):
                return
            if isinstance(node, ast.Call):
                g = self._callee(fctx, onode, stack)
                if g is not None and self._is_expr_function(g):
                    try:
                        self._fctx = fctx
                        e = self._expr_of(g, node, stack)
                        if idx is None:
                            setattr(par, fld, e)
                        else:
                            getattr(par, fld)[idx] = e
                        self.inlined.append(g.qual)
                        self.inlined_calls.add(id(onode))
                        return
                    except _Bail as ex:
                        self.skipped.append((g.qual, str(ex)))
            for (f2, v2), (_, ov2) in zip(ast.iter_fields(node), ast.iter_fields(onode)):
                if isinstance(v2, ast.AST) and isinstance(ov2, ast.AST):
                    rec(node, f2, None, v2, ov2)
                elif isinstance(v2, list) and isinstance(ov2, list) and len(v2) == len(ov2):
                    for i, (a, b) in enumerate(zip(v2, ov2)):
                        if isinstance(a, ast.AST) and isinstance(b, ast.AST):
                            rec(node, f2, i, a, b)

        for (par, fld, idx, node), (_, _, _, onode) in zip(own_exprs(st), own_exprs(ost)):
            if type(node) is type(onode):
                rec(par, fld, idx, node, onode)

    # -- entry
    def run(self, f: FuncInfo) -> FuncInfo:
        self.inlined = []
        new_node = clone(f.node)
        set_parents(new_node)
        new_node.body = self._stmts(f, new_node.body, (f.qual,), orig_stmts=f.node.body)
        if not self.inlined:
            return f
        _tidy(new_node)
        ast.fix_missing_locations(new_node)
        set_parents(new_node)
        new_node._parent = getattr(f.node, "_parent", None)  # type: ignore[attr-defined]
        g = dataclasses.replace(f, node=new_node, nested={})
        g.ckey = f.qual + "%inl" + str(id(new_node))  # type: ignore[attr-defined]
        g.inlined = list(self.inlined)  # type: ignore[attr-defined]
        g.original = f  # type: ignore[attr-defined]
        for n in walk_local(new_node):
            if isinstance(n, (ast.FunctionDef, ast.AsyncFunctionDef)):
                _mk_nested(g, n)
        return g


def _tidy(fn_node: ast.AST) -> None:
    """Remove artefacts of splicing: ``x = x``, ``else: pass``, ``pass`` next to other statements."""
    for n in ast.walk(fn_node):
        for fld in ("body", "orelse", "finalbody"):
            lst = getattr(n, fld, None)
            if not isinstance(lst, list) or not lst or not isinstance(lst[0], ast.stmt):
                continue
            keep = []
            for st in lst:
                if isinstance(st, ast.Assign) and len(st.targets) == 1 and isinstance(st.targets[0], ast.Name) and isinstance(st.value, ast.Name) and st.value.id == st.targets[0].id:
                    continue
                if isinstance(st, ast.Assign) and len(st.targets) == 1 and isinstance(st.targets[0], ast.Tuple) and isinstance(st.value, ast.Tuple) and len(st.targets[0].elts) == len(st.value.elts) and all(isinstance(a, ast.Name) and isinstance(b, ast.Name) and a.id == b.id for a, b in zip(st.targets[0].elts, st.value.elts)):
                    continue
                if isinstance(st, ast.AnnAssign) and st.value is None and isinstance(st.target, ast.Name):
                    keep.append(st)
                    continue
                if isinstance(st, ast.Pass):
                    continue
                keep.append(st)
            if not keep and fld == "body":
                keep = [ast.copy_location(ast.Pass(), lst[0])]
            setattr(n, fld, keep)


def _mk_nested(outer: FuncInfo, node) -> None:
    sub = FuncInfo(f"{outer.qual}.<locals>.{node.name}", node.name, node, outer.module, outer.cls, outer, "function", [])
    sub.ckey = getattr(outer, "ckey", outer.qual) + ".<locals>." + node.name  # type: ignore[attr-defined]
    outer.nested[node.name] = sub
    for n in walk_local(node):
        if isinstance(n, (ast.FunctionDef, ast.AsyncFunctionDef)):
            _mk_nested(sub, n)


def inline(R, f: FuncInfo, policy: Callable[[FuncInfo], bool] = default_policy, depth: int = 3, keep=()) -> FuncInfo:
    return Inliner(R, policy, depth, frozenset(keep)).run(f)


# --------------------------------------------------------------------------- whole-repository pass
def _swap_node(old: ast.AST, new: Optional[ast.AST]) -> None:
    par = getattr(old, "_parent", None)
    if par is None:
        return
    for fld, val in ast.iter_fields(par):
        if isinstance(val, list):
            for i, v in enumerate(val):
                if v is old:
                    if new is None:
                        del val[i]
                    else:
                        val[i] = new
                        new._parent = par  # type: ignore[attr-defined]
                    return


def normalise_repo(repo, keep=frozenset(), policy: Callable[[FuncInfo], bool] = default_policy, depth: int = 3, compiled_opaque: bool = False) -> dict:
    """Inline private helpers into their callers everywhere, in place, and drop helpers that were
    absorbed completely (every mention of their name in the package was an inlined call).

    Returns {"inlined": {caller: [helpers]}, "absorbed": [helpers], "skipped": [(helper, why)]}.
    """
    from .resolve import Resolver

    R0 = Resolver(repo)
    keep = frozenset(keep)
    helpers = {q: h for q, h in repo.funcs.items() if h.outer is None and policy(h) and h.name not in keep and h.qual not in keep and h.kind in ("function", "method", "staticmethod", "classmethod")}
    hnames = {h.name for h in helpers.values()}
    if not hnames:
        return {"inlined": {}, "absorbed": [], "skipped": []}
    inl = Inliner(R0, policy, depth, keep)
    if compiled_opaque:
        # the property is about what runs INSIDE numba-compiled code: compiled helpers stay functions of their own
        inl.transparent = tuple(d for d in TRANSPARENT_DECORATORS if "jit" not in d)
    todo = []
    for f in list(repo.funcs.values()):
        if f.outer is not None:
            continue
        hit = False
        for n in walk_local(f.node):
            if isinstance(n, ast.Call):
                fn = n.func
                nm = fn.id if isinstance(fn, ast.Name) else fn.attr if isinstance(fn, ast.Attribute) else None
                if nm in hnames:
                    hit = True
                    break
        if hit:
            todo.append(f)
    results = []
    report: dict = {"inlined": {}, "absorbed": [], "skipped": []}
    for f in todo:
        g = inl.run(f)
        if g is not f:
            results.append((f, g))
            report["inlined"][f.qual] = sorted(set(g.inlined))  # type: ignore[attr-defined]
    report["skipped"] = sorted(set(inl.skipped))
    # absorbed helpers: every mention of the name (outside its own def) is a call that was inlined
    mentions: dict[str, list[ast.AST]] = {nm: [] for nm in hnames}
    for mod in repo.modules.values():
        for n in ast.walk(mod.tree):
            if isinstance(n, ast.Name) and n.id in mentions:
                mentions[n.id].append(n)
            elif isinstance(n, ast.Attribute) and n.attr in mentions:
                mentions[n.attr].append(n)
            elif isinstance(n, ast.alias) and (n.asname or n.name).split(".")[-1] in mentions:
                pass  # an import of the helper is not a use
            elif isinstance(n, ast.Constant) and isinstance(n.value, str) and n.value in mentions:
                mentions[n.value].append(n)  # getattr(obj, "_helper") / __all__
    by_name: dict[str, list[FuncInfo]] = {}
    for h in helpers.values():
        by_name.setdefault(h.name, []).append(h)
    absorbed = []
    for nm, hs in by_name.items():
        ms = mentions[nm]
        if not ms or len(hs) != 1:
            continue
        ok = True
        for m in ms:
            par = getattr(m, "_parent", None)
            if not (isinstance(par, ast.Call) and par.func is m and id(par) in inl.inlined_calls):
                ok = False
                break
        if ok:
            absorbed.append(hs[0])
    # swap the normalised bodies in
    for f, g in results:
        old = f.node
        new = g.node
        new._parent = getattr(old, "_parent", None)  # type: ignore[attr-defined]
        _swap_node(old, new)
        f.node = new
        f.nested = {}
        f.inlined = list(g.inlined)  # type: ignore[attr-defined]
        for n in walk_local(new):
            if isinstance(n, (ast.FunctionDef, ast.AsyncFunctionDef)):
                _mk_nested(f, n)
        stack = list(f.nested.values())
        while stack:
            sub = stack.pop()
            repo.funcs[sub.qual] = sub
            stack.extend(sub.nested.values())
    for h in absorbed:
        repo.funcs.pop(h.qual, None)
        if h.cls is not None:
            for d in (h.cls.methods, h.cls.getters, h.cls.setters):
                if d.get(h.name) is h:
                    del d[h.name]
        elif h.module.functions.get(h.name) is h:
            del h.module.functions[h.name]
        _swap_node(h.node, None)
        report["absorbed"].append(h.qual)
    report["absorbed"].sort()
    repo._mro_cache.clear()
    repo._sub_cache.clear()
    return report
