"""E3: statement-level control-flow graph for one function + path queries.

Edges carry a kind: ``n`` (normal flow, including explicit ``raise`` routed to its handler
or to the RAISE exit) or ``x`` (implicit exception from a statement inside a ``try``).
``finally`` bodies are instantiated once per way of leaving the ``try`` (normal, return,
break, continue, exception) so that normal and exceptional continuations never mix.
"""

from __future__ import annotations

import ast
from dataclasses import dataclass, field
from typing import Callable, Iterable, Optional

from .index import AnalysisError, norm


@dataclass(eq=False)
class Node:
    id: int
    kind: str  # entry|return_exit|raise_exit|stmt|test|for|while|with|handler|match|case|join
    ast: Optional[ast.AST] = None
    label: str = ""

    @property
    def line(self) -> int:
        return getattr(self.ast, "lineno", 0)

    def __repr__(self) -> str:
        t = norm(self.ast).split("\n")[0][:60] if self.ast is not None else ""
        return f"<{self.id}:{self.kind}:{self.line}:{t}>"


@dataclass
class _TryFrame:
    handlers: list[Node]
    catch_all: bool
    finalbody: list[ast.stmt]
    fin_exc_entry: Optional[Node] = None
    in_body: bool = True  # False while building handlers/else (exceptions skip handlers)


@dataclass
class _LoopFrame:
    header: Node
    breaks: list[tuple[Node, str]] = field(default_factory=list)
    try_depth: int = 0


Dangling = list[tuple[Node, str]]


class CFG:
    def __init__(
        self,
        func: ast.FunctionDef | ast.AsyncFunctionDef | ast.Module,
        all_raise: bool = False,
        assume: Optional[dict] = None,
    ):
        """``all_raise``: every statement containing a call/yield/await gets an implicit
        exception edge, not only statements inside a ``try`` (needed for rules about
        exceptional exits, e.g. generator-based context managers)."""
        self.func = func
        self.all_raise = all_raise
        # path-sensitivity in one predicate: `if <text>` tests listed here take only the given branch
        # (the caller guarantees the test is pure and its operands are never re-bound in the function)
        self.assume = dict(assume or {})
        self.nodes: list[Node] = []
        self.succ: dict[Node, list[tuple[Node, str, str]]] = {}  # (dst, kind, label)
        self.pred: dict[Node, list[tuple[Node, str, str]]] = {}
        self.by_ast: dict[int, list[Node]] = {}
        self.entry = self._new("entry")
        self.exit_return = self._new("return_exit")
        self.exit_raise = self._new("raise_exit")
        self._tries: list[_TryFrame] = []
        self._loops: list[_LoopFrame] = []
        out = self._seq(func.body, [(self.entry, "")])
        self._connect(out, self.exit_return)

    # ---------------------------------------------------------------- construction
    def _new(self, kind: str, node: Optional[ast.AST] = None, label: str = "") -> Node:
        n = Node(len(self.nodes), kind, node, label)
        self.nodes.append(n)
        self.succ[n] = []
        self.pred[n] = []
        if node is not None:
            self.by_ast.setdefault(id(node), []).append(n)
        return n

    def _edge(self, a: Node, b: Node, kind: str = "n", label: str = "") -> None:
        for d, k, _l in self.succ[a]:
            if d is b and k == kind:
                return
        self.succ[a].append((b, kind, label))
        self.pred[b].append((a, kind, label))

    def _connect(self, dangling: Dangling, target: Node) -> None:
        for n, lab in dangling:
            self._edge(n, target, "n", lab)

    def _implicit_exc(self, n: Node) -> None:
        """Add 'x' edges from a node to where an exception raised there would go."""
        self._route_exception(n, kind="x")

    def _route_exception(self, n: Node, kind: str) -> None:
        # walk try frames from innermost outward
        dang: Dangling = [(n, "exc")]
        for depth in range(len(self._tries) - 1, -1, -1):
            fr = self._tries[depth]
            if fr.in_body and fr.handlers:
                for h in fr.handlers:
                    for src, _ in dang:
                        self._edge(src, h, kind, "exc")
                if fr.catch_all:
                    return
            if fr.finalbody:
                if fr.fin_exc_entry is None:
                    # build the exceptional copy lazily, in the context *outside* this try
                    saved = self._tries
                    self._tries = self._tries[:depth]
                    entry = self._new("join", None, "finally(exc)")
                    out = self._seq(fr.finalbody, [(entry, "")])
                    fr.fin_exc_entry = entry
                    for src, _ in out:
                        self._route_exception(src, "n")
                    self._tries = saved
                for src, _ in dang:
                    self._edge(src, fr.fin_exc_entry, kind, "exc")
                return
        for src, _ in dang:
            self._edge(src, self.exit_raise, kind, "exc")

    def _through_finally(self, dang: Dangling, down_to: int) -> Dangling:
        """Route a jump (return/break/continue) through enclosing finally bodies."""
        for depth in range(len(self._tries) - 1, down_to - 1, -1):
            fr = self._tries[depth]
            if fr.finalbody:
                saved = self._tries
                self._tries = self._tries[:depth]
                dang = self._seq(fr.finalbody, dang)
                self._tries = saved
        return dang

    def _seq(self, stmts: Iterable[ast.stmt], preds: Dangling) -> Dangling:
        for st in stmts:
            if not preds:
                # unreachable code: still build it (rules may look for it) but detached
                pass
            preds = self._stmt(st, preds)
        return preds

    def _simple(self, st: ast.AST, preds: Dangling, kind: str = "stmt") -> Node:
        n = self._new(kind, st)
        self._connect(preds, n)
        if self._tries:
            self._implicit_exc(n)
        elif self.all_raise and _may_raise(st):
            self._implicit_exc(n)
        return n

    def _stmt(self, st: ast.stmt, preds: Dangling) -> Dangling:
        if isinstance(st, ast.If) and self.assume:
            from .index import norm as _norm

            known = self.assume.get(_norm(st.test))
            if known is not None:
                t = self._simple(st, preds, "test")
                if known:
                    return self._seq(st.body, [(t, "T")])
                return self._seq(st.orelse, [(t, "F")]) if st.orelse else [(t, "F")]
        if isinstance(st, ast.If):
            t = self._simple(st, preds, "test")
            out = self._seq(st.body, [(t, "T")])
            if st.orelse:
                out = out + self._seq(st.orelse, [(t, "F")])
            else:
                out = out + [(t, "F")]
            return out
        if isinstance(st, (ast.For, ast.AsyncFor, ast.While)):
            kind = "while" if isinstance(st, ast.While) else "for"
            h = self._simple(st, preds, kind)
            fr = _LoopFrame(h, try_depth=len(self._tries))
            self._loops.append(fr)
            body_out = self._seq(st.body, [(h, "body")])
            self._loops.pop()
            for n, lab in body_out:
                self._edge(n, h, "n", lab or "back")
            infinite = (
                isinstance(st, ast.While)
                and isinstance(st.test, ast.Constant)
                and bool(st.test.value)
            )
            out: Dangling = [] if infinite else [(h, "exit")]
            if st.orelse:
                out = self._seq(st.orelse, out)
            return out + fr.breaks
        if isinstance(st, (ast.With, ast.AsyncWith)):
            w = self._simple(st, preds, "with")
            return self._seq(st.body, [(w, "")])
        if isinstance(st, (ast.Try, getattr(ast, "TryStar", ast.Try))):
            return self._try(st, preds)
        if isinstance(st, ast.Match):
            m = self._simple(st, preds, "match")
            out: Dangling = []
            prev: Dangling = [(m, "")]
            wildcard = False
            for case in st.cases:
                c = self._new("case", case)
                self._connect(prev, c)
                out += self._seq(case.body, [(c, "T")])
                prev = [(c, "F")]
                if (
                    isinstance(case.pattern, ast.MatchAs)
                    and case.pattern.pattern is None
                    and case.guard is None
                ):
                    wildcard = True
                    prev = []
                    break
            return out + prev
        if isinstance(st, ast.Return):
            n = self._simple(st, preds)
            dang = self._through_finally([(n, "return")], 0)
            self._connect(dang, self.exit_return)
            return []
        if isinstance(st, ast.Raise):
            n = self._new("stmt", st)
            self._connect(preds, n)
            self._route_exception(n, "n")
            return []
        if isinstance(st, ast.Break):
            n = self._simple(st, preds)
            if not self._loops:
                raise AnalysisError("break outside loop")
            fr = self._loops[-1]
            fr.breaks += self._through_finally([(n, "break")], fr.try_depth)
            return []
        if isinstance(st, ast.Continue):
            n = self._simple(st, preds)
            fr = self._loops[-1]
            dang = self._through_finally([(n, "continue")], fr.try_depth)
            self._connect(dang, fr.header)
            return []
        if isinstance(st, (ast.FunctionDef, ast.AsyncFunctionDef, ast.ClassDef)):
            n = self._simple(st, preds, "stmt")
            return [(n, "")]
        # simple statement
        n = self._simple(st, preds)
        return [(n, "")]

    def _try(self, st: ast.Try, preds: Dangling) -> Dangling:
        handlers = [self._new("handler", h) for h in st.handlers]
        catch_all = any(_catches_all(h) for h in st.handlers)
        fr = _TryFrame(handlers, catch_all, list(st.finalbody))
        self._tries.append(fr)
        # an entry join so that "the try" has a node
        body_out = self._seq(st.body, preds)
        fr.in_body = False
        if st.orelse:
            body_out = self._seq(st.orelse, body_out)
        outs = list(body_out)
        for hn, h in zip(handlers, st.handlers):
            outs += self._seq(h.body, [(hn, "")])
        self._tries.pop()
        if st.finalbody:
            outs = self._seq(st.finalbody, outs)
        return outs

    # ---------------------------------------------------------------- lookup
    def nodes_of(self, st: ast.AST) -> list[Node]:
        """CFG nodes for a statement (several when inside a duplicated ``finally``)."""
        return list(self.by_ast.get(id(st), []))

    def node_of(self, st: ast.AST) -> Node:
        ns = self.nodes_of(st)
        if not ns:
            raise AnalysisError(f"statement not in CFG: {norm(st)[:80]}")
        return ns[0]

    def stmt_nodes(self) -> list[Node]:
        return [n for n in self.nodes if n.ast is not None]

    def find(self, pred: Callable[[Node], bool]) -> list[Node]:
        return [n for n in self.nodes if pred(n)]

    # ---------------------------------------------------------------- graph queries
    def _succs(self, n: Node, kinds: str) -> list[Node]:
        return [d for d, k, _ in self.succ[n] if k in kinds]

    def _preds(self, n: Node, kinds: str) -> list[Node]:
        return [s for s, k, _ in self.pred[n] if k in kinds]

    def reachable(
        self,
        start: Iterable[Node],
        kinds: str = "n",
        avoid: Iterable[Node] = (),
        backward: bool = False,
    ) -> set[Node]:
        avoid_s = set(avoid)
        seen: set[Node] = set()
        stack = [n for n in start if n not in avoid_s]
        while stack:
            n = stack.pop()
            if n in seen:
                continue
            seen.add(n)
            nxt = self._preds(n, kinds) if backward else self._succs(n, kinds)
            for m in nxt:
                if m not in avoid_s and m not in seen:
                    stack.append(m)
        return seen

    def live_nodes(self, kinds: str = "nx") -> set[Node]:
        return self.reachable([self.entry], kinds)

    def dominators(self, kinds: str = "n") -> dict[Node, set[Node]]:
        live = self.reachable([self.entry], kinds)
        dom = {n: set(live) for n in live}
        dom[self.entry] = {self.entry}
        changed = True
        order = [n for n in self.nodes if n in live]
        while changed:
            changed = False
            for n in order:
                if n is self.entry:
                    continue
                ps = [p for p in self._preds(n, kinds) if p in live]
                if not ps:
                    new = {n}
                else:
                    new = set.intersection(*(dom[p] for p in ps)) | {n}
                if new != dom[n]:
                    dom[n] = new
                    changed = True
        return dom

    def postdominators(
        self, exits: Optional[Iterable[Node]] = None, kinds: str = "n"
    ) -> dict[Node, set[Node]]:
        exits_l = list(exits) if exits is not None else [self.exit_return]
        live = self.reachable(exits_l, kinds, backward=True)
        pdom = {n: set(live) for n in live}
        for e in exits_l:
            pdom[e] = {e}
        changed = True
        order = [n for n in reversed(self.nodes) if n in live]
        while changed:
            changed = False
            for n in order:
                if n in exits_l:
                    continue
                ss = [s for s in self._succs(n, kinds) if s in live]
                if not ss:
                    new = {n}
                else:
                    new = set.intersection(*(pdom[s] for s in ss)) | {n}
                if new != pdom[n]:
                    pdom[n] = new
                    changed = True
        return pdom

    def all_paths_pass(
        self,
        src: Node,
        dst: Iterable[Node],
        through: Iterable[Node],
        kinds: str = "n",
    ) -> bool:
        """True iff every path src -> any(dst) contains a node of ``through``.

        (src and dst themselves count when they are in ``through``.)
        """
        thr = set(through)
        if src in thr:
            return True
        reach = self.reachable([src], kinds, avoid=thr)
        return not any(d in reach for d in dst)

    def must_precede(self, a_nodes: Iterable[Node], b: Node, kinds: str = "n") -> bool:
        """Every path entry -> b passes through one of a_nodes."""
        return self.all_paths_pass(self.entry, [b], a_nodes, kinds)

    def must_follow(
        self,
        a: Node,
        b_nodes: Iterable[Node],
        kinds: str = "n",
        exits: Optional[Iterable[Node]] = None,
    ) -> bool:
        """Every path a -> normal exit passes through one of b_nodes (after a)."""
        ex = list(exits) if exits is not None else [self.exit_return]
        thr = set(b_nodes)
        reach: set[Node] = set()
        stack = [s for s in self._succs(a, kinds)]
        while stack:
            n = stack.pop()
            if n in reach or n in thr:
                continue
            reach.add(n)
            stack.extend(self._succs(n, kinds))
        return not any(e in reach for e in ex)

    # ---------------------------------------------------------------- loop helpers
    def loop_body_nodes(self, header: Node, kinds: str = "n") -> set[Node]:
        """Nodes on some cycle through ``header`` entered by its 'body' edge."""
        body_succ = [d for d, k, lab in self.succ[header] if k in kinds and lab == "body"]
        fwd = self.reachable(body_succ, kinds, avoid=[header])
        bwd = self.reachable(
            [s for s in self._preds(header, kinds)], kinds, avoid=[header], backward=True
        )
        return fwd & bwd

    def count_events_per_iteration(
        self, header: Node, events: Iterable[Node], kinds: str = "n"
    ) -> tuple[float, float]:
        """(min, max) number of event nodes on a normal path through one iteration.

        One iteration = body entry ... back-edge to the header (paths leaving the loop by
        break/return/raise are ignored).  Inner loops containing an event give max = inf.
        """
        body = self.loop_body_nodes(header, kinds)
        ev = set(events) & body
        starts = [d for d, k, lab in self.succ[header] if k in kinds and lab == "body"]
        return self._count_dag(body, starts, {header}, ev, kinds)

    def count_events(
        self,
        start: Node,
        ends: Iterable[Node],
        events: Iterable[Node],
        kinds: str = "n",
    ) -> tuple[float, float]:
        """(min, max) events on paths start -> ends over the whole graph."""
        region = self.reachable([start], kinds) & self.reachable(
            list(ends), kinds, backward=True
        )
        return self._count_dag(
            region | set(ends), [start], set(ends), set(events), kinds
        )

    def _count_dag(self, region, starts, ends, events, kinds):
        INF = float("inf")
        region = set(region) | set(ends)
        # Tarjan-free approach: detect cycles inside region (excluding `ends`)
        inner = region - set(ends)
        # nodes on a cycle within inner
        on_cycle: set[Node] = set()
        for n in inner:
            r = self.reachable(
                [s for s in self._succs(n, kinds) if s in inner],
                kinds,
                avoid=set(self.nodes) - inner,
            )
            if n in r:
                on_cycle.add(n)
        if on_cycle & events:
            many = True
        else:
            many = False
        # remove back edges (DFS from the starts) -> DAG, then dynamic programming
        back: set[tuple[int, int]] = set()
        color: dict[Node, int] = {}

        def dfs(root: Node) -> None:
            stack = [(root, iter(self._succs(root, kinds)))]
            color[root] = 1
            while stack:
                n, it = stack[-1]
                adv = False
                for s in it:
                    if s not in region or n in ends:
                        continue
                    c = color.get(s, 0)
                    if c == 1:
                        back.add((n.id, s.id))
                    elif c == 0:
                        color[s] = 1
                        stack.append((s, iter(self._succs(s, kinds))))
                        adv = True
                        break
                if not adv:
                    color[n] = 2
                    stack.pop()

        for s in starts:
            if s in region and color.get(s, 0) == 0:
                dfs(s)
        memo: dict[Node, tuple[float, float] | None] = {}

        def rec(n: Node):
            if n in ends:
                return (0, 0)
            if n in memo:
                return memo[n]
            best_min, best_max = INF, -1
            for s in self._succs(n, kinds):
                if s not in region or (n.id, s.id) in back:
                    continue
                r = rec(s)
                if r is None:
                    continue
                best_min = min(best_min, r[0])
                best_max = max(best_max, r[1])
            if best_max < 0:
                res = None
            else:
                e = 1 if n in events else 0
                res = (best_min + e, best_max + e)
            memo[n] = res
            return res

        lo, hi = INF, -1
        for s in starts:
            if s not in region:
                continue
            r = rec(s)
            if r is None:
                continue
            lo, hi = min(lo, r[0]), max(hi, r[1])
        if hi < 0:
            return (0, 0)
        if many:
            hi = INF
        return (lo, hi)


def _may_raise(st: ast.AST) -> bool:
    if isinstance(st, (ast.If, ast.While)):
        probe: list[ast.AST] = [st.test]
    elif isinstance(st, (ast.For, ast.AsyncFor)):
        probe = [st.iter]
    elif isinstance(st, (ast.With, ast.AsyncWith)):
        probe = [i.context_expr for i in st.items]
    elif isinstance(st, (ast.FunctionDef, ast.AsyncFunctionDef, ast.ClassDef, ast.Try, ast.Match)):
        return False
    else:
        probe = [st]
    for p in probe:
        for n in ast.walk(p):
            if isinstance(n, (ast.Call, ast.Yield, ast.YieldFrom, ast.Await, ast.Subscript, ast.Attribute, ast.BinOp)):
                return True
    return False


def _catches_all(h: ast.ExceptHandler) -> bool:
    if h.type is None:
        return True
    names = []
    if isinstance(h.type, ast.Tuple):
        names = [norm(e) for e in h.type.elts]
    else:
        names = [norm(h.type)]
    return any(n in ("Exception", "BaseException") for n in names)


def handler_catches_all(h: ast.ExceptHandler) -> bool:
    return _catches_all(h)


def ends_in_raise(stmts: list[ast.stmt]) -> bool:
    """Every path through the statement list ends in ``raise`` (syntactic)."""
    if not stmts:
        return False
    last = stmts[-1]
    if isinstance(last, ast.Raise):
        return True
    if isinstance(last, ast.If):
        return (
            bool(last.orelse) and ends_in_raise(last.body) and ends_in_raise(last.orelse)
        )
    if isinstance(last, (ast.With,)):
        return ends_in_raise(last.body)
    if isinstance(last, ast.Try):
        ok = ends_in_raise(last.finalbody) or (
            ends_in_raise(last.body if not last.orelse else last.orelse)
            and all(ends_in_raise(h.body) for h in last.handlers)
        )
        return ok
    return False


def node_defines(n: Node, name: str) -> bool:
    """Does executing CFG node ``n`` (re)bind local variable ``name``?"""
    st = n.ast
    if st is None:
        return False
    if n.kind == "for" and isinstance(st, (ast.For, ast.AsyncFor)):
        return any(isinstance(t, ast.Name) and t.id == name for t in ast.walk(st.target))
    if n.kind == "with" and isinstance(st, (ast.With, ast.AsyncWith)):
        return any(
            i.optional_vars is not None
            and any(isinstance(t, ast.Name) and t.id == name for t in ast.walk(i.optional_vars))
            for i in st.items
        )
    if n.kind == "handler" and isinstance(st, ast.ExceptHandler):
        return st.name == name
    if n.kind in ("test", "while", "match", "case"):
        probe = [getattr(st, "test", None) or getattr(st, "subject", None)]
    else:
        probe = [st]
    for p in probe:
        if p is None:
            continue
        if isinstance(p, (ast.Assign, ast.AnnAssign, ast.AugAssign)):
            tg = p.targets if isinstance(p, ast.Assign) else [p.target]
            if isinstance(p, ast.AnnAssign) and p.value is None:
                tg = []
            for t in tg:
                for x in ast.walk(t):
                    if isinstance(x, ast.Name) and isinstance(x.ctx, ast.Store) and x.id == name:
                        return True
        if isinstance(p, (ast.Import, ast.ImportFrom)):
            if any((a.asname or a.name.split(".")[0]) == name for a in p.names):
                return True
        if isinstance(p, (ast.FunctionDef, ast.ClassDef)) and p.name == name:
            return True
        for x in ast.walk(p):
            if isinstance(x, ast.NamedExpr) and isinstance(x.target, ast.Name) and x.target.id == name:
                return True
    return False


def defs_reaching(cfg: CFG, name: str, at: Node, kinds: str = "n") -> list:
    """CFG nodes defining ``name`` that reach ``at`` (cfg.entry stands for 'parameter /
    not yet assigned')."""
    out = []
    seen = set()
    stack = [p for p in cfg._preds(at, kinds)]
    while stack:
        n = stack.pop()
        if n in seen:
            continue
        seen.add(n)
        if n is cfg.entry:
            out.append(n)
            continue
        if node_defines(n, name):
            out.append(n)
            continue
        stack.extend(cfg._preds(n, kinds))
    return out
