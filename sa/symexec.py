"""Straight-line symbolic evaluation of small numeric functions into the polynomial domain.

Only what the rule modules need: assignments, augmented assignments (+=, -=, *=, /=),
tuple unpacking of tuples, calls of repository helpers (inlined, bounded depth), a small table
of numpy functions with algebraic meaning (np.square, np.power(x, n)), shape-only wrappers as
identity.  Everything else becomes an opaque symbol whose name contains the normal form of its
arguments, so that two syntactically different but algebraically equal arguments still
produce the same symbol.  Branches are not merged: a function whose result depends on an
``if`` is evaluated per branch only when the caller selects the branch.
"""

from __future__ import annotations

import ast
from fractions import Fraction
from typing import Callable, Optional

from .index import FuncInfo, dotted, norm
from .poly import Poly

IDENTITY_FUNCS = {
    "float",
    "int",
    "np.asarray",
    "np.array",
    "np.float64",
    "np.asanyarray",
    "np.copy",
    "np.ascontiguousarray",
}
IDENTITY_METHODS = {"copy", "astype", "view"}


class SymExec:
    def __init__(self, ctx, max_depth: int = 3):
        self.ctx = ctx
        self.max_depth = max_depth

    # ---------------------------------------------------------------- expressions
    def expr(self, f: FuncInfo, e: ast.expr, env: dict[str, Poly], depth: int = 0) -> Poly:
        if isinstance(e, ast.Constant) and isinstance(e.value, (int, float)) and not isinstance(e.value, bool):
            return Poly.const(Fraction(str(e.value)) if isinstance(e.value, float) else e.value)
        if isinstance(e, ast.Name):
            if e.id in env:
                return env[e.id]
            return Poly.sym(e.id)
        if isinstance(e, ast.UnaryOp) and isinstance(e.op, ast.USub):
            return -self.expr(f, e.operand, env, depth)
        if isinstance(e, ast.UnaryOp) and isinstance(e.op, ast.UAdd):
            return self.expr(f, e.operand, env, depth)
        if isinstance(e, ast.BinOp):
            l = self.expr(f, e.left, env, depth)
            r = self.expr(f, e.right, env, depth)
            if isinstance(e.op, ast.Add):
                return l + r
            if isinstance(e.op, ast.Sub):
                return l - r
            if isinstance(e.op, ast.Mult):
                return l * r
            if isinstance(e.op, ast.Div):
                inv = r.inverse()
                if inv is not None:
                    return l * inv
                return l * Poly({((f"<1/({r!r})>", 1),): Fraction(1)})
            if isinstance(e.op, ast.Pow) and r.const_value() is not None and r.const_value().denominator == 1 and 0 <= r.const_value() <= 8:
                return l.pow(int(r.const_value()))
            return Poly.sym(f"<{type(e.op).__name__}({l!r},{r!r})>")
        if isinstance(e, ast.Call):
            fn = dotted(e.func) or ""
            args = [self.expr(f, a, env, depth) for a in e.args if not isinstance(a, ast.Starred)]
            if fn in IDENTITY_FUNCS and args:
                return args[0]
            if isinstance(e.func, ast.Attribute) and e.func.attr in IDENTITY_METHODS:
                return self.expr(f, e.func.value, env, depth)
            if fn in ("np.square", "numpy.square") and args:
                return args[0] * args[0]
            if fn in ("np.power", "numpy.power") and len(args) == 2 and args[1].const_value() is not None and args[1].const_value().denominator == 1 and 0 <= args[1].const_value() <= 8:
                return args[0].pow(int(args[1].const_value()))
            if fn in ("np.multiply", "numpy.multiply") and len(args) == 2:
                return args[0] * args[1]
            if fn in ("np.subtract", "numpy.subtract") and len(args) == 2:
                return args[0] - args[1]
            if fn in ("np.add", "numpy.add") and len(args) == 2:
                return args[0] + args[1]
            # repository helper: inline
            if depth < self.max_depth:
                for cal in self.ctx.R.resolve_call(f, e):
                    if isinstance(cal, FuncInfo):
                        bind: dict[str, Poly] = {}
                        params = cal.params
                        for p, a in zip(params, args):
                            bind[p] = a
                        for k in e.keywords:
                            if k.arg:
                                bind[k.arg] = self.expr(f, k.value, env, depth)
                        r = self.function(cal, bind, depth + 1)
                        if r is not None:
                            return r
            kws = ",".join(f"{k.arg}={self.expr(f, k.value, env, depth)!r}" for k in e.keywords if k.arg)
            base = fn or norm(e.func)
            if isinstance(e.func, ast.Attribute) and not fn.startswith(("np.", "numpy.", "math.")):
                recv = self.expr(f, e.func.value, env, depth)
                base = f"({recv!r}).{e.func.attr}"
            return Poly.sym(f"<{base}({','.join(repr(a) for a in args)}{';' + kws if kws else ''})>")
        if isinstance(e, ast.Attribute):
            d = dotted(e)
            if d:
                root = d.split(".")[0]
                if root in env:
                    return Poly.sym(f"<({env[root]!r}).{d.split('.', 1)[1]}>")
                return Poly.sym(d)
        if isinstance(e, ast.Subscript):
            key = norm(e)
            if key in env:
                return env[key]
            base = self.expr(f, e.value, env, depth)
            return Poly.sym(f"<({base!r})[{norm(e.slice)}]>")
        return Poly.sym("<" + norm(e) + ">")

    # ---------------------------------------------------------------- statements
    def run(self, f: FuncInfo, stmts, env: dict[str, Poly], depth: int = 0, select=None) -> Optional[Poly]:
        """Execute statements; returns the poly of the first `return` met (or None)."""
        for st in stmts:
            if isinstance(st, ast.Expr):
                continue
            if isinstance(st, (ast.Assign, ast.AnnAssign)):
                if isinstance(st, ast.AnnAssign) and st.value is None:
                    continue
                tg = st.targets if isinstance(st, ast.Assign) else [st.target]
                for t in tg:
                    if isinstance(t, ast.Name):
                        env[t.id] = self.expr(f, st.value, env, depth)
                    elif isinstance(t, ast.Subscript):
                        env[norm(t)] = self.expr(f, st.value, env, depth)
                    elif isinstance(t, (ast.Tuple, ast.List)) and isinstance(st.value, (ast.Tuple, ast.List)) and len(t.elts) == len(st.value.elts):
                        vals = [self.expr(f, v, env, depth) for v in st.value.elts]
                        for x, v in zip(t.elts, vals):
                            if isinstance(x, ast.Name):
                                env[x.id] = v
                    elif isinstance(t, (ast.Tuple, ast.List)):
                        base = self.expr(f, st.value, env, depth)
                        for i, x in enumerate(t.elts):
                            if isinstance(x, ast.Name):
                                env[x.id] = Poly.sym(f"<({base!r})[{i}]>")
                continue
            if isinstance(st, ast.AugAssign) and isinstance(st.target, (ast.Name, ast.Subscript, ast.Attribute)):
                key = st.target.id if isinstance(st.target, ast.Name) else norm(st.target)
                cur = env.get(key, self.expr(f, st.target, env, depth) if not isinstance(st.target, ast.Name) else Poly.sym(key))
                v = self.expr(f, st.value, env, depth)
                if isinstance(st.op, ast.Add):
                    env[key] = cur + v
                elif isinstance(st.op, ast.Sub):
                    env[key] = cur - v
                elif isinstance(st.op, ast.Mult):
                    env[key] = cur * v
                elif isinstance(st.op, ast.Div):
                    inv = v.inverse()
                    env[key] = cur * inv if inv is not None else cur * Poly.sym(f"<1/({v!r})>")
                else:
                    env[key] = Poly.sym(f"<{key} {type(st.op).__name__} {v!r}>")
                continue
            if isinstance(st, ast.Return):
                if st.value is None:
                    return None
                return self.expr(f, st.value, env, depth)
            if isinstance(st, ast.If) and select is not None:
                branch = select(st)
                if branch is True:
                    r = self.run(f, st.body, env, depth, select)
                elif branch is False:
                    r = self.run(f, st.orelse, env, depth, select)
                else:
                    return None
                if r is not None:
                    return r
                continue
            if isinstance(st, (ast.Import, ast.ImportFrom, ast.Pass, ast.Assert)):
                continue
            if isinstance(st, ast.With):
                r = self.run(f, st.body, env, depth, select)
                if r is not None:
                    return r
                continue
            # unsupported statement (loop / unselected branch / try): give up
            return None
        return None

    def function(self, f: FuncInfo, bind: dict[str, Poly], depth: int = 0, select=None) -> Optional[Poly]:
        env = {p: Poly.sym(p) for p in f.params}
        env.update(bind)
        return self.run(f, f.node.body, env, depth, select)
