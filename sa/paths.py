"""Path-sensitive symbolic evaluation of statement lists (substitution semantics).

``enumerate_paths(stmts, env)`` walks a statement list along every branch combination and
returns one ``Path`` per way through it.  Values are kept as *expressions over the inputs*:
every local that is assigned is replaced, in later expressions, by what it was assigned
(tuple unpacking is split component-wise), so that two pieces of code that differ in the names
and number of intermediates, in the use of ``+=`` / ``extend`` / ``append``, in ``if``/``elif``
chains against guard clauses, or in statements moved to a (previously inlined) helper produce
the same ``conds`` / ``effects`` / final ``env`` texts.

What a path records
    conds    [(test expression after substitution, polarity)]  in evaluation order
    env      name -> expression (locals assigned on the path)
    effects  ordered list of Effect(kind, target, value, node):
               kind "store"  target = text of an attribute / subscript target,  value = expr
               kind "extend" target = container name, value = expr of the iterable appended
                             (x += E, x.extend(E), x.append(e) -> [e])
               kind "call"   an expression statement call (after substitution)
    exit     "fall" | "return" | "raise" | "continue" | "break",  value = returned / raised expr

Limits (documented, enforced): loops met inside the list are not unrolled - the names they assign
become unknown (``UNKNOWN(name)``) and a "loop" effect is recorded; ``try`` bodies are followed
on their no-exception path only, handlers start from the state before the ``try`` with the names
assigned in the body made unknown; at most ``max_paths`` paths (AnalysisError beyond that).
Infeasible paths are pruned only when the SAME test text is taken with both polarities.
"""

from __future__ import annotations

import ast
from dataclasses import dataclass, field
from typing import Optional

from .astutil import clone
from .index import AnalysisError, norm


def canon_test(t: ast.expr, pol: bool) -> tuple[ast.expr, bool]:
    """One representation for a decision and its negation: ``not X`` -> (X, flipped);
    ``a is not b`` / ``a != b`` / ``a not in b`` -> (``a is b`` / ``a == b`` / ``a in b``, flipped)."""
    while True:
        if isinstance(t, ast.UnaryOp) and isinstance(t.op, ast.Not):
            t, pol = t.operand, not pol
        elif isinstance(t, ast.Call) and isinstance(t.func, ast.Name) and t.func.id == "bool" and len(t.args) == 1 and not t.keywords:
            t = t.args[0]  # a test of bool(X) is a test of X
        else:
            break
    if isinstance(t, ast.Compare) and len(t.ops) == 1:
        flip = {ast.IsNot: ast.Is, ast.NotEq: ast.Eq, ast.NotIn: ast.In}.get(type(t.ops[0]))
        if flip is not None:
            t = ast.copy_location(ast.Compare(left=t.left, ops=[flip()], comparators=t.comparators), t)
            pol = not pol
    return t, pol


@dataclass
class Effect:
    kind: str
    target: str
    value: Optional[ast.expr]
    node: ast.AST

    def __repr__(self) -> str:
        return f"{self.kind}:{self.target}<-{norm(self.value) if self.value is not None else ''}"


@dataclass
class Path:
    conds: list[tuple[ast.expr, bool]] = field(default_factory=list)
    env: dict[str, ast.expr] = field(default_factory=dict)
    effects: list[Effect] = field(default_factory=list)
    exit: str = "fall"
    value: Optional[ast.expr] = None
    exit_node: Optional[ast.AST] = None
    calls: list = field(default_factory=list)  # every call evaluated on the path: (func text, Call after substitution, statement)

    def note_calls(self, e: Optional[ast.expr], node: ast.AST) -> None:
        if e is None:
            return
        for c in ast.walk(e):
            if isinstance(c, ast.Call):
                self.calls.append((norm(c.func), c, node))

    def called(self, suffix: str) -> list:
        """Calls of ``suffix`` evaluated on the path, one entry per call site of the source (a call
        whose value was substituted into later expressions is still ONE evaluation)."""
        out, seen = [], set()
        for c in self.calls:
            if c[0] == suffix or c[0].endswith("." + suffix):
                key = id(getattr(c[1], "_src", c[1]))
                if key not in seen:
                    seen.add(key)
                    out.append(c)
        return out

    def add_cond(self, t: ast.expr, pol: bool) -> None:
        """Record a decision and the facts it implies: a false ``a or b`` makes both false, a true
        ``a and b`` makes both true, a chained comparison that is true makes each link true."""
        t, pol = canon_test(t, pol)
        self.conds.append((t, pol))
        if isinstance(t, ast.BoolOp) and ((isinstance(t.op, ast.Or) and not pol) or (isinstance(t.op, ast.And) and pol)):
            for v in t.values:
                self.add_cond(v, pol)
        if isinstance(t, ast.Compare) and len(t.ops) > 1 and pol:
            left = t.left
            for op, c in zip(t.ops, t.comparators):
                self.add_cond(ast.copy_location(ast.Compare(left=left, ops=[op], comparators=[c]), t), True)
                left = c

    def copy(self) -> "Path":
        return Path(list(self.conds), dict(self.env), list(self.effects), self.exit, self.value, self.exit_node, list(self.calls))

    def cond_texts(self) -> list[tuple[str, bool]]:
        return [(norm(t), p) for t, p in self.conds]

    def holds(self, text: str) -> Optional[bool]:
        """Polarity with which the test ``text`` was taken on this path (None = not tested)."""
        for t, p in self.conds:
            if norm(t) == text:
                return p
        return None

    def implied_literals(self, max_atoms: int = 10) -> set[tuple[str, bool]]:
        """(atom text, truth) for every atomic test whose truth follows from ALL decisions of this path
        together - a finite truth table over the atoms of the path's tests (and / or / not structure kept,
        atoms in canonical polarity).  After `if A and B: raise` `elif A and not B: raise` `elif not A and B:
        raise` the fall-through path implies (A, False) and (B, False) although no single test says so."""
        import itertools

        atoms: list[str] = []

        def build(t, pol):
            while isinstance(t, ast.UnaryOp) and isinstance(t.op, ast.Not):
                t, pol = t.operand, not pol
            if isinstance(t, ast.BoolOp):
                subs = [build(v, True) for v in t.values]
                node = ("and" if isinstance(t.op, ast.And) else "or", subs)
                return node if pol else ("not", [node])
            ct, cp = canon_test(t, True)
            txt = norm(ct)
            if txt not in atoms:
                atoms.append(txt)
            lit = ("atom", txt)
            return lit if (cp == pol) else ("not", [lit])

        forms = [build(t, p) for t, p in self.conds]
        if not atoms or len(atoms) > max_atoms:
            return set()

        def ev(f, asg):
            k, a = f
            if k == "atom":
                return asg[a]
            if k == "not":
                return not ev(a[0], asg)
            if k == "and":
                return all(ev(x, asg) for x in a)
            return any(ev(x, asg) for x in a)

        sat = []
        for bits in itertools.product((False, True), repeat=len(atoms)):
            asg = dict(zip(atoms, bits))
            if all(ev(f, asg) for f in forms):
                sat.append(asg)
        out = set()
        if not sat:
            return out
        for a in atoms:
            vals = {asg[a] for asg in sat}
            if len(vals) == 1:
                out.add((a, vals.pop()))
        return out

    def extends(self, name: str) -> list[ast.expr]:
        return [e.value for e in self.effects if e.kind == "extend" and e.target == name]

    def stores(self, prefix: str = "") -> list[Effect]:
        return [e for e in self.effects if e.kind == "store" and e.target.startswith(prefix)]


class _Subst(ast.NodeTransformer):
    def __init__(self, env: dict[str, ast.expr]):
        self.env = env
        self.bound: list[set[str]] = []

    def _comp(self, n):
        names = {x.id for g in n.generators for x in ast.walk(g.target) if isinstance(x, ast.Name)}
        # the iterable of the first generator is evaluated outside the comprehension scope
        self.bound.append(names)
        self.generic_visit(n)
        self.bound.pop()
        return n

    visit_ListComp = visit_SetComp = visit_GeneratorExp = visit_DictComp = _comp

    def visit_Lambda(self, n: ast.Lambda):
        a = n.args
        names = {x.arg for x in a.posonlyargs + a.args + a.kwonlyargs}
        self.bound.append(names)
        self.generic_visit(n)
        self.bound.pop()
        return n

    def visit_Name(self, n: ast.Name):
        if isinstance(n.ctx, ast.Load) and n.id in self.env and not any(n.id in b for b in self.bound):
            return clone(self.env[n.id])
        return n

    def visit_Call(self, n: ast.Call):
        n = self.generic_visit(n)
        # getattr(obj, "name") with a constant name IS obj.name
        if isinstance(n.func, ast.Name) and n.func.id == "getattr" and len(n.args) == 2 and not n.keywords and isinstance(n.args[1], ast.Constant) and isinstance(n.args[1].value, str) and n.args[1].value.isidentifier():
            return ast.copy_location(ast.Attribute(value=n.args[0], attr=n.args[1].value, ctx=ast.Load()), n)
        return n

    def visit_JoinedStr(self, n: ast.JoinedStr):
        n = self.generic_visit(n)
        # an f-string whose fields became constants is a constant
        parts = []
        for v in n.values:
            if isinstance(v, ast.Constant) and isinstance(v.value, str):
                parts.append(v.value)
            elif isinstance(v, ast.FormattedValue) and isinstance(v.value, ast.Constant) and isinstance(v.value.value, (str, int)) and v.conversion == -1 and v.format_spec is None:
                parts.append(str(v.value.value))
            else:
                return n
        return ast.copy_location(ast.Constant(value="".join(parts)), n)

    def visit_BinOp(self, n: ast.BinOp):
        n = self.generic_visit(n)
        if isinstance(n.op, ast.Add) and isinstance(n.left, ast.Constant) and isinstance(n.right, ast.Constant) and isinstance(n.left.value, str) and isinstance(n.right.value, str):
            return ast.copy_location(ast.Constant(value=n.left.value + n.right.value), n)
        return n

    def visit_Attribute(self, n: ast.Attribute):
        key = norm(n)
        if isinstance(n.ctx, ast.Load) and key in self.env:
            return clone(self.env[key])
        return self.generic_visit(n)

    def visit_Subscript(self, n: ast.Subscript):
        if isinstance(n.ctx, ast.Load):
            key = norm(n)
            if key in self.env:
                return clone(self.env[key])
        n = self.generic_visit(n)
        # (a, b)[0] -> a
        if isinstance(n.value, (ast.Tuple, ast.List)) and isinstance(n.slice, ast.Constant) and isinstance(n.slice.value, int) and not any(isinstance(e, ast.Starred) for e in n.value.elts) and -len(n.value.elts) <= n.slice.value < len(n.value.elts):
            return n.value.elts[n.slice.value]
        return n


def subst(e: ast.expr, env: dict[str, ast.expr]) -> ast.expr:
    return _Subst(env).visit(clone(e))


def fold_constants(t: ast.expr) -> ast.expr:
    """Comparisons between constants and and/or/not over decided operands are replaced by their value."""

    class F(ast.NodeTransformer):
        def visit_Compare(self, n: ast.Compare):
            n = self.generic_visit(n)
            if len(n.ops) == 1 and isinstance(n.left, ast.Constant) and isinstance(n.comparators[0], ast.Constant):
                a, b, op = n.left.value, n.comparators[0].value, n.ops[0]
                try:
                    v = {ast.Eq: a == b, ast.NotEq: a != b, ast.Is: a is b or (a == b and type(a) is type(b)), ast.IsNot: not (a is b or (a == b and type(a) is type(b)))}.get(type(op))
                    if v is None and isinstance(op, (ast.Lt, ast.LtE, ast.Gt, ast.GtE)) and isinstance(a, (int, float)) and isinstance(b, (int, float)):
                        v = {ast.Lt: a < b, ast.LtE: a <= b, ast.Gt: a > b, ast.GtE: a >= b}[type(op)]
                except Exception:
                    v = None
                if v is not None:
                    return ast.copy_location(ast.Constant(value=bool(v)), n)
            if len(n.ops) == 1 and isinstance(n.ops[0], (ast.In, ast.NotIn)) and isinstance(n.left, ast.Constant) and isinstance(n.comparators[0], (ast.Tuple, ast.List, ast.Set)) and all(isinstance(e, ast.Constant) for e in n.comparators[0].elts):
                v = n.left.value in [e.value for e in n.comparators[0].elts]
                return ast.copy_location(ast.Constant(value=v if isinstance(n.ops[0], ast.In) else not v), n)
            return n

        def visit_UnaryOp(self, n: ast.UnaryOp):
            n = self.generic_visit(n)
            if isinstance(n.op, ast.Not) and isinstance(n.operand, ast.Constant) and isinstance(n.operand.value, bool):
                return ast.copy_location(ast.Constant(value=not n.operand.value), n)
            return n

        def visit_BoolOp(self, n: ast.BoolOp):
            n = self.generic_visit(n)
            is_and = isinstance(n.op, ast.And)
            vals = []
            for v in n.values:
                if isinstance(v, ast.Constant) and isinstance(v.value, bool):
                    if v.value != is_and:  # False in and / True in or decides
                        return ast.copy_location(ast.Constant(value=v.value), n)
                    continue  # neutral element
                vals.append(v)
            if not vals:
                return ast.copy_location(ast.Constant(value=is_and), n)
            if len(vals) == 1:
                return vals[0]
            n.values = vals
            return n

    return F().visit(clone(t))


def _unknown(name: str) -> ast.expr:
    return ast.Call(func=ast.Name(id="UNKNOWN", ctx=ast.Load()), args=[ast.Constant(value=name)], keywords=[])


def _assigned(stmts) -> set[str]:
    out = set()
    for st in stmts:
        for n in ast.walk(st):
            if isinstance(n, ast.Name) and isinstance(n.ctx, ast.Store):
                out.add(n.id)
    return out


class Enumerator:
    def __init__(self, max_paths: int = 512, split_ifexp: bool = True, containers: Optional[set[str]] = None, nonnull=None):
        self.max_paths = max_paths
        self.split_ifexp = split_ifexp
        self.containers = containers  # names whose in-place growth is recorded (None = any local)
        self.nonnull = nonnull  # predicate: this expression can never be None (declared types)

    def _known(self, t: ast.expr) -> Optional[bool]:
        """Truth value of a test that is decided by what was substituted into it."""
        t = fold_constants(t)
        ct, pol = canon_test(t, True)
        if isinstance(ct, ast.Compare) and len(ct.ops) == 1 and isinstance(ct.ops[0], ast.Is) and isinstance(ct.comparators[0], ast.Constant) and ct.comparators[0].value is None:
            x = ct.left
            if isinstance(x, ast.Constant):
                return (x.value is None) == pol
            if isinstance(x, (ast.List, ast.Tuple, ast.Dict, ast.ListComp, ast.DictComp, ast.JoinedStr, ast.BinOp)):
                return (False) == pol
            if self.nonnull is not None and self.nonnull(x):
                return (False) == pol
        if isinstance(ct, ast.Constant) and isinstance(ct.value, bool):
            return ct.value == pol
        return None

    # -- assignment helpers
    def _bind(self, p: Path, target: ast.expr, value: ast.expr, node: ast.AST) -> None:
        if isinstance(target, ast.Name):
            p.env[target.id] = value
        elif isinstance(target, (ast.Tuple, ast.List)):
            if isinstance(value, (ast.Tuple, ast.List)) and len(value.elts) == len(target.elts) and not any(isinstance(e, ast.Starred) for e in list(target.elts) + list(value.elts)):
                for t, v in zip(target.elts, value.elts):
                    self._bind(p, t, v, node)
            else:
                for i, t in enumerate(target.elts):
                    if isinstance(t, ast.Starred):
                        self._bind(p, t.value, _unknown(norm(t.value)), node)
                    else:
                        self._bind(p, t, ast.Subscript(value=clone(value), slice=ast.Constant(value=i), ctx=ast.Load()), node)
        elif isinstance(target, (ast.Attribute, ast.Subscript)):
            tt = subst(target, p.env)
            key = norm(tt)
            p.effects.append(Effect("store", key, value, node))
            p.env[norm(target)] = value
            p.env[key] = value

    def _values(self, p: Path, e: ast.expr) -> list[tuple[Path, ast.expr]]:
        """Substituted value(s) of ``e``; a top-level conditional expression forks the path."""
        if self.split_ifexp and isinstance(e, ast.IfExp):
            out = []
            t = subst(e.test, p.env)
            for pol, arm in ((True, e.body), (False, e.orelse)):
                if self._contradicts(p, t, pol):
                    continue
                q = p.copy()
                q.add_cond(t, pol)
                out.extend(self._values(q, arm))
            return out
        v = subst(e, p.env)
        p.note_calls(v, e)
        return [(p, v)]

    @staticmethod
    def _contradicts(p: Path, t: ast.expr, pol: bool) -> bool:
        t, pol = canon_test(t, pol)
        txt = norm(t)
        return any(norm(c) == txt and cp != pol for c, cp in p.conds)

    # -- main
    def run(self, stmts: list[ast.stmt], start: Optional[Path] = None) -> list[Path]:
        paths = [start.copy() if start is not None else Path()]
        for st in stmts:
            nxt: list[Path] = []
            for p in paths:
                if p.exit != "fall":
                    nxt.append(p)
                    continue
                nxt.extend(self._stmt(p, st))
            paths = nxt
            if len(paths) > self.max_paths:
                raise AnalysisError(f"path enumeration exceeds {self.max_paths} paths")
        return paths

    def _stmt(self, p: Path, st: ast.stmt) -> list[Path]:
        if isinstance(st, (ast.Pass, ast.Import, ast.ImportFrom, ast.Global, ast.Nonlocal, ast.FunctionDef, ast.AsyncFunctionDef, ast.ClassDef)):
            return [p]
        if isinstance(st, ast.Assert):
            # what an assertion states holds on every path that continues
            p.add_cond(subst(st.test, p.env), True)
            return [p]
        if isinstance(st, ast.Expr):
            if isinstance(st.value, ast.Constant):
                return [p]
            out = []
            for q, v in self._values(p, st.value):
                self._expr_effect(q, v, st)
                out.append(q)
            return out
        if isinstance(st, ast.Assign):
            out = []
            for q, v in self._values(p, st.value):
                for t in st.targets:
                    self._bind(q, t, v, st)
                out.append(q)
            return out
        if isinstance(st, ast.AnnAssign):
            if st.value is None:
                return [p]
            out = []
            for q, v in self._values(p, st.value):
                self._bind(q, st.target, v, st)
                out.append(q)
            return out
        if isinstance(st, ast.AugAssign):
            out = []
            for q, v in self._values(p, st.value):
                if isinstance(st.target, ast.Name):
                    nm = st.target.id
                    if isinstance(st.op, ast.Add) and self._is_container(q, nm):
                        q.effects.append(Effect("extend", nm, v, st))
                    else:
                        cur = q.env.get(nm, ast.Name(id=nm, ctx=ast.Load()))
                        q.env[nm] = ast.BinOp(left=clone(cur), op=st.op, right=v)
                else:
                    tt = subst(st.target, q.env)
                    cur = q.env.get(norm(tt), tt)
                    nv = ast.BinOp(left=clone(cur), op=st.op, right=v)
                    q.effects.append(Effect("store", norm(tt), nv, st))
                    q.env[norm(tt)] = nv
                    q.env[norm(st.target)] = nv
                out.append(q)
            return out
        if isinstance(st, ast.Return):
            if st.value is None:
                p.exit, p.value, p.exit_node = "return", None, st
                return [p]
            out = []
            for q, v in self._values(p, st.value):
                q.exit, q.value, q.exit_node = "return", v, st
                out.append(q)
            return out
        if isinstance(st, ast.Raise):
            p.exit, p.value, p.exit_node = "raise", subst(st.exc, p.env) if st.exc is not None else None, st
            return [p]
        if isinstance(st, ast.Continue):
            p.exit, p.exit_node = "continue", st
            return [p]
        if isinstance(st, ast.Break):
            p.exit, p.exit_node = "break", st
            return [p]
        if isinstance(st, ast.If):
            t = fold_constants(subst(st.test, p.env))
            p.note_calls(t, st)
            out = []
            known = self._known(t)
            for pol, block in ((True, st.body), (False, st.orelse)):
                if known is not None:
                    if pol == known:
                        out.extend(self.run(block, p.copy()))
                    continue
                if self._contradicts(p, t, pol):
                    continue
                q = p.copy()
                q.add_cond(t, pol)
                out.extend(self.run(block, q))
            return out
        if isinstance(st, ast.With):
            for it in st.items:
                if it.optional_vars is not None:
                    self._bind(p, it.optional_vars, ast.Call(func=ast.Name(id="ENTER", ctx=ast.Load()), args=[subst(it.context_expr, p.env)], keywords=[]), st)
                else:
                    p.effects.append(Effect("call", "with", subst(it.context_expr, p.env), st))
            return self.run(st.body, p)
        if isinstance(st, ast.For) and not st.orelse:
            it = subst(st.iter, p.env)
            elts = None
            if isinstance(it, (ast.Tuple, ast.List)) and len(it.elts) <= 16 and not any(isinstance(e, ast.Starred) for e in it.elts):
                elts = list(it.elts)
            nested_loops = any(isinstance(n, (ast.For, ast.While)) for b in st.body for n in ast.walk(b))
            if elts is not None and not nested_loops:
                # a loop over a literal tuple / list is the sequence of its iterations; `continue` ends
                # one iteration, `break` the whole loop
                paths = [p]
                done: list[Path] = []
                for e in elts:
                    nxt = []
                    for q in paths:
                        if q.exit != "fall":
                            done.append(q)
                            continue
                        self._bind(q, st.target, e, st)
                        for r in self.run(st.body, q):
                            if r.exit == "continue":
                                r.exit, r.exit_node = "fall", None
                                nxt.append(r)
                            elif r.exit == "break":
                                r.exit, r.exit_node = "fall", None
                                done.append(r)
                            else:
                                nxt.append(r)
                    paths = nxt
                    if len(paths) + len(done) > self.max_paths:
                        raise AnalysisError(f"path enumeration exceeds {self.max_paths} paths")
                return paths + done
        if isinstance(st, (ast.For, ast.AsyncFor, ast.While)):
            p.effects.append(Effect("loop", norm(st.iter) if not isinstance(st, ast.While) else norm(st.test), None, st))
            for nm in _assigned(st.body + st.orelse) | ({n.id for n in ast.walk(st.target) if isinstance(n, ast.Name)} if not isinstance(st, ast.While) else set()):
                p.env[nm] = _unknown(nm)
            return [p]
        if isinstance(st, ast.Try):
            before = p.copy()
            out = []
            for q in self.run(st.body + st.orelse, p):
                out.extend(self.run(st.finalbody, q) if q.exit == "fall" and st.finalbody else [q])
            for h in st.handlers:
                q = before.copy()
                for nm in _assigned(st.body):
                    q.env[nm] = _unknown(nm)
                q.conds.append((ast.Call(func=ast.Name(id="EXCEPT", ctx=ast.Load()), args=[h.type] if h.type is not None else [], keywords=[]), True))
                if h.name:
                    q.env[h.name] = ast.Name(id=h.name, ctx=ast.Load())
                for r in self.run(h.body, q):
                    out.extend(self.run(st.finalbody, r) if r.exit == "fall" and st.finalbody else [r])
            return out
        if isinstance(st, ast.Match):
            subj = subst(st.subject, p.env)
            out = []
            for c in st.cases:
                q = p.copy()
                q.conds.append((ast.Compare(left=clone(subj), ops=[ast.Eq()], comparators=[ast.Constant(value=norm(c.pattern))]), True))
                out.extend(self.run(c.body, q))
            return out
        if isinstance(st, ast.Delete):
            return [p]
        raise AnalysisError(f"paths: unsupported statement {type(st).__name__}")

    def _is_container(self, p: Path, name: str) -> bool:
        if self.containers is not None:
            return name in self.containers
        v = p.env.get(name)
        return isinstance(v, (ast.List, ast.ListComp)) or (isinstance(v, ast.Call) and norm(v.func) == "list")

    def _expr_effect(self, p: Path, v: ast.expr, st: ast.stmt) -> None:
        if isinstance(v, ast.Call) and isinstance(v.func, ast.Attribute):
            # container growth is recorded on the ORIGINAL receiver name (before substitution)
            orig = st.value if isinstance(st, ast.Expr) else None
            recv = orig.func.value if isinstance(orig, ast.Call) and isinstance(orig.func, ast.Attribute) else None
            if isinstance(recv, ast.Name) and self._is_container(p, recv.id):
                if v.func.attr == "extend" and len(v.args) == 1:
                    p.effects.append(Effect("extend", recv.id, v.args[0], st))
                    return
                if v.func.attr == "append" and len(v.args) == 1:
                    p.effects.append(Effect("extend", recv.id, ast.List(elts=[v.args[0]], ctx=ast.Load()), st))
                    return
        p.effects.append(Effect("call", norm(v.func) if isinstance(v, ast.Call) else "", v, st))


def enumerate_paths(stmts: list[ast.stmt], env: Optional[dict[str, ast.expr]] = None, containers: Optional[set[str]] = None, max_paths: int = 512, split_ifexp: bool = True, nonnull=None) -> list[Path]:
    start = Path(env=dict(env or {}))
    return Enumerator(max_paths, split_ifexp, containers, nonnull).run(stmts, start)


def declared_nonnull(R, f):
    """Predicate "this expression is never None" from DECLARED types: the result of a call whose
    resolved repository callee has a return annotation without None / Optional, and ``self.x``
    whose annotated assignment in ``__init__`` has an annotation without None / Optional."""

    def ann_nonnull(a: Optional[ast.expr]) -> bool:
        if a is None:
            return False
        txt = norm(a)
        if isinstance(a, ast.Constant) and isinstance(a.value, str):
            txt = a.value
        return "None" not in txt and "Optional" not in txt and "Any" not in txt

    def pred(x: ast.expr) -> bool:
        if isinstance(x, ast.Call):
            try:
                cands = R.resolve_call(f, x)
            except Exception:
                return False
            fs = [c for c in cands if hasattr(c, "node") and isinstance(getattr(c, "node", None), (ast.FunctionDef, ast.AsyncFunctionDef))]
            return bool(fs) and len(fs) == len(cands) and all(ann_nonnull(c.node.returns) for c in fs)
        if isinstance(x, ast.Attribute) and isinstance(x.value, ast.Name) and x.value.id == "self" and f.cls is not None:
            init = R.repo.find_member(f.cls, "__init__")
            if init is None:
                return False
            anns = [n.annotation for n in ast.walk(init.node) if isinstance(n, ast.AnnAssign) and norm(n.target) == norm(x)]
            return bool(anns) and all(ann_nonnull(a) for a in anns)
        return False

    return pred


def feasible_paths(paths: list[Path], subject: str, value, globals_: Optional[dict] = None) -> list[Path]:
    """Paths that remain possible when ``subject`` - a local / parameter name or the normalised text
    of any expression (conditions are recorded after substitution, so a dispatch on ``ext`` may read
    ``name.suffix.removeprefix('.')``) - has the concrete ``value`` (an int / str / ..., or an
    ``Opaque`` symbolic constant such as an enum member): every recorded condition that mentions
    the subject is evaluated by the finite-domain interpreter and must have the recorded polarity;
    conditions that do not mention it, or cannot be decided, leave the path possible."""
    from .minieval import Interp, Undecided

    class R(ast.NodeTransformer):
        def __init__(self):
            self.hit = False

        def visit(self, node):
            if isinstance(node, ast.expr) and norm(node) == subject:
                self.hit = True
                return ast.copy_location(ast.Name(id="__subject__", ctx=ast.Load()), node)
            return super().visit(node)

    out = []
    for q in paths:
        ok = True
        for t, pol in q.conds:
            r = R()
            t2 = r.visit(clone(t))
            if not r.hit:
                continue
            try:
                v = bool(Interp(globals_).expr(t2, {"__subject__": value}))
            except Undecided:
                continue
            if v != pol:
                ok = False
                break
        if ok:
            out.append(q)
    return out


def dispatch_subjects(paths: list[Path], constants: set) -> set[str]:
    """Texts of the expressions that the paths compare (==, in) with one of ``constants``."""
    out = set()
    for q in paths:
        for t, _ in q.conds:
            for c in ast.walk(t):
                if isinstance(c, ast.Compare) and len(c.ops) == 1 and isinstance(c.ops[0], (ast.Eq, ast.In)):
                    consts = {x.value for x in ast.walk(c.comparators[0]) if isinstance(x, ast.Constant)}
                    if consts & constants:
                        out.add(norm(c.left))
    return out
