"""Harness: rule instances, verdict protocol, evidence, known findings, replays."""

from __future__ import annotations

import ast
import hashlib
import importlib
import json
import os
import sys
import time
import traceback
from dataclasses import dataclass, field
from pathlib import Path
from typing import Any, Callable, Optional

from .cfg import CFG
from .index import AnalysisError, ClassInfo, FuncInfo, Repo, norm
from .resolve import Resolver

VERIF = Path(__file__).resolve().parent.parent
DEFAULT_REPO = "/repo"
WRITE_EVIDENCE = True


@dataclass
class Inst:
    rule: str
    construct: str
    file: str
    line: int
    holds: bool
    reason: str
    facts: dict = field(default_factory=dict)
    text: str = ""  # normalised text of the decisive statement

    @property
    def key(self) -> str:
        h = hashlib.sha1(self.text.encode()).hexdigest()[:10]
        return f"{self.rule}|{self.construct}|{h}"

    def as_json(self) -> dict:
        return {
            "rule": self.rule,
            "construct": self.construct,
            "file": self.file,
            "line": self.line,
            "holds": self.holds,
            "reason": self.reason,
            "facts": self.facts,
            "text": self.text[:400],
            "key": self.key,
        }


class Ctx:
    """What a rule function gets: the index, the resolver and a place to report."""

    def __init__(self, prop: str, repo: Repo, tier: str = "quick"):
        self.prop = prop
        self.repo = repo
        self.R = Resolver(repo)
        self.tier = tier
        self.insts: list[Inst] = []
        self.trusted: list[str] = []
        self.notes: list[str] = []
        self.floors: dict[str, tuple[int, int]] = {}  # rule -> (found, floor)
        self._cfgs: dict[str, CFG] = {}
        self._inl: dict = {}
        self.keep_names: frozenset = frozenset()  # helpers the rule module names itself: never inlined
        self.current_rule = ""
        self.rule_doc: dict[str, str] = {}

    # -- engines
    def cfg(self, f: FuncInfo, all_raise: bool = False) -> CFG:
        key = getattr(f, "ckey", f.qual) + ("#all_raise" if all_raise else "")
        if key not in self._cfgs:
            self._cfgs[key] = CFG(f.node, all_raise=all_raise)
        return self._cfgs[key]

    def func(self, qual: str, raw: bool = False) -> FuncInfo:
        return self.repo.func(qual)

    def inl(self, f, keep=(), policy=None, depth: int = 3) -> FuncInfo:
        """``f`` (FuncInfo or qualified name) with its private helpers inlined (sa/inline.py)."""
        from .inline import default_policy, inline

        if isinstance(f, str):
            f = self.repo.func(f)
        key = (f.qual, tuple(sorted(keep)), policy, depth)
        if key not in self._inl:
            self._inl[key] = inline(self.R, f, policy or default_policy, depth, keep)
            g = self._inl[key]
            for q in getattr(g, "inlined", []):
                self.repo.consulted.add(self.repo.funcs[q].module.relpath)
        return self._inl[key]

    def cls(self, qual: str) -> ClassInfo:
        return self.repo.cls(qual)

    # -- reporting
    def check(
        self,
        holds: bool,
        construct: str,
        reason: str,
        *,
        where: Any = None,
        node: Optional[ast.AST] = None,
        facts: Optional[dict] = None,
        rule: Optional[str] = None,
    ) -> bool:
        """Record one rule instance.

        where: FuncInfo | ClassInfo | Module (gives the file), node: decisive ast node.
        """
        file = ""
        line = 0
        if where is not None:
            file = getattr(where, "file", None) or getattr(where, "relpath", "")
            line = getattr(where, "line", 0) or getattr(
                getattr(where, "node", None), "lineno", 0
            )
        if node is not None:
            line = getattr(node, "lineno", line) or line
            org = getattr(node, "_origin", None)  # node spliced in from a helper (sa/inline.py)
            if org is not None:
                file = org.file
        text = norm(node) if node is not None else ""
        if len(text) > 600:
            text = text[:600]
        self.insts.append(
            Inst(
                rule or self.current_rule,
                construct,
                file,
                int(line or 0),
                bool(holds),
                reason,
                facts or {},
                text,
            )
        )
        return bool(holds)

    def ok(self, construct: str, reason: str, **kw) -> bool:
        return self.check(True, construct, reason, **kw)

    def fail(self, construct: str, reason: str, **kw) -> bool:
        return self.check(False, construct, reason, **kw)

    def floor(self, found: int, floor: int, rule: Optional[str] = None) -> None:
        self.floors[rule or self.current_rule] = (found, floor)

    def trust(self, fact: str) -> None:
        if fact not in self.trusted:
            self.trusted.append(fact)

    def note(self, msg: str) -> None:
        self.notes.append(msg)


# --------------------------------------------------------------------------- findings
def load_known() -> list[dict]:
    p = VERIF / "known_findings.json"
    if not p.exists():
        return []
    data = json.loads(p.read_text())
    return data.get("findings", [])


def match_known(prop: str, inst: Inst, known: list[dict]) -> Optional[dict]:
    for k in known:
        if k.get("status") != "known":
            continue  # 'fixed' entries suppress nothing
        if k.get("property") != prop:
            continue
        if k.get("rule") != inst.rule:
            continue
        if k.get("construct") != inst.construct:
            continue
        must = k.get("text_contains")
        if must and must not in inst.text:
            continue
        return k
    return None


# --------------------------------------------------------------------------- running
def load_prop(prop: str):
    return importlib.import_module(f"props.{prop}")


def run_rules(mod, ctx: Ctx, only: Optional[set[str]] = None) -> None:
    ctx.keep_names = helper_names_in(mod, ctx.repo)
    if os.environ.get("SA_NO_NAMES") != "1" and not getattr(ctx.repo, "_names_restored", False):
        from .names import restore_names

        renamed = restore_names(ctx.repo)
        ctx.repo._names_restored = True
        if renamed:
            ctx.note("local-name recovery (sa/names.py): locals of " + str(len(renamed)) + " edited functions renamed back to the reviewed names")
    if os.environ.get("SA_NO_INLINE") != "1" and not getattr(ctx.repo, "_normalised", False):
        from .canon import canon_repo
        from .inline import normalise_repo

        if os.environ.get("SA_NO_FLAGS") != "1":
            from .canon import inline_test_flags_repo

            n_fl = inline_test_flags_repo(ctx.repo)
            if n_fl:
                ctx.note(f"single-assignment test flags replaced by their test (sa/canon.py C10): {n_fl}")
        if os.environ.get("SA_NO_SURFACE") != "1":
            from .canon2 import surface_forms_repo

            n_sf = surface_forms_repo(ctx.repo)
            if n_sf:
                ctx.note(f"surface forms rewritten (sa/canon2.py C11-C14: walrus tests, bound partials, counting zip, exit-stack callbacks): {n_sf}")
        n_canon = canon_repo(ctx.repo)
        if os.environ.get("SA_NO_INDEXLOOPS") != "1":
            from .canon import index_loops_repo

            n_il = index_loops_repo(ctx.repo)
            if n_il:
                ctx.note(f"index loops rewritten as enumerate / zip (sa/canon.py C9): {n_il}")
        rep = normalise_repo(ctx.repo, ctx.keep_names, compiled_opaque=bool(getattr(mod, "COMPILED_HELPERS_OPAQUE", False)))
        if os.environ.get("SA_NO_STRIP") != "1" and rep["inlined"]:
            from .canon2 import strip_inline_suffixes_repo

            n_ss = strip_inline_suffixes_repo(ctx.repo)
            if n_ss:
                ctx.note(f"inliner suffixes removed where the caller's name is dead (sa/canon2.py C17): {n_ss}")
        if os.environ.get("SA_NO_FLAGS") != "1" and rep["inlined"]:
            inline_test_flags_repo(ctx.repo)
        n_canon += canon_repo(ctx.repo)
        if os.environ.get("SA_NO_APPENDLOOPS") != "1":
            from .canon2 import append_loops_repo, counting_loops_repo

            n_al = append_loops_repo(ctx.repo) + counting_loops_repo(ctx.repo)
            if n_al:
                ctx.note(f"append loops rewritten as the comprehension they spell out (sa/canon2.py C19): {n_al}")
        if os.environ.get("SA_NO_ALIAS") != "1":
            from .canon2 import dead_alias_repo

            n_da = dead_alias_repo(ctx.repo)
            if n_da:
                ctx.note(f"copies of a name that is dead afterwards renamed back (sa/canon2.py C18): {n_da}")
        if os.environ.get("SA_NO_THREAD") != "1":
            from .canon2 import thread_none_tests_repo

            n_th = thread_none_tests_repo(ctx.repo)
            if n_th:
                n_canon += canon_repo(ctx.repo)
                ctx.note(f"None-tests threaded into the branches that decide them (sa/canon2.py C15): {n_th}")
        if os.environ.get("SA_NO_MERGE") != "1":
            from .canon import merge_reassignments_repo

            n_mr = merge_reassignments_repo(ctx.repo)
            if n_mr:
                ctx.note(f"straight-line re-assignments merged (sa/canon.py C8): {n_mr}")
        if os.environ.get("SA_NO_UNROLL") != "1":
            from .canon import unroll_name_loops_repo

            n_un = unroll_name_loops_repo(ctx.repo)
            if n_un:
                ctx.note(f"loops over literal name tuples unrolled (sa/canon.py C7): {n_un}")
        if os.environ.get("SA_NO_FOLD") != "1":
            from .canon import fold_tables_repo

            n_fold = fold_tables_repo(ctx.repo, mentioned_words(mod))
            if n_fold:
                n_canon += canon_repo(ctx.repo)
                ctx.note(f"module-level literal tables / constants folded (sa/canon.py C6): {n_fold} rewrites")
        ctx.note(f"canonical statement forms (sa/canon.py): {n_canon} rewrites (return temporaries, negated tests with else, else after an exiting branch)")
        ctx.repo._normalised = True
        ctx.R = Resolver(ctx.repo)
        ctx.normalisation = rep
        if rep["inlined"]:
            ctx.note("helper inlining (sa/inline.py): " + str(sum(len(v) for v in rep["inlined"].values())) + " private helper calls inlined into " + str(len(rep["inlined"])) + " functions; absorbed helpers: " + str(len(rep["absorbed"])))
    for fn in mod.RULES:
        rid = f"{ctx.prop}.{fn.__name__.split('_')[0].upper()}"
        if only and rid not in only:
            continue
        ctx.current_rule = rid
        ctx.rule_doc[rid] = (fn.__doc__ or "").strip().split("\n\n")[0]
        if getattr(fn, "thorough_only", False) and ctx.tier != "thorough":
            continue
        fn(ctx)
    ctx.current_rule = ""


def run_fixtures(mod, prop: str, tier: str) -> list[str]:
    """Positive fixtures: every listed rule must fire on its fixture tree."""
    problems = []
    fixtures = getattr(mod, "FIXTURES", {})
    for rule_name, spec in fixtures.items():
        fdir = VERIF / "fixtures" / spec["dir"]
        try:
            frepo = Repo(fdir)
            fctx = Ctx(prop, frepo, tier)
            fn = next(f for f in mod.RULES if f.__name__ == rule_name)
            rid = f"{prop}.{fn.__name__.split('_')[0].upper()}"
            fctx.current_rule = rid
            fn(fctx)
            fired = [i for i in fctx.insts if not i.holds]
            want = spec.get("expect_construct")
            if want:
                fired = [i for i in fired if want in i.construct or want in i.text]
            if not fired:
                problems.append(
                    f"rule {rid} did not fire on its positive fixture {spec['dir']}"
                )
        except AnalysisError as exc:
            if spec.get("analysis_error_ok"):
                continue
            problems.append(f"fixture {spec['dir']} for {rule_name}: {exc}")
    return problems


def _rule_files(mod) -> set:
    import re

    files = {mod.__file__}
    for v in vars(mod).values():
        m2 = sys.modules.get(getattr(v, "__module__", "") or "")
        if m2 is not None and getattr(m2, "__name__", "").startswith("props.") and getattr(m2, "__file__", None):
            files.add(m2.__file__)
    todo = list(files)
    seen = set()
    while todo:
        fl = todo.pop()
        if fl in seen:
            continue
        seen.add(fl)
        for m in re.findall(r"props\.(C\d\d)", Path(fl).read_text()):
            other = Path(fl).parent / f"{m}.py"
            if other.exists() and str(other) not in seen:
                todo.append(str(other))
    return seen


def mentioned_words(mod) -> frozenset:
    """Every identifier-like word of the rule module (and of the sibling rule modules it borrows
    from): module-level constants the rules name are anchors and are not folded away."""
    import re

    words = set()
    for fl in _rule_files(mod):
        words |= set(re.findall(r"\b[A-Za-z_][A-Za-z0-9_]*\b", Path(fl).read_text()))
    return frozenset(words)


def helper_names_in(mod, repo) -> frozenset:
    """Private repository functions that the rule module mentions by name are anchors of their
    own: they are analysed where they stand instead of being inlined into their callers."""
    import re

    files = {mod.__file__}
    for v in vars(mod).values():  # rule functions borrowed from sibling property modules
        m2 = sys.modules.get(getattr(v, "__module__", "") or "")
        if m2 is not None and getattr(m2, "__name__", "").startswith("props.") and getattr(m2, "__file__", None):
            files.add(m2.__file__)
    # rule functions imported lazily inside a rule (`from props.C10 import r4_...`)
    todo = list(files)
    seen = set()
    while todo:
        fl = todo.pop()
        if fl in seen:
            continue
        seen.add(fl)
        for m in re.findall(r"props\.(C\d\d)", Path(fl).read_text()):
            other = Path(fl).parent / f"{m}.py"
            if other.exists() and str(other) not in seen:
                todo.append(str(other))
    files = seen
    words = set()
    for fl in files:
        words |= set(re.findall(r"\b_[A-Za-z0-9_]+\b", Path(fl).read_text()))
    names = {f.name for f in repo.funcs.values()}
    # public accessors (sa/inline.py:_is_accessor) named by a rule stay calls as well
    from .inline import _is_accessor

    acc = {f.name for f in repo.funcs.values() if _is_accessor(f)}
    if acc:
        allw = set()
        for fl in files:
            allw |= set(re.findall(r"\b[A-Za-z][A-Za-z0-9_]+\b", Path(fl).read_text()))
        words |= allw & acc
    return frozenset(words & names)


def evaluate(prop: str, repo_root: str, tier: str, only: Optional[set[str]] = None):
    mod = load_prop(prop)
    repo = Repo(repo_root)
    ctx = Ctx(prop, repo, tier)
    run_rules(mod, ctx, only)
    return mod, ctx


def main_check(prop: str, tier: str, repo_root: str, replay: Optional[str] = None) -> int:
    t0 = time.time()
    seed = int(os.environ.get("VERIF_SEED", "0") or 0)
    try:
        mod, ctx = evaluate(prop, repo_root, tier)
        problems = run_fixtures(mod, prop, tier)
        for rule, (found, floor) in ctx.floors.items():
            if found < floor:
                problems.append(
                    f"rule {rule}: matched {found} instances, fewer than the {floor} "
                    "confirmed by hand (matcher no longer sees the code it was written for)"
                )
        if not ctx.insts:
            problems.append("no rule instance was evaluated")
        known0 = load_known()
        has_new_violation = any(
            (not i.holds) and match_known(prop, i, known0) is None for i in ctx.insts
        )
        if problems and not has_new_violation:
            for p in problems:
                print(f"ANALYSIS-ERROR property={prop} {p}")
            return 2
        for p in problems:
            # a violation was found as well: report it (exit 1) and mention the matcher issue
            print(f"NOTE property={prop} {p}")
    except AnalysisError as exc:
        print(f"ANALYSIS-ERROR property={prop} {exc}")
        return 2
    except Exception:  # internal error: never a VIOLATION
        traceback.print_exc()
        print(f"ANALYSIS-ERROR property={prop} internal error (traceback above)")
        return 2

    known = load_known()
    failing = [i for i in ctx.insts if not i.holds]
    new, listed = [], []
    for i in failing:
        k = match_known(prop, i, known)
        (listed if k else new).append((i, k))

    if replay:
        want = json.loads(Path(replay).read_text())
        still = [i for i in failing if i.key == want.get("key")]
        if not still:
            still = [
                i
                for i in failing
                if i.rule == want.get("rule") and i.construct == want.get("construct")
            ]
        if still:
            i = still[0]
            print(f"VIOLATION property={prop} replay={replay}")
            print(f"  {i.file}:{i.line} {i.rule} {i.construct}: {i.reason}")
            return 1
        print(f"OK property={prop} replayed instance no longer fails")
        return 0

    rdir = VERIF / "replays" / prop
    seen_keys = set()
    for i, k in listed:
        if i.key in seen_keys:
            continue
        seen_keys.add(i.key)
        print(
            f"KNOWN-FINDING: property={prop} {i.rule} {i.file}:{i.line} "
            f"{i.construct}: {k.get('what', i.reason)}"
        )
    for i, _ in new:
        if i.key in seen_keys:
            continue
        seen_keys.add(i.key)
        rdir.mkdir(parents=True, exist_ok=True)
        fn = rdir / (hashlib.sha1(i.key.encode()).hexdigest()[:16] + ".json")
        rec = i.as_json()
        rec["property"] = prop
        rec["rule_statement"] = ctx.rule_doc.get(i.rule, "")
        rec["repo"] = repo_root
        fn.write_text(json.dumps(rec, indent=1))
        print(f"VIOLATION property={prop} replay={fn}")
        print(f"  {i.file}:{i.line} {i.rule} {i.construct}: {i.reason}")

    if WRITE_EVIDENCE:
        write_evidence(prop, mod, ctx, tier, seed, time.time() - t0, len(new), len(listed))
    n_rules = len({i.rule for i in ctx.insts})
    if new:
        return 1
    print(
        f"OK property={prop} tier={tier} rules={n_rules} instances={len(ctx.insts)} "
        f"held={sum(i.holds for i in ctx.insts)} known_findings={len(listed)} "
        f"wall={time.time() - t0:.2f}s"
    )
    return 0


def write_evidence(prop, mod, ctx: Ctx, tier, seed, wall, n_new, n_known) -> None:
    insts = ctx.insts
    distinct = {(i.rule, i.construct) for i in insts if i.file}
    per_rule: dict[str, dict] = {}
    for i in insts:
        d = per_rule.setdefault(
            i.rule, {"statement": ctx.rule_doc.get(i.rule, ""), "instances": 0, "held": 0}
        )
        d["instances"] += 1
        d["held"] += int(i.holds)
    # samples: first instance of each rule + every failing instance
    samples = []
    seen_rules = set()
    for i in insts:
        if i.rule not in seen_rules or not i.holds:
            seen_rules.add(i.rule)
            samples.append(i.as_json())
    samples = samples[:60]
    ev = {
        "property_id": prop,
        "tier": tier,
        "seed": seed,
        "level": "other",
        "coverage": {
            "explanation": getattr(mod, "EXPLANATION", "").strip()
            + " Decides the structural clauses listed per rule; does not decide the runtime behaviour.",
            "obligations": len(insts),
            "discharged": sum(i.holds for i in insts),
            "evaluations": len(insts),
            "distinct_nontrivial": len(distinct),
            "rule": "one evaluation = one rule instance (rule, construct) decided on a program fact "
            "found in /repo's current source; distinct_nontrivial counts distinct (rule, construct) "
            "pairs whose matcher located real source (file and line known)",
            "samples": samples,
            "per_rule": per_rule,
            "checker_cmd": f"./check {prop} --tier {tier}",
            "trusted_base": ctx.trusted
            + ["CPython ast module (parsing)", "own resolver/CFG engines in /verif/sa"],
            "modules_parsed": len(ctx.repo.modules),
            "modules_consulted": sorted(ctx.repo.consulted),
            "repo_digest": ctx.repo.digest()[:16],
            "instance_floors": {k: {"found": a, "floor": b} for k, (a, b) in ctx.floors.items()},
            "known_findings_reported": n_known,
            "notes": ctx.notes,
            "not_decided": getattr(mod, "NOT_DECIDED", []),
            "exhaustive": False,
        },
        "assumptions": getattr(mod, "ASSUMPTIONS", [])
        + [
            "program = /repo/pyxel/**/*.py as parsed; user-supplied model functions, monkeypatching "
            "and subclasses defined outside the repository are out of scope",
        ],
        "wall_s": round(wall, 3),
        "violations": n_new,
    }
    edir = VERIF / "evidence"
    edir.mkdir(exist_ok=True)
    (edir / f"{prop}.json").write_text(json.dumps(ev, indent=1, default=str))
