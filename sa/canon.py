"""Canonical statement forms: one spelling for a few pairs of trivially equivalent programs.

Applied in place to every function of the indexed tree before the rules run (after local-name
recovery, before and after helper inlining).  Every rewrite preserves behaviour exactly:

  C1  return-temporary   ``t = E`` immediately followed by ``return t`` where ``t`` is a local with
                         no other occurrence in the function            ->  ``return E``
  C2  positive tests     ``if not c: A else: B`` (plain else)            ->  ``if c: B else: A``
  C3  no else after exit ``if c: A else: B`` where A always leaves (return / raise / continue /
                         break) and B is not an elif                     ->  ``if c: A`` ; B
                         (the rules read conditions through enclosing_tests(), which treats a guard
                         clause and the nesting alike, so C3 only fixes the SHAPE they walk)

C3 is the direction chosen because guard clauses are what the reviewed tree mostly uses.

  C5  table comprehensions  a list / dict comprehension with ONE generator, no filter, over a literal
                         tuple / list / dict display (or `<display>.items()`, or a local bound once to such
                         a display and never changed) of at most 8 entries  ->  the explicit display:
                         {k: f(v) for k, v in {"y": a, "x": b}.items()}  ->  {"y": f(a), "x": f(b)}

  C4  match lowering     ``match s: case "a": A  case B(): C  case _: D`` with value / singleton /
                         or / class-without-arguments / wildcard / capture patterns
                                                                          ->  if s == "a": A elif isinstance(s, B): C else: D
                         (subject bound to a temporary first unless it is a name or attribute chain;
                         any other pattern leaves the match statement as it is)
"""

from __future__ import annotations

import ast

from .astutil import always_exits
from .index import FuncInfo, set_parents


def _own_names(fn) -> dict[str, int]:
    counts: dict[str, int] = {}
    for n in ast.walk(fn):
        if isinstance(n, ast.Name):
            counts[n.id] = counts.get(n.id, 0) + 1
        elif isinstance(n, ast.ExceptHandler) and n.name:
            counts[n.name] = counts.get(n.name, 0) + 1
    return counts


def _blocks(node):
    for fld in ("body", "orelse", "finalbody"):
        lst = getattr(node, fld, None)
        if isinstance(lst, list) and lst and isinstance(lst[0], ast.stmt):
            yield fld, lst


def _always_raises(stmts) -> bool:
    from .cfg import ends_in_raise

    return ends_in_raise(stmts)


def _simple_subject(e: ast.expr) -> bool:
    while isinstance(e, ast.Attribute):
        e = e.value
    return isinstance(e, ast.Name)


def _bool_simple(e) -> bool:
    """A comparison of plain chains / constants (bool-valued, side-effect free, cheap to repeat)."""
    if isinstance(e, ast.Compare) and all(isinstance(o, (ast.Eq, ast.NotEq, ast.Lt, ast.LtE, ast.Gt, ast.GtE, ast.Is, ast.IsNot)) for o in e.ops):
        return all(_simple_subject(x) or isinstance(x, ast.Constant) for x in [e.left] + list(e.comparators))
    if isinstance(e, ast.UnaryOp) and isinstance(e.op, ast.Not):
        return _bool_simple(e.operand)
    return False


def _pattern_test(pat, subj):
    """(test expression | None for 'always', [(capture name, subject expression)]) or raises ValueError.
    ``subj`` is an expression, or a list of expressions for a tuple display matched by sequence patterns."""
    from .astutil import clone

    if isinstance(subj, list):
        if isinstance(pat, ast.MatchSequence) and len(pat.patterns) == len(subj) and not any(isinstance(p_, ast.MatchStar) for p_ in pat.patterns):
            tests, caps = [], []
            for p_, s_ in zip(pat.patterns, subj):
                t, c = _pattern_test(p_, s_)
                if t is not None:
                    tests.append(t)
                caps += c
            if not tests:
                return None, caps
            return (tests[0] if len(tests) == 1 else ast.BoolOp(op=ast.And(), values=tests)), caps
        if isinstance(pat, ast.MatchOr):
            subs = [_pattern_test(p_, subj) for p_ in pat.patterns]
            if any(c for _, c in subs):
                raise ValueError("capture inside an or-pattern")
            if any(t is None for t, _ in subs):
                return None, []
            return ast.BoolOp(op=ast.Or(), values=[t for t, _ in subs]), []
        if isinstance(pat, ast.MatchAs) and pat.pattern is None and pat.name is None:
            return None, []
        raise ValueError("tuple subject with a non-sequence pattern")
    if isinstance(pat, ast.MatchValue):
        return ast.Compare(left=clone(subj), ops=[ast.Eq()], comparators=[clone(pat.value)]), []
    if isinstance(pat, ast.MatchSingleton):
        if _bool_simple(subj) and isinstance(pat.value, bool):
            # the subject is a comparison: `is True` / `is False` is the comparison / its negation
            return (clone(subj) if pat.value else ast.UnaryOp(op=ast.Not(), operand=clone(subj))), []
        return ast.Compare(left=clone(subj), ops=[ast.Is()], comparators=[ast.Constant(value=pat.value)]), []
    if isinstance(pat, ast.MatchAs) and pat.pattern is None:
        return None, ([(pat.name, subj)] if pat.name else [])
    if isinstance(pat, ast.MatchAs):
        t, caps = _pattern_test(pat.pattern, subj)
        return t, caps + [(pat.name, subj)]
    if isinstance(pat, ast.MatchClass) and not pat.patterns and not pat.kwd_patterns:
        return ast.Call(func=ast.Name(id="isinstance", ctx=ast.Load()), args=[clone(subj), clone(pat.cls)], keywords=[]), []
    if isinstance(pat, ast.MatchOr):
        subs = [_pattern_test(p_, subj) for p_ in pat.patterns]
        if any(caps or t is None for t, caps in subs):
            raise ValueError("capture / wildcard inside an or-pattern")
        if all(isinstance(p_, ast.MatchValue) for p_ in pat.patterns):
            return ast.Compare(left=clone(subj), ops=[ast.In()], comparators=[ast.Tuple(elts=[clone(p_.value) for p_ in pat.patterns], ctx=ast.Load())]), []
        return ast.BoolOp(op=ast.Or(), values=[t for t, _ in subs]), []
    raise ValueError(f"pattern {type(pat).__name__}")


def lower_match(st: ast.Match, counter: list) -> list[ast.stmt]:
    """The if/elif chain equivalent to a match statement of simple patterns (or [st] unchanged)."""
    from .astutil import clone

    pre: list[ast.stmt] = []
    subj = st.subject
    if isinstance(subj, ast.Tuple) and not any(isinstance(e, ast.Starred) for e in subj.elts) and any(isinstance(c.pattern, (ast.MatchSequence, ast.MatchOr)) for c in st.cases):
        elems = []
        for e in subj.elts:
            if _simple_subject(e) or isinstance(e, ast.Constant) or _bool_simple(e):
                elems.append(e)
            else:
                counter[0] += 1
                tmp = f"_m{counter[0]}"
                pre.append(ast.copy_location(ast.Assign(targets=[ast.Name(id=tmp, ctx=ast.Store())], value=e), st))
                elems.append(ast.Name(id=tmp, ctx=ast.Load()))
        subj = elems
    elif not _simple_subject(subj):
        counter[0] += 1
        tmp = f"_m{counter[0]}"
        pre.append(ast.copy_location(ast.Assign(targets=[ast.Name(id=tmp, ctx=ast.Store())], value=subj), st))
        subj = ast.Name(id=tmp, ctx=ast.Load())

    class _S(ast.NodeTransformer):
        def __init__(self, env):
            self.env = env

        def visit_Name(self, node):
            if isinstance(node.ctx, ast.Load) and node.id in self.env:
                return clone(self.env[node.id])
            return node

    arms = []
    try:
        for c in st.cases:
            t, caps = _pattern_test(c.pattern, subj)
            body = list(c.body)
            guard = c.guard
            if caps:
                if any(isinstance(e, list) for _, e in caps):
                    raise ValueError("capture of the whole tuple subject")
                body = [ast.copy_location(ast.Assign(targets=[ast.Name(id=nm, ctx=ast.Store())], value=clone(e)), c.body[0]) for nm, e in caps] + body
                if guard is not None:
                    guard = _S({nm: e for nm, e in caps}).visit(clone(guard))
            if guard is not None:
                t = guard if t is None else ast.BoolOp(op=ast.And(), values=[t, guard])
            arms.append((t, body))
    except ValueError:
        return [st]
    chain: list[ast.stmt] = []
    for t, body in reversed(arms):
        if t is None:
            chain = body
        else:
            chain = [ast.copy_location(ast.If(test=t, body=body, orelse=chain), body[0])]
    return pre + chain


def _literal_entries(fn, it: ast.expr):
    """Entries of a literal table iterated by a comprehension: list of expressions (tuples for .items())."""
    from .astutil import _mutated, local_defs

    def resolve(e):
        if isinstance(e, ast.Name):
            defs = local_defs(fn, e.id)
            if len(defs) == 1 and defs[0][1] is not None and isinstance(defs[0][1], (ast.Tuple, ast.List, ast.Dict)) and not _mutated(fn, e.id):
                return defs[0][1]
        return e

    items = False
    if isinstance(it, ast.Call) and isinstance(it.func, ast.Attribute) and it.func.attr == "items" and not it.args:
        it, items = it.func.value, True
    it = resolve(it)
    if items:
        if isinstance(it, ast.Dict) and all(k is not None for k in it.keys) and 0 < len(it.keys) <= 8:
            return [ast.Tuple(elts=[k, v], ctx=ast.Load()) for k, v in zip(it.keys, it.values)]
        return None
    if isinstance(it, (ast.Tuple, ast.List)) and 0 < len(it.elts) <= 8 and not any(isinstance(e, ast.Starred) for e in it.elts):
        return list(it.elts)
    if isinstance(it, ast.Dict) and all(k is not None for k in it.keys) and 0 < len(it.keys) <= 8:
        return list(it.keys)  # iterating a mapping yields its keys
    return None


def _bind_pattern(target: ast.expr, value: ast.expr, env: dict) -> bool:
    if isinstance(target, ast.Name):
        env[target.id] = value
        return True
    if isinstance(target, (ast.Tuple, ast.List)) and isinstance(value, (ast.Tuple, ast.List)) and len(target.elts) == len(value.elts):
        return all(_bind_pattern(t, v, env) for t, v in zip(target.elts, value.elts))
    return False


def unroll_table_comprehensions(fn) -> int:
    from .astutil import clone

    n = 0

    class S(ast.NodeTransformer):
        def __init__(self, env):
            self.env = env

        def visit_Name(self, node):
            if isinstance(node.ctx, ast.Load) and node.id in self.env:
                return clone(self.env[node.id])
            return node

    class U(ast.NodeTransformer):
        def _one(self, node):
            nonlocal n
            self.generic_visit(node)
            if len(node.generators) != 1 or node.generators[0].ifs or node.generators[0].is_async:
                return node
            g = node.generators[0]
            entries = _literal_entries(fn, g.iter)
            if entries is None:
                return node
            outs = []
            for e in entries:
                env: dict = {}
                if not _bind_pattern(g.target, e, env):
                    return node
                if isinstance(node, ast.DictComp):
                    outs.append((S(env).visit(clone(node.key)), S(env).visit(clone(node.value))))
                else:
                    outs.append(S(env).visit(clone(node.elt)))
            n += 1
            if isinstance(node, ast.DictComp):
                new = ast.Dict(keys=[k for k, _ in outs], values=[v for _, v in outs])
            else:
                new = ast.List(elts=outs, ctx=ast.Load())
            return ast.copy_location(new, node)

        visit_DictComp = visit_ListComp = _one

        def visit_Call(self, node):
            # sum / any / all / max / min / tuple / list / sorted (<generator over a literal table>): consumed once, in order
            nonlocal n
            self.generic_visit(node)
            if isinstance(node.func, ast.Name) and node.func.id in ("sum", "any", "all", "max", "min", "tuple", "list", "sorted") and len(node.args) == 1 and isinstance(node.args[0], ast.GeneratorExp):
                ge = node.args[0]
                if len(ge.generators) == 1 and not ge.generators[0].ifs and not ge.generators[0].is_async:
                    entries = _literal_entries(fn, ge.generators[0].iter)
                    if entries is not None:
                        outs = []
                        for e in entries:
                            env: dict = {}
                            if not _bind_pattern(ge.generators[0].target, e, env):
                                return node
                            outs.append(S(env).visit(clone(ge.elt)))
                        node.args[0] = ast.copy_location(ast.Tuple(elts=outs, ctx=ast.Load()), ge)
                        n += 1
            return node

        def visit_FunctionDef(self, node):
            return node if node is not fn else self.generic_visit(node)

        visit_Lambda = lambda self, node: node  # noqa: E731

    U().visit(fn)

    # x = {K: V for T in TABLE if C}   ->   x = {} ; if C1: x[K1] = V1 ; if C2: x[K2] = V2 ...
    def stmts_pass(stmts):
        nonlocal n
        out = []
        for st in stmts:
            if not isinstance(st, (ast.FunctionDef, ast.AsyncFunctionDef, ast.ClassDef)):
                for fld, lst in list(_blocks(st)):
                    setattr(st, fld, stmts_pass(lst))
                if isinstance(st, ast.Try):
                    for h in st.handlers:
                        h.body = stmts_pass(h.body)
            val = getattr(st, "value", None)
            tg = (st.targets if isinstance(st, ast.Assign) else [st.target]) if isinstance(st, (ast.Assign, ast.AnnAssign)) else []
            if len(tg) == 1 and isinstance(tg[0], ast.Name) and isinstance(val, ast.DictComp) and len(val.generators) == 1 and val.generators[0].ifs and not val.generators[0].is_async:
                g = val.generators[0]
                entries = _literal_entries(fn, g.iter)
                if entries is not None:
                    new_stmts = []
                    okb = True
                    for e in entries:
                        env: dict = {}
                        if not _bind_pattern(g.target, e, env):
                            okb = False
                            break
                        test = S(env).visit(clone(g.ifs[0])) if len(g.ifs) == 1 else ast.BoolOp(op=ast.And(), values=[S(env).visit(clone(t)) for t in g.ifs])
                        store = ast.Assign(targets=[ast.Subscript(value=ast.Name(id=tg[0].id, ctx=ast.Load()), slice=S(env).visit(clone(val.key)), ctx=ast.Store())], value=S(env).visit(clone(val.value)))
                        new_stmts.append(ast.copy_location(ast.If(test=test, body=[ast.copy_location(store, st)], orelse=[]), st))
                    if okb:
                        st.value = ast.copy_location(ast.Dict(keys=[], values=[]), val)
                        out.append(st)
                        out.extend(new_stmts)
                        n += 1
                        continue
            out.append(st)
        return out

    fn.body = stmts_pass(fn.body)
    return n


def canon_function(fn) -> int:
    """Rewrite ``fn`` in place; returns the number of rewrites."""
    changed = 0
    counts = _own_names(fn)
    params = {a.arg for a in fn.args.posonlyargs + fn.args.args + fn.args.kwonlyargs}
    # C1 candidates: a name ALL of whose occurrences are `t = E` directly followed by `return t`
    pairs: dict[str, int] = {}
    for node in ast.walk(fn):
        for _fld, lst in _blocks(node):
            for a_, b_ in zip(lst, lst[1:]):
                if isinstance(b_, ast.Return) and isinstance(b_.value, ast.Name) and isinstance(a_, (ast.Assign, ast.AnnAssign)) and getattr(a_, "value", None) is not None:
                    tg_ = a_.targets if isinstance(a_, ast.Assign) else [a_.target]
                    if len(tg_) == 1 and isinstance(tg_[0], ast.Name) and tg_[0].id == b_.value.id and b_.value.id not in {n.id for n in ast.walk(a_.value) if isinstance(n, ast.Name)}:
                        pairs[b_.value.id] = pairs.get(b_.value.id, 0) + 1
        if isinstance(node, ast.Try):
            for h in node.handlers:
                for a_, b_ in zip(h.body, h.body[1:]):
                    if isinstance(b_, ast.Return) and isinstance(b_.value, ast.Name) and isinstance(a_, (ast.Assign, ast.AnnAssign)) and getattr(a_, "value", None) is not None:
                        tg_ = a_.targets if isinstance(a_, ast.Assign) else [a_.target]
                        if len(tg_) == 1 and isinstance(tg_[0], ast.Name) and tg_[0].id == b_.value.id and b_.value.id not in {n.id for n in ast.walk(a_.value) if isinstance(n, ast.Name)}:
                            pairs[b_.value.id] = pairs.get(b_.value.id, 0) + 1
    mergeable = {nm for nm, k in pairs.items() if counts.get(nm, 0) == 2 * k and nm not in params}
    match_counter = [0]

    def rewrite_block(stmts: list[ast.stmt], elif_arm: bool = False) -> list[ast.stmt]:
        nonlocal changed
        out: list[ast.stmt] = []
        i = 0
        while i < len(stmts):
            st = stmts[i]
            # recurse first
            if not isinstance(st, (ast.FunctionDef, ast.AsyncFunctionDef, ast.ClassDef)):
                for fld, lst in list(_blocks(st)):
                    setattr(st, fld, rewrite_block(lst, elif_arm=(fld == "orelse" and isinstance(st, ast.If) and len(lst) == 1 and isinstance(lst[0], ast.If))))
                if isinstance(st, ast.Try):
                    for h in st.handlers:
                        h.body = rewrite_block(h.body)
                if isinstance(st, ast.Match):
                    for c in st.cases:
                        c.body = rewrite_block(c.body)
            # C4
            if isinstance(st, ast.Match):
                low = lower_match(st, match_counter)
                if not (len(low) == 1 and low[0] is st):
                    changed += 1
                    # the chain may itself contain tests / exits the other rewrites apply to
                    low = rewrite_block(low)
                    out.extend(low)
                    i += 1
                    continue
            # C2
            if isinstance(st, ast.If) and isinstance(st.test, ast.UnaryOp) and isinstance(st.test.op, ast.Not) and st.orelse and not (len(st.orelse) == 1 and isinstance(st.orelse[0], ast.If)):
                st.test, st.body, st.orelse = st.test.operand, st.orelse, st.body
                changed += 1
            # C2b: a stand-alone `if good: A else: raise` (not an arm of an if / elif chain) reads as the guard clause
            if isinstance(st, ast.If) and not elif_arm and st.orelse and not (len(st.orelse) == 1 and isinstance(st.orelse[0], ast.If)) and _always_raises(st.orelse) and not always_exits(st.body):
                neg = st.test.operand if isinstance(st.test, ast.UnaryOp) and isinstance(st.test.op, ast.Not) else ast.copy_location(ast.UnaryOp(op=ast.Not(), operand=st.test), st.test)
                st.test, st.body, st.orelse = neg, st.orelse, st.body
                changed += 1
            # C3
            if isinstance(st, ast.If) and st.orelse and always_exits(st.body) and not (len(st.orelse) == 1 and isinstance(st.orelse[0], ast.If)):
                tail = st.orelse
                st.orelse = []
                out.append(st)
                out.extend(tail)
                changed += 1
                i += 1
                continue
            # C1
            nxt = stmts[i + 1] if i + 1 < len(stmts) else None
            if (
                isinstance(nxt, ast.Return)
                and isinstance(nxt.value, ast.Name)
                and isinstance(st, (ast.Assign, ast.AnnAssign))
                and getattr(st, "value", None) is not None
            ):
                tg = st.targets if isinstance(st, ast.Assign) else [st.target]
                nm = nxt.value.id
                if len(tg) == 1 and isinstance(tg[0], ast.Name) and tg[0].id == nm and nm in mergeable:
                    new = ast.copy_location(ast.Return(value=st.value), nxt)
                    out.append(new)
                    changed += 1
                    i += 2
                    continue
            out.append(st)
            i += 1
        return out

    fn.body = rewrite_block(fn.body)
    changed += unroll_table_comprehensions(fn)
    if changed:
        ast.fix_missing_locations(fn)
        par = getattr(fn, "_parent", None)
        set_parents(fn)
        fn._parent = par
    return changed


def canon_repo(repo) -> int:
    n = 0
    for f in list(repo.funcs.values()):
        if isinstance(f, FuncInfo) and f.outer is None:
            n += canon_function(f.node)
    return n


# --------------------------------------------------------------------------- C6: tables and constants
def _is_literal(e: ast.expr) -> bool:
    if isinstance(e, ast.Constant):
        return True
    if isinstance(e, ast.UnaryOp) and isinstance(e.op, ast.USub) and isinstance(e.operand, ast.Constant):
        return True
    if isinstance(e, ast.Tuple):
        return all(_is_literal(x) for x in e.elts)
    return False


def fold_tables_function(f, mentioned: frozenset) -> int:
    """C6: look-ups in module-level literal tables and the constants they yield are folded.

    * ``TABLE[<constant key>]`` where TABLE is a module-level dict literal with constant keys and
      literal values becomes that value; ``CONST`` where CONST is a module-level literal (number,
      string, tuple of those) that no rule names becomes the literal;
    * ``a, b = (c1, c2)`` becomes ``a = c1; b = c2``;
    * a temporary introduced by the inliner (``name__<n>``) that is assigned exactly once, a literal,
      is replaced by that literal.
    All three are value-preserving (module tables are never rebound in this code base: checked - a
    name that is stored to anywhere in the module outside its definition is left alone)."""
    import re as _re

    from .astutil import clone

    fn = f.node
    mod = f.module
    g = getattr(mod, "globals_", {})
    rebound = getattr(mod, "_rebound_globals", None)
    if rebound is None:
        rebound = set()
        tree = getattr(mod, "tree", None) or getattr(mod, "node", None)
        if tree is not None:
            for n in ast.walk(tree):
                if isinstance(n, (ast.Global, ast.Nonlocal)):
                    rebound |= set(n.names)
                if isinstance(n, (ast.AugAssign,)) and isinstance(n.target, ast.Name):
                    rebound.add(n.target.id)
                if isinstance(n, (ast.Subscript, ast.Attribute)) and isinstance(n.ctx, (ast.Store, ast.Del)) and isinstance(n.value, ast.Name):
                    rebound.add(n.value.id)
        try:
            mod._rebound_globals = rebound
        except Exception:
            pass
    local = {n.id for n in ast.walk(fn) if isinstance(n, ast.Name) and isinstance(n.ctx, (ast.Store, ast.Del))} | {a.arg for a in fn.args.posonlyargs + fn.args.args + fn.args.kwonlyargs}
    changed = 0

    class T(ast.NodeTransformer):
        def visit_Subscript(self, n):
            nonlocal changed
            self.generic_visit(n)
            if isinstance(n.ctx, ast.Load) and isinstance(n.value, ast.Name) and n.value.id in g and n.value.id not in local and n.value.id not in rebound:
                tab = g[n.value.id]
                if isinstance(tab, ast.Dict) and all(isinstance(k, ast.Constant) for k in tab.keys) and isinstance(n.slice, ast.Constant):
                    for k, v in zip(tab.keys, tab.values):
                        if k.value == n.slice.value and type(k.value) is type(n.slice.value) and _is_literal(v):
                            changed += 1
                            return ast.copy_location(clone(v), n)
            return n

        def visit_Name(self, n):
            nonlocal changed
            if isinstance(n.ctx, ast.Load) and n.id in g and n.id not in local and n.id not in rebound and n.id not in mentioned and n.id.upper() == n.id and _is_literal(g[n.id]) and not (isinstance(g[n.id], ast.Constant) and g[n.id].value is None):
                changed += 1
                return ast.copy_location(clone(g[n.id]), n)
            return n

        def visit_FunctionDef(self, node):
            return node if node is not fn else self.generic_visit(node)

        visit_AsyncFunctionDef = visit_FunctionDef

    T().visit(fn)

    # a, b = (c1, c2)
    def split(stmts):
        nonlocal changed
        out = []
        for st in stmts:
            for fld, lst in list(_blocks(st)) if not isinstance(st, (ast.FunctionDef, ast.AsyncFunctionDef, ast.ClassDef)) else []:
                setattr(st, fld, split(lst))
            if isinstance(st, ast.Try):
                for h in st.handlers:
                    h.body = split(h.body)
            if isinstance(st, ast.Assign) and len(st.targets) == 1 and isinstance(st.targets[0], ast.Tuple) and isinstance(st.value, ast.Tuple) and len(st.targets[0].elts) == len(st.value.elts) and all(isinstance(t, ast.Name) for t in st.targets[0].elts) and _is_literal(st.value):
                for t, v in zip(st.targets[0].elts, st.value.elts):
                    one = ast.copy_location(ast.Assign(targets=[t], value=v), st)
                    if hasattr(st, "_origin"):
                        one._origin = st._origin  # type: ignore[attr-defined]
                    out.append(one)
                changed += 1
                continue
            out.append(st)
        return out

    fn.body = split(fn.body)

    # inliner temporaries bound once to a literal
    stores: dict[str, list] = {}
    for n in ast.walk(fn):
        if isinstance(n, ast.Name) and isinstance(n.ctx, (ast.Store, ast.Del)):
            stores.setdefault(n.id, []).append(n)
        elif isinstance(n, ast.AugAssign) and isinstance(n.target, ast.Name):
            stores.setdefault(n.target.id, []).append(n)
    consts: dict[str, ast.expr] = {}
    drop = set()
    for st in ast.walk(fn):
        if isinstance(st, (ast.Assign, ast.AnnAssign)) and getattr(st, "value", None) is not None:
            tg = st.targets if isinstance(st, ast.Assign) else [st.target]
            if len(tg) == 1 and isinstance(tg[0], ast.Name) and (_re.search(r"__\d+$", tg[0].id) or getattr(st, "_origin", None) is not None) and len(stores.get(tg[0].id, [])) == 1 and _is_literal(st.value) and not isinstance(st.value, ast.Tuple):
                consts[tg[0].id] = st.value
                drop.add(id(st))
    if consts:

        class S(ast.NodeTransformer):
            def visit_Name(self, n):
                nonlocal changed
                if isinstance(n.ctx, ast.Load) and n.id in consts:
                    changed += 1
                    return ast.copy_location(clone(consts[n.id]), n)
                return n

        S().visit(fn)

        def prune(stmts):
            out = []
            for st in stmts:
                if id(st) in drop:
                    continue
                if not isinstance(st, (ast.FunctionDef, ast.AsyncFunctionDef, ast.ClassDef)):
                    for fld, lst in list(_blocks(st)):
                        new = prune(lst)
                        setattr(st, fld, new if new or fld != "body" else [ast.copy_location(ast.Pass(), st)])
                    if isinstance(st, ast.Try):
                        for h in st.handlers:
                            h.body = prune(h.body) or [ast.copy_location(ast.Pass(), h)]
                out.append(st)
            return out

        fn.body = prune(fn.body) or [ast.copy_location(ast.Pass(), fn)]
    # inlined code binding the same local to literals several times (the helper spliced in more than once):
    # reads in the statements that follow in the same block, up to the next one storing the name, see this literal
    def local_prop(stmts):
        nonlocal changed
        for k, st in enumerate(stmts):
            if not isinstance(st, (ast.FunctionDef, ast.AsyncFunctionDef, ast.ClassDef)):
                for fld, lst in list(_blocks(st)):
                    local_prop(lst)
                if isinstance(st, ast.Try):
                    for h in st.handlers:
                        local_prop(h.body)
            if isinstance(st, (ast.Assign, ast.AnnAssign)) and getattr(st, "value", None) is not None and getattr(st, "_origin", None) is not None:
                tg = st.targets if isinstance(st, ast.Assign) else [st.target]
                if len(tg) == 1 and isinstance(tg[0], ast.Name) and len(stores.get(tg[0].id, [])) > 1 and _is_literal(st.value) and not isinstance(st.value, ast.Tuple):
                    nm, lit = tg[0].id, st.value
                    for nxt in stmts[k + 1:]:
                        if any((isinstance(n, ast.Name) and n.id == nm and isinstance(n.ctx, (ast.Store, ast.Del))) or isinstance(n, (ast.FunctionDef, ast.AsyncFunctionDef, ast.Lambda)) for n in ast.walk(nxt)):
                            break

                        class L(ast.NodeTransformer):
                            def visit_Name(self, n, nm=nm, lit=lit):
                                nonlocal changed
                                if isinstance(n.ctx, ast.Load) and n.id == nm:
                                    changed += 1
                                    return ast.copy_location(clone(lit), n)
                                return n

                        L().visit(nxt)

    local_prop(fn.body)
    if changed:
        ast.fix_missing_locations(fn)
        par = getattr(fn, "_parent", None)
        set_parents(fn)
        fn._parent = par
    return changed


def fold_tables_repo(repo, mentioned: frozenset) -> int:
    n = 0
    for f in list(repo.funcs.values()):
        if isinstance(f, FuncInfo) and f.outer is None:
            n += fold_tables_function(f, mentioned)
    return n


# --------------------------------------------------------------------------- C7: loops over literal names
def unroll_name_loops_function(fn) -> int:
    """C7: ``for name in ("a", "b", ..): <body using name>`` with a literal tuple / list of strings
    (no else, no break / continue, the variable not re-bound) is replaced by one copy of the body per
    entry with the entry substituted; ``getattr(o, "a")`` becomes ``o.a`` and ``setattr(o, "a", v)``
    ``o.a = v``.  Same statements in the same order - value-preserving."""
    from .astutil import clone

    changed = 0

    def _simple(e) -> bool:
        if isinstance(e, ast.Constant):
            return True
        if isinstance(e, ast.Name):
            return True
        if isinstance(e, ast.Attribute):
            return _simple(e.value)
        return False

    class Sub(ast.NodeTransformer):
        def __init__(self, env):
            self.env = env

        def visit_Name(self, n):
            if n.id in self.env and isinstance(n.ctx, ast.Load):
                return ast.copy_location(clone(self.env[n.id]), n)
            return n

    class Fold(ast.NodeTransformer):
        def visit_Call(self, n):
            self.generic_visit(n)
            if isinstance(n.func, ast.Name) and n.func.id == "getattr" and len(n.args) == 2 and not n.keywords and isinstance(n.args[1], ast.Constant) and isinstance(n.args[1].value, str) and n.args[1].value.isidentifier():
                return ast.copy_location(ast.Attribute(value=n.args[0], attr=n.args[1].value, ctx=ast.Load()), n)
            return n

        def visit_JoinedStr(self, n):
            self.generic_visit(n)
            parts = []
            for v in n.values:
                if isinstance(v, ast.Constant) and isinstance(v.value, str):
                    parts.append(v.value)
                elif isinstance(v, ast.FormattedValue) and isinstance(v.value, ast.Constant) and isinstance(v.value.value, str) and v.conversion == -1 and v.format_spec is None:
                    parts.append(v.value.value)
                else:
                    return n
            return ast.copy_location(ast.Constant(value="".join(parts)), n)

        def visit_Expr(self, n):
            self.generic_visit(n)
            c = n.value
            if isinstance(c, ast.Call) and isinstance(c.func, ast.Name) and c.func.id == "setattr" and len(c.args) == 3 and not c.keywords and isinstance(c.args[1], ast.Constant) and isinstance(c.args[1].value, str) and c.args[1].value.isidentifier():
                return ast.copy_location(ast.Assign(targets=[ast.Attribute(value=c.args[0], attr=c.args[1].value, ctx=ast.Store())], value=c.args[2]), n)
            return n

    def targets_of(st) -> list:
        if isinstance(st.target, ast.Name):
            return [st.target.id]
        if isinstance(st.target, (ast.Tuple, ast.List)) and all(isinstance(t, ast.Name) for t in st.target.elts):
            return [t.id for t in st.target.elts]
        return []

    def envs_of(st):
        """One substitution per entry of the literal table, or None."""
        names = targets_of(st)
        it = st.iter
        if not names or not isinstance(it, (ast.Tuple, ast.List)) or not (1 <= len(it.elts) <= 12):
            return None
        out = []
        for e in it.elts:
            if isinstance(st.target, ast.Name):
                if not (isinstance(e, ast.Constant) and isinstance(e.value, str)):
                    return None
                out.append({names[0]: e})
            else:
                if not (isinstance(e, (ast.Tuple, ast.List)) and len(e.elts) == len(names) and all(_simple(x) for x in e.elts)):
                    return None
                out.append(dict(zip(names, e.elts)))
        return out

    def eligible(st) -> bool:
        if not isinstance(st, ast.For) or st.orelse or envs_of(st) is None:
            return False
        if len(st.body) > 8:
            return False
        names = set(targets_of(st))
        # what the entries read must not be re-bound by the body
        roots = {x.id for e in st.iter.elts for x in ast.walk(e) if isinstance(x, ast.Name)}
        for n in ast.walk(ast.Module(body=st.body, type_ignores=[])):
            if isinstance(n, (ast.Break, ast.Continue, ast.Return, ast.Yield, ast.YieldFrom, ast.FunctionDef, ast.Lambda, ast.ClassDef)):
                return False
            if isinstance(n, ast.Name) and (n.id in names or n.id in roots) and isinstance(n.ctx, (ast.Store, ast.Del)):
                return False
        return True

    def rewrite(stmts):
        nonlocal changed
        out = []
        for st in stmts:
            if not isinstance(st, (ast.FunctionDef, ast.AsyncFunctionDef, ast.ClassDef)):
                for fld, lst in list(_blocks(st)):
                    setattr(st, fld, rewrite(lst))
                if isinstance(st, ast.Try):
                    for h in st.handlers:
                        h.body = rewrite(h.body)
            if eligible(st):
                # the variable must not be read after the loop
                for env_ in envs_of(st):
                    for b in st.body:
                        c = Fold().visit(Sub(env_).visit(clone(b)))
                        out.append(ast.copy_location(c, b))
                changed += 1
                continue
            out.append(st)
        return out

    # names read after their loop would change meaning: only unroll when the loop variable is not used outside loops over it
    loop_vars = {v for st in ast.walk(fn) if isinstance(st, ast.For) for v in targets_of(st)}
    outside = set()
    for v in loop_vars:
        inside_ids = {id(n) for st in ast.walk(fn) if isinstance(st, ast.For) and v in targets_of(st) for n in ast.walk(st)}
        decl_only = {id(st.target) for st in ast.walk(fn) if isinstance(st, ast.AnnAssign) and st.value is None and isinstance(st.target, ast.Name)}
        if any(isinstance(n, ast.Name) and n.id == v and id(n) not in inside_ids and id(n) not in decl_only for n in ast.walk(fn)):
            outside.add(v)
    if outside:
        _el = eligible

        def eligible(st, _el=_el):  # noqa: F811
            return _el(st) and not (set(targets_of(st)) & outside)

    fn.body = rewrite(fn.body)
    if changed:
        ast.fix_missing_locations(fn)
        par = getattr(fn, "_parent", None)
        set_parents(fn)
        fn._parent = par
    return changed


def unroll_name_loops_repo(repo) -> int:
    n = 0
    for f in list(repo.funcs.values()):
        if isinstance(f, FuncInfo) and f.outer is None:
            n += unroll_name_loops_function(f.node)
    return n


# --------------------------------------------------------------------------- C8: straight-line re-assignment
def merge_reassignments_function(fn) -> int:
    """C8: ``x = E1`` directly followed (same block) by ``x = E2`` where E2 reads ``x`` exactly once
    becomes ``x = E2[x := E1]`` - the intermediate value had no other reader."""
    from .astutil import clone

    changed = 0

    def single_name_target(st):
        if isinstance(st, ast.Assign) and len(st.targets) == 1 and isinstance(st.targets[0], ast.Name):
            return st.targets[0].id
        if isinstance(st, ast.AnnAssign) and st.value is not None and isinstance(st.target, ast.Name):
            return st.target.id
        return None

    def rewrite(stmts):
        nonlocal changed
        for st in stmts:
            if not isinstance(st, (ast.FunctionDef, ast.AsyncFunctionDef, ast.ClassDef)):
                for fld, lst in list(_blocks(st)):
                    setattr(st, fld, rewrite(lst))
                if isinstance(st, ast.Try):
                    for h in st.handlers:
                        h.body = rewrite(h.body)
        out = []
        for st in stmts:
            prev = out[-1] if out else None
            nm = single_name_target(st)
            if prev is not None and nm is not None and single_name_target(prev) == nm:
                uses = [n for n in ast.walk(st.value) if isinstance(n, ast.Name) and n.id == nm and isinstance(n.ctx, ast.Load)]
                inner_scopes = any(isinstance(n, (ast.Lambda, ast.ListComp, ast.SetComp, ast.DictComp, ast.GeneratorExp)) for n in ast.walk(st.value))
                if len(uses) == 1 and not inner_scopes and nm not in {n.id for n in ast.walk(prev.value) if isinstance(n, ast.Name)}:
                    target_id = id(uses[0])

                    class S(ast.NodeTransformer):
                        def visit_Name(self, n):
                            if id(n) == target_id:
                                return ast.copy_location(clone(prev.value), n)
                            return n

                    st.value = S().visit(st.value)
                    if isinstance(prev, ast.AnnAssign) and isinstance(st, ast.Assign):
                        st = ast.copy_location(ast.AnnAssign(target=prev.target, annotation=prev.annotation, value=st.value, simple=1), st)
                    out[-1] = st
                    changed += 1
                    continue
            out.append(st)
        return out

    fn.body = rewrite(fn.body)
    if changed:
        ast.fix_missing_locations(fn)
        par = getattr(fn, "_parent", None)
        set_parents(fn)
        fn._parent = par
    return changed


def merge_reassignments_repo(repo) -> int:
    n = 0
    for f in list(repo.funcs.values()):
        if isinstance(f, FuncInfo) and f.outer is None:
            n += merge_reassignments_function(f.node)
    return n


# --------------------------------------------------------------------------- C9: index loops
def index_loops_function(fn) -> int:
    """C9: ``for i in range(len(A))`` / ``for i in range(min(len(A), len(B), ..))`` whose body reads the
    sequences only as ``A[i]`` (``i`` and the sequences not re-bound in the body) becomes
    ``for i, a in enumerate(A)`` / ``for i, (a, b) in enumerate(zip(A, B))`` with the element names
    substituted - the same elements in the same order."""
    from .astutil import clone
    from .index import dotted, norm

    changed = 0
    counter = [0]

    # n = len(A) bound once (A never re-bound): range(n) is range(len(A))
    _st: dict[str, int] = {}
    for n_ in ast.walk(fn):
        if isinstance(n_, ast.Name) and isinstance(n_.ctx, (ast.Store, ast.Del)):
            _st[n_.id] = _st.get(n_.id, 0) + 1
    len_names: dict = {}
    for n_ in ast.walk(fn):
        if isinstance(n_, (ast.Assign, ast.AnnAssign)) and isinstance(getattr(n_, "value", None), ast.Call):
            tg_ = n_.targets if isinstance(n_, ast.Assign) else [n_.target]
            v_ = n_.value
            if len(tg_) == 1 and isinstance(tg_[0], ast.Name) and _st.get(tg_[0].id, 0) == 1 and isinstance(v_.func, ast.Name) and v_.func.id == "len" and len(v_.args) == 1 and isinstance(v_.args[0], ast.Name) and _st.get(v_.args[0].id, 0) == 0:
                len_names[tg_[0].id] = v_

    def leading_binding(st, seqs) -> bool:
        """for i in range(len(A)): x = A[i] ; REST   ->   for i, x in enumerate(A): REST
        (A occurs in the body only as A[i]; neither i, x nor A re-bound in REST)."""
        nonlocal changed
        if len(seqs) != 1 or not isinstance(seqs[0], ast.Name) or not st.body or st.orelse:
            return False
        i, A = st.target.id, seqs[0].id
        first = st.body[0]
        if not (isinstance(first, (ast.Assign, ast.AnnAssign)) and getattr(first, "value", None) is not None):
            return False
        tg = first.targets if isinstance(first, ast.Assign) else [first.target]
        v = first.value
        if not (len(tg) == 1 and isinstance(tg[0], ast.Name) and isinstance(v, ast.Subscript) and isinstance(v.value, ast.Name) and v.value.id == A and isinstance(v.slice, ast.Name) and v.slice.id == i):
            return False
        x = tg[0].id
        rest = ast.Module(body=st.body[1:], type_ignores=[])
        for n in ast.walk(rest):
            if isinstance(n, ast.Name) and n.id == A:
                par = getattr(n, "_parent", None)
                if not (isinstance(par, ast.Subscript) and par.value is n and isinstance(par.slice, ast.Name) and par.slice.id == i):
                    return False
            if isinstance(n, ast.Name) and isinstance(n.ctx, (ast.Store, ast.Del)) and n.id in (i, A):
                return False
            if isinstance(n, (ast.FunctionDef, ast.Lambda)):
                return False
        st.target = ast.copy_location(ast.Tuple(elts=[ast.Name(id=i, ctx=ast.Store()), ast.Name(id=x, ctx=ast.Store())], ctx=ast.Store()), st.target)
        st.iter = ast.copy_location(ast.Call(func=ast.Name(id="enumerate", ctx=ast.Load()), args=[ast.Name(id=A, ctx=ast.Load())], keywords=[]), st.iter)
        st.body = st.body[1:] or [ast.copy_location(ast.Pass(), st)]
        changed += 1
        return True

    def seqs_of(it):
        if not (isinstance(it, ast.Call) and isinstance(it.func, ast.Name) and it.func.id == "range" and len(it.args) == 1 and not it.keywords):
            return None
        a = it.args[0]

        def len_of(e):
            if isinstance(e, ast.Call) and isinstance(e.func, ast.Name) and e.func.id == "len" and len(e.args) == 1 and dotted(e.args[0]):
                return e.args[0]
            return None

        if isinstance(a, ast.Name) and a.id in len_names:
            a = len_names[a.id]
        one = len_of(a)
        if one is not None:
            return [one]
        if isinstance(a, ast.Call) and isinstance(a.func, ast.Name) and a.func.id == "min" and len(a.args) >= 2 and all(len_of(x) is not None for x in a.args):
            return [len_of(x) for x in a.args]
        return None

    def rewrite(stmts):
        nonlocal changed
        for st in stmts:
            if not isinstance(st, (ast.FunctionDef, ast.AsyncFunctionDef, ast.ClassDef)):
                for fld, lst in list(_blocks(st)):
                    setattr(st, fld, rewrite(lst))
                if isinstance(st, ast.Try):
                    for h in st.handlers:
                        h.body = rewrite(h.body)
            if not (isinstance(st, ast.For) and isinstance(st.target, ast.Name)):
                continue
            seqs = seqs_of(st.iter)
            if not seqs:
                continue
            if leading_binding(st, seqs):
                continue
            i = st.target.id
            texts = [norm(q) for q in seqs]
            if len(set(texts)) != len(texts):
                continue
            body_mod = ast.Module(body=st.body + st.orelse, type_ignores=[])
            ok = True
            roots = {t.split(".")[0] for t in texts}
            used = {t: 0 for t in texts}
            for n in ast.walk(body_mod):
                if isinstance(n, ast.Name) and isinstance(n.ctx, (ast.Store, ast.Del)) and (n.id == i or n.id in roots):
                    ok = False
                if isinstance(n, (ast.FunctionDef, ast.Lambda)) and any(isinstance(x, ast.Name) and (x.id == i or x.id in roots) for x in ast.walk(n)):
                    ok = False
            # every occurrence of a sequence in the body is `SEQ[i]` (Load)
            sub_ids = {}
            for n in ast.walk(body_mod):
                if isinstance(n, ast.Subscript) and isinstance(n.ctx, ast.Load) and norm(n.value) in used and isinstance(n.slice, ast.Name) and n.slice.id == i:
                    sub_ids[id(n)] = norm(n.value)
                    used[norm(n.value)] += 1
            if not ok or not all(used.values()):
                continue
            # a sequence mentioned otherwise (whole, other index, store) blocks the rewrite
            covered = {id(x) for n in ast.walk(body_mod) if id(n) in sub_ids for x in ast.walk(n.value)}
            for n in ast.walk(body_mod):
                if isinstance(n, (ast.Name, ast.Attribute)) and norm(n) in used and id(n) not in covered:
                    ok = False
            if not ok:
                continue
            counter[0] += 1
            names = {t: f"{t.split('.')[-1]}_item{counter[0]}" for t in texts}

            class S(ast.NodeTransformer):
                def visit_Subscript(self, n):
                    if id(n) in sub_ids:
                        return ast.copy_location(ast.Name(id=names[sub_ids[id(n)]], ctx=ast.Load()), n)
                    return self.generic_visit(n)

            st.body = [S().visit(b) for b in st.body]
            st.orelse = [S().visit(b) for b in st.orelse]
            if len(texts) == 1:
                tgt = ast.Tuple(elts=[ast.Name(id=i, ctx=ast.Store()), ast.Name(id=names[texts[0]], ctx=ast.Store())], ctx=ast.Store())
                it = ast.Call(func=ast.Name(id="enumerate", ctx=ast.Load()), args=[clone(seqs[0])], keywords=[])
            else:
                inner = ast.Tuple(elts=[ast.Name(id=names[t], ctx=ast.Store()) for t in texts], ctx=ast.Store())
                tgt = ast.Tuple(elts=[ast.Name(id=i, ctx=ast.Store()), inner], ctx=ast.Store())
                it = ast.Call(func=ast.Name(id="enumerate", ctx=ast.Load()), args=[ast.Call(func=ast.Name(id="zip", ctx=ast.Load()), args=[clone(q) for q in seqs], keywords=[])], keywords=[])
            st.target = ast.copy_location(tgt, st.target)
            st.iter = ast.copy_location(it, st.iter)
            changed += 1
        return stmts

    fn.body = rewrite(fn.body)
    if changed:
        ast.fix_missing_locations(fn)
        par = getattr(fn, "_parent", None)
        set_parents(fn)
        fn._parent = par
    return changed


def counter_loops_function(fn) -> int:
    """C9b: ``c = 0`` directly followed by ``for T in S: ...; c += 1`` (the increment is the last statement of the
    body, no continue in the body, ``c`` not otherwise assigned and not read after the loop) becomes
    ``for c, T in enumerate(S): ...``."""
    from .astutil import clone, loop_exits

    changed = 0

    def rewrite(stmts):
        nonlocal changed
        for st in stmts:
            if not isinstance(st, (ast.FunctionDef, ast.AsyncFunctionDef, ast.ClassDef)):
                for fld, lst in list(_blocks(st)):
                    setattr(st, fld, rewrite(lst))
                if isinstance(st, ast.Try):
                    for h in st.handlers:
                        h.body = rewrite(h.body)
        out = []
        i = 0
        while i < len(stmts):
            st = stmts[i]
            nxt = stmts[i + 1] if i + 1 < len(stmts) else None
            nm = None
            if isinstance(st, ast.Assign) and len(st.targets) == 1 and isinstance(st.targets[0], ast.Name):
                nm = st.targets[0].id
            elif isinstance(st, ast.AnnAssign) and st.value is not None and isinstance(st.target, ast.Name):
                nm = st.target.id
            val = getattr(st, "value", None)
            if nm and isinstance(val, ast.Constant) and val.value == 0 and type(val.value) is int and isinstance(nxt, ast.For) and not nxt.orelse and nxt.body:
                last = nxt.body[-1]
                inc = isinstance(last, ast.AugAssign) and isinstance(last.op, ast.Add) and isinstance(last.target, ast.Name) and last.target.id == nm and isinstance(last.value, ast.Constant) and last.value.value == 1
                others = [n for n in ast.walk(nxt) if isinstance(n, ast.Name) and n.id == nm and isinstance(n.ctx, (ast.Store, ast.Del)) and n is not getattr(last, "target", None)]
                conts = [e for e in loop_exits(nxt) if isinstance(e, ast.Continue)]
                later = any(isinstance(n, ast.Name) and n.id == nm for s2 in stmts[i + 2 :] for n in ast.walk(s2))
                # the counter must not be visible elsewhere in the function either (conservative)
                total = sum(1 for n in ast.walk(fn) if isinstance(n, ast.Name) and n.id == nm)
                inside = sum(1 for n in ast.walk(nxt) if isinstance(n, ast.Name) and n.id == nm)
                if inc and not others and not conts and not later and total == inside + 1 and nm not in {x.id for x in ast.walk(nxt.target) if isinstance(x, ast.Name)} and nm not in {x.id for x in ast.walk(nxt.iter) if isinstance(x, ast.Name)}:
                    nxt.body = nxt.body[:-1] or [ast.copy_location(ast.Pass(), last)]
                    nxt.target = ast.copy_location(ast.Tuple(elts=[ast.Name(id=nm, ctx=ast.Store()), nxt.target], ctx=ast.Store()), nxt.target)
                    nxt.iter = ast.copy_location(ast.Call(func=ast.Name(id="enumerate", ctx=ast.Load()), args=[nxt.iter], keywords=[]), nxt.iter)
                    out.append(nxt)
                    changed += 1
                    i += 2
                    continue
            out.append(st)
            i += 1
        return out

    fn.body = rewrite(fn.body)
    if changed:
        ast.fix_missing_locations(fn)
        par = getattr(fn, "_parent", None)
        set_parents(fn)
        fn._parent = par
    return changed


def index_loops_repo(repo) -> int:
    n = 0
    for f in list(repo.funcs.values()):
        if isinstance(f, FuncInfo) and f.outer is None:
            n += index_loops_function(f.node)
            n += counter_loops_function(f.node)
    return n


# --------------------------------------------------------------------------- C10: test flags
def inline_test_flags_function(fn) -> int:
    """C10: a local bound exactly once to a side-effect free test over names that are never re-bound in
    the function (``flag = x is not None`` / ``isinstance(x, T)`` / a comparison / and-or-not of those)
    and read only inside tests is replaced by that test where it is read."""
    from .astutil import clone

    stores: dict[str, int] = {}
    for n in ast.walk(fn):
        if isinstance(n, ast.Name) and isinstance(n.ctx, (ast.Store, ast.Del)):
            stores[n.id] = stores.get(n.id, 0) + 1
        elif isinstance(n, ast.arg):
            stores[n.arg] = stores.get(n.arg, 0)
    nested = [n for n in ast.walk(fn) if isinstance(n, (ast.FunctionDef, ast.AsyncFunctionDef, ast.Lambda, ast.ClassDef)) and n is not fn]
    nested_names = {x.id for n in nested for x in ast.walk(n) if isinstance(x, ast.Name)}

    def pure_test(e) -> bool:
        if isinstance(e, ast.BoolOp):
            return all(pure_test(v) for v in e.values)
        if isinstance(e, ast.UnaryOp) and isinstance(e.op, ast.Not):
            return pure_test(e.operand)
        if isinstance(e, ast.Compare):
            return all(isinstance(x, (ast.Name, ast.Constant)) or (isinstance(x, ast.Attribute) and isinstance(x.value, ast.Name)) for x in [e.left] + list(e.comparators)) and all(isinstance(o, (ast.Is, ast.IsNot, ast.Eq, ast.NotEq, ast.Lt, ast.LtE, ast.Gt, ast.GtE)) for o in e.ops)
        if isinstance(e, ast.Call) and isinstance(e.func, ast.Name) and e.func.id == "isinstance" and len(e.args) == 2 and isinstance(e.args[0], ast.Name):
            return True
        return False

    cands = {}
    for st in ast.walk(fn):
        if isinstance(st, (ast.Assign, ast.AnnAssign)) and getattr(st, "value", None) is not None:
            tg = st.targets if isinstance(st, ast.Assign) else [st.target]
            if len(tg) == 1 and isinstance(tg[0], ast.Name) and stores.get(tg[0].id, 0) == 1 and tg[0].id not in nested_names and pure_test(st.value):
                roots = {x.id for x in ast.walk(st.value) if isinstance(x, ast.Name) and x.id != "isinstance"}
                if all(stores.get(r, 0) == 0 for r in roots if r in stores) and not any(isinstance(x, ast.Attribute) for x in ast.walk(st.value)):
                    # must be a statement of the function's top-level block (dominates every use)
                    if any(st is b for b in fn.body):
                        cands[tg[0].id] = st
    # adjacent flag: `flag = <test over names / attributes>` read once, by the test of the NEXT statement
    def attr_test(e) -> bool:
        if isinstance(e, ast.BoolOp):
            return all(attr_test(v) for v in e.values)
        if isinstance(e, ast.UnaryOp) and isinstance(e.op, ast.Not):
            return attr_test(e.operand)
        if isinstance(e, ast.Compare):
            return all(attr_test(x) for x in [e.left] + list(e.comparators))
        if isinstance(e, ast.Call) and isinstance(e.func, ast.Name) and e.func.id in ("bool", "len", "isinstance") and not e.keywords:
            return all(attr_test(a) or isinstance(a, ast.Tuple) for a in e.args)
        if isinstance(e, ast.Attribute):
            return attr_test(e.value)
        return isinstance(e, (ast.Name, ast.Constant))

    def _harmless(st, chains) -> bool:
        """A simple statement between the flag and its reader that cannot change what the flag tested:
        stores to other names / attributes, calls only of numpy functions and builtin constructors."""
        if not isinstance(st, (ast.Assign, ast.AnnAssign, ast.AugAssign)):
            return False
        tg = st.targets if isinstance(st, ast.Assign) else [st.target]
        for t in tg:
            tx = ast.unparse(t)
            if not isinstance(t, (ast.Name, ast.Attribute)) or any(c == tx or c.startswith(tx + ".") or tx.startswith(c + ".") for c in chains):
                return False
        for c in ast.walk(st):
            if isinstance(c, ast.Call):
                fx = ast.unparse(c.func)
                if not (fx.startswith(("np.", "numpy.")) or fx in ("len", "int", "float", "bool", "list", "tuple", "dict", "set", "str")):
                    return False
            elif isinstance(c, (ast.Await, ast.Yield, ast.YieldFrom, ast.NamedExpr, ast.Lambda)):
                return False
        return True

    def _adjacent(stmts):
        # the reader may follow after a few harmless statements: move the flag down to its reader first
        k = 0
        while k < len(stmts):
            a_ = stmts[k]
            if isinstance(a_, (ast.Assign, ast.AnnAssign)) and getattr(a_, "value", None) is not None and not getattr(a_, "_moved", False) and attr_test(a_.value) and not isinstance(a_.value, (ast.Name, ast.Constant, ast.Attribute)):
                tg = a_.targets if isinstance(a_, ast.Assign) else [a_.target]
                if len(tg) == 1 and isinstance(tg[0], ast.Name) and stores.get(tg[0].id, 0) == 1:
                    chains = {ast.unparse(x) for x in ast.walk(a_.value) if isinstance(x, (ast.Attribute, ast.Name)) and not isinstance(getattr(x, "_parent", None), ast.Attribute)}
                    j = k + 1
                    while j < len(stmts) and _harmless(stmts[j], chains | {tg[0].id}) and not any(isinstance(x, ast.Name) and x.id == tg[0].id for x in ast.walk(stmts[j])):
                        j += 1
                    if j > k + 1 and j < len(stmts) and isinstance(stmts[j], ast.If) and any(isinstance(x, ast.Name) and x.id == tg[0].id for x in ast.walk(stmts[j].test)):
                        a_._moved = True  # type: ignore[attr-defined]
                        stmts.insert(j - 1, stmts.pop(k))
                        continue
            k += 1
        for a_, b_ in zip(stmts, stmts[1:]):
            if isinstance(a_, (ast.Assign, ast.AnnAssign)) and getattr(a_, "value", None) is not None and isinstance(b_, ast.If):
                tg = a_.targets if isinstance(a_, ast.Assign) else [a_.target]
                if len(tg) == 1 and isinstance(tg[0], ast.Name) and stores.get(tg[0].id, 0) == 1 and tg[0].id not in nested_names and tg[0].id not in cands and attr_test(a_.value) and not isinstance(a_.value, (ast.Name, ast.Constant, ast.Attribute)):
                    reads = [x for x in ast.walk(fn) if isinstance(x, ast.Name) and x.id == tg[0].id and isinstance(x.ctx, ast.Load)]
                    in_test = [x for x in ast.walk(b_.test) if isinstance(x, ast.Name) and x.id == tg[0].id]
                    if len(reads) == 1 and len(in_test) == 1 and any(a_ is b for b in stmts):
                        adj[tg[0].id] = (a_, stmts)
        for st in stmts:
            if isinstance(st, (ast.FunctionDef, ast.AsyncFunctionDef, ast.ClassDef)):
                continue
            for fld in ("body", "orelse", "finalbody"):
                lst = getattr(st, fld, None)
                if isinstance(lst, list) and lst and isinstance(lst[0], ast.stmt):
                    _adjacent(lst)

    adj: dict = {}
    _adjacent(fn.body)
    n_adj = 0
    for nm, (a_, lst) in adj.items():
        k = next(i for i, x in enumerate(lst) if x is a_)
        iff = lst[k + 1]

        class A(ast.NodeTransformer):
            def visit_Name(self, n, nm=nm, a_=a_):
                if isinstance(n.ctx, ast.Load) and n.id == nm:
                    return ast.copy_location(clone(a_.value), n)
                return n

        iff.test = A().visit(iff.test)
        del lst[k]
        n_adj += 1
    if n_adj:
        ast.fix_missing_locations(fn)
        par = getattr(fn, "_parent", None)
        set_parents(fn)
        fn._parent = par
    if not cands:
        return n_adj
    # every read sits in a test position
    test_ids = set()
    for n in ast.walk(fn):
        if isinstance(n, (ast.If, ast.While, ast.IfExp)):
            for x in ast.walk(n.test):
                test_ids.add(id(x))
        elif isinstance(n, ast.Assert):
            for x in ast.walk(n.test):
                test_ids.add(id(x))
    for n in ast.walk(fn):
        if isinstance(n, ast.Name) and isinstance(n.ctx, ast.Load) and n.id in cands and id(n) not in test_ids:
            cands.pop(n.id, None)
    if not cands:
        return 0
    changed = 0

    class S(ast.NodeTransformer):
        def visit_Name(self, n):
            nonlocal changed
            if isinstance(n.ctx, ast.Load) and n.id in cands:
                changed += 1
                return ast.copy_location(clone(cands[n.id].value), n)
            return n

    S().visit(fn)
    drop = {id(st) for st in cands.values()}
    fn.body = [b for b in fn.body if id(b) not in drop] or [ast.Pass()]
    ast.fix_missing_locations(fn)
    par = getattr(fn, "_parent", None)
    set_parents(fn)
    fn._parent = par
    return changed


def inline_test_flags_repo(repo) -> int:
    n = 0
    for f in list(repo.funcs.values()):
        if isinstance(f, FuncInfo) and f.outer is None:
            n += inline_test_flags_function(f.node)
    return n
