"""Command line: see ../check."""

from __future__ import annotations

import argparse
import os
import sys
from pathlib import Path

HERE = Path(__file__).resolve().parent.parent
sys.path.insert(0, str(HERE))

from sa import harness  # noqa: E402


WATCHDOG_S = int(os.environ.get("SA_WATCHDOG_S") or 900)


def all_props() -> list[str]:
    return sorted(p.stem for p in (HERE / "props").glob("C*.py"))


def main() -> int:
    ap = argparse.ArgumentParser()
    ap.add_argument("prop", nargs="?")
    ap.add_argument("--tier", default=os.environ.get("VERIF_TIER") or "quick")
    ap.add_argument("--repo", default=os.environ.get("VERIF_REPO") or harness.DEFAULT_REPO)
    ap.add_argument("--replay")
    ap.add_argument("--all", action="store_true")
    ap.add_argument("--selftest", action="store_true")
    ap.add_argument("--jobs", type=int, default=16)
    ap.add_argument("--no-evidence", action="store_true", help="do not rewrite evidence/<id>.json (scratch runs against another tree)")
    a = ap.parse_args()
    if a.tier not in ("quick", "thorough"):
        a.tier = "quick"
    if a.selftest:
        from sa import selftest

        return selftest.main(a.prop, a.repo, a.jobs)
    if a.all:
        rc = 0
        for p in all_props():
            r = harness.main_check(p, a.tier, a.repo)
            rc = max(rc, r)
        return rc
    if not a.prop:
        ap.error("property id required")
    if a.no_evidence:
        harness.WRITE_EVIDENCE = False
    # a check that does not answer is as broken as one that answers wrongly: the analysis of one property takes
    # 10-20 s; after 15 minutes it is declared broken (exit 2), never left hanging and never a pass
    import signal

    def _too_long(_sig, _frm):
        print(f"ANALYSIS-ERROR property={a.prop} the analysis did not terminate within {WATCHDOG_S} s", flush=True)
        os._exit(2)

    signal.signal(signal.SIGALRM, _too_long)
    signal.alarm(WATCHDOG_S)
    rc = harness.main_check(a.prop, a.tier, a.repo, a.replay)
    signal.alarm(0)
    if rc == 0 and a.tier == "thorough" and not a.replay:
        from sa import selftest

        st = selftest.main(a.prop, a.repo, a.jobs, quiet=True)
        if st != 0:
            return 2
    return rc


if __name__ == "__main__":
    rc = main()
    sys.stdout.flush()
    os._exit(rc)
