"""More canonical forms (continuation of sa/canon.py); every rewrite preserves behaviour.

Before helper inlining (``surface_forms_repo``):

  C11  walrus in an if-test   ``if (x := E) is not None: A``  ->  ``x = E`` ; ``if x is not None: A``
                              (only when the assignment expression is the first thing the test evaluates)
  C12  bound partial          ``call = partial(F, a, **kw)`` ... ``call(b)``  ->  ``F(a, b, **kw)``
                              (name bound once, used only as a callee, arguments are plain chains that are
                              not re-bound in the function)
  C13  counting zip           ``for i, a, b in zip(count(), A, B)``  ->  ``for i, (a, b) in enumerate(zip(A, B))``
                              ``dict(zip(K, map(F, K)))``            ->  ``{k: F(k) for k in K}``
  C14  exit-stack callback    ``with ExitStack() as s: s.callback(F, a) ; REST``  ->  ``try: REST finally: F(a)``
                              (one callback registered first, the stack not used otherwise)

  C16  constant selection     ``k = A if c else B`` (constants) ; ``d[k] = v``  ->  ``if c: d[A] = v else: d[B] = v``
                              (k read once, by the next statement only)

After helper inlining (``thread_none_tests_repo``):

  C15  jump threading         an if-tree whose every leaf ends with ``m = <value known to be None / not None>``
                              followed by ``if m is not None: B`` (or ``is None`` / truthiness of a str / exception
                              value)  ->  B appended to exactly the leaves where the test holds.  This is what
                              "helper returns the error or None, caller raises it" becomes after the splice.
"""

from __future__ import annotations

import ast

from .astutil import always_exits, clone
from .index import FuncInfo, set_parents


def _blocks(node):
    for fld in ("body", "orelse", "finalbody"):
        lst = getattr(node, fld, None)
        if isinstance(lst, list) and lst and isinstance(lst[0], ast.stmt):
            yield fld, lst
    if isinstance(node, ast.Try):
        for h in node.handlers:
            yield "handler", h.body
    if isinstance(node, ast.Match):
        for c in node.cases:
            yield "case", c.body


def _walk_own(fn):
    """Nodes of fn, not descending into nested defs / lambdas / classes."""
    stack = list(ast.iter_child_nodes(fn))
    while stack:
        n = stack.pop()
        yield n
        if isinstance(n, (ast.FunctionDef, ast.AsyncFunctionDef, ast.ClassDef, ast.Lambda)):
            continue
        stack.extend(ast.iter_child_nodes(n))


def _stores(fn) -> dict[str, int]:
    out: dict[str, int] = {}
    for n in ast.walk(fn):
        if isinstance(n, ast.Name) and isinstance(n.ctx, (ast.Store, ast.Del)):
            out[n.id] = out.get(n.id, 0) + 1
        elif isinstance(n, ast.ExceptHandler) and n.name:
            out[n.name] = out.get(n.name, 0) + 1
        elif isinstance(n, ast.NamedExpr) and isinstance(n.target, ast.Name):
            pass  # counted through the Store context of its target
    return out


def _chain(e) -> bool:
    while isinstance(e, ast.Attribute):
        e = e.value
    return isinstance(e, (ast.Name, ast.Constant))


def _root(e):
    while isinstance(e, ast.Attribute):
        e = e.value
    return e.id if isinstance(e, ast.Name) else None


def _dotted(e) -> str:
    parts = []
    while isinstance(e, ast.Attribute):
        parts.append(e.attr)
        e = e.value
    if isinstance(e, ast.Name):
        parts.append(e.id)
        return ".".join(reversed(parts))
    return ""


# --------------------------------------------------------------------------- C11
def _first_walrus(e):
    """(holder, field, index) of the NamedExpr evaluated first by test ``e``, or None."""
    holder, fld, idx = None, None, None
    cur = e
    path = None
    while True:
        if isinstance(cur, ast.NamedExpr):
            return path
        if isinstance(cur, ast.Compare):
            path = (cur, "left", None)
            cur = cur.left
        elif isinstance(cur, ast.UnaryOp):
            path = (cur, "operand", None)
            cur = cur.operand
        elif isinstance(cur, ast.BoolOp):
            path = (cur, "values", 0)
            cur = cur.values[0]
        else:
            return None


def _hoist_walrus(stmts: list, counter: list) -> list:
    out = []
    for st in stmts:
        if isinstance(st, ast.If):
            while True:
                if isinstance(st.test, ast.NamedExpr) and isinstance(st.test.target, ast.Name):
                    ne = st.test
                    st.test = ast.copy_location(ast.Name(id=ne.target.id, ctx=ast.Load()), ne)
                else:
                    path = _first_walrus(st.test)
                    if path is None:
                        break
                    holder, fld, idx = path
                    ne = getattr(holder, fld) if idx is None else getattr(holder, fld)[idx]
                    if not isinstance(ne.target, ast.Name):
                        break
                    nm = ast.copy_location(ast.Name(id=ne.target.id, ctx=ast.Load()), ne)
                    if idx is None:
                        setattr(holder, fld, nm)
                    else:
                        getattr(holder, fld)[idx] = nm
                out.append(ast.copy_location(ast.Assign(targets=[ast.Name(id=ne.target.id, ctx=ast.Store())], value=ne.value), st))
                counter[0] += 1
        out.append(st)
    return out


# --------------------------------------------------------------------------- C12
def _bound_partials(fn, counter: list) -> None:
    stores = _stores(fn)
    params = {a.arg for a in fn.args.posonlyargs + fn.args.args + fn.args.kwonlyargs}
    cands = {}
    for n in _walk_own(fn):
        if isinstance(n, (ast.Assign, ast.AnnAssign)) and isinstance(getattr(n, "value", None), ast.Call):
            tg = n.targets if isinstance(n, ast.Assign) else [n.target]
            c = n.value
            if len(tg) == 1 and isinstance(tg[0], ast.Name) and _dotted(c.func) in ("partial", "functools.partial") and c.args and stores.get(tg[0].id, 0) == 1 and tg[0].id not in params:
                ok = True
                for a in list(c.args) + [k.value for k in c.keywords]:
                    a_ = a.value if isinstance(a, ast.Starred) else a
                    r = _root(a_)
                    if not _chain(a_) or (r is not None and stores.get(r, 0) > (0 if r in params else 1)):
                        ok = False
                if ok:
                    cands[tg[0].id] = n
    if not cands:
        return
    uses: dict[str, list] = {k: [] for k in cands}
    bad = set()
    for n in ast.walk(fn):
        if isinstance(n, ast.Name) and n.id in cands and isinstance(n.ctx, ast.Load):
            par = getattr(n, "_parent", None)
            if isinstance(par, ast.Call) and par.func is n:
                uses[n.id].append(par)
            else:
                bad.add(n.id)
    for nm, asg in cands.items():
        if nm in bad or not uses[nm]:
            continue
        pc = asg.value
        for call in uses[nm]:
            call.func = clone(pc.args[0])
            call.args = [clone(a) for a in pc.args[1:]] + call.args
            call.keywords = [clone(k) for k in pc.keywords] + call.keywords
        asg._drop = True  # type: ignore[attr-defined]
        counter[0] += 1


def _bound_methods(fn, counter: list) -> None:
    """``m = obj.attr`` (bound once, ``obj`` a plain chain never re-bound, ``m`` used only as a callee)
    ... ``m(x)``  ->  ``obj.attr(x)``."""
    stores = _stores(fn)
    params = {a.arg for a in fn.args.posonlyargs + fn.args.args + fn.args.kwonlyargs}
    cands = {}
    for n in _walk_own(fn):
        if isinstance(n, (ast.Assign, ast.AnnAssign)) and isinstance(getattr(n, "value", None), ast.Attribute) and _chain(n.value):
            tg = n.targets if isinstance(n, ast.Assign) else [n.target]
            r = _root(n.value)
            if len(tg) == 1 and isinstance(tg[0], ast.Name) and stores.get(tg[0].id, 0) == 1 and tg[0].id not in params and r is not None and stores.get(r, 0) <= (0 if r in params else 1):
                cands[tg[0].id] = n
    if not cands:
        return
    uses: dict[str, list] = {k: [] for k in cands}
    bad = set()
    for n in ast.walk(fn):
        if isinstance(n, ast.Name) and n.id in cands and isinstance(n.ctx, ast.Load):
            par = getattr(n, "_parent", None)
            if isinstance(par, ast.Call) and par.func is n:
                uses[n.id].append(par)
            else:
                bad.add(n.id)
    for nm, asg in cands.items():
        if nm in bad or not uses[nm]:
            continue
        for call in uses[nm]:
            call.func = clone(asg.value)
        asg._drop = True  # type: ignore[attr-defined]
        counter[0] += 1


_REF_LOCALS = None


def _reviewed_locals() -> dict:
    """{function qualname -> local names of the reviewed tree} from reference/locals.json.gz."""
    global _REF_LOCALS
    if _REF_LOCALS is None:
        import gzip
        import json
        from pathlib import Path

        try:
            d = json.loads(gzip.open(Path(__file__).resolve().parent.parent / "reference" / "locals.json.gz").read())
            _REF_LOCALS = {q: {nm for _shape, names in v.get("s", []) for nm in names} for q, v in d.items()}
        except Exception:
            _REF_LOCALS = {}
    return _REF_LOCALS


def _attribute_aliases(fn, counter: list, reviewed: frozenset = frozenset()) -> None:
    """``x = p.a`` / ``x: T = p.a.b`` as a top-level statement (``x`` bound once, ``p`` a parameter that is never
    re-bound, no store to ``p.a`` or through it anywhere in the function)  ->  every later ``x`` reads ``p.a``."""
    stores = _stores(fn)
    params = {a.arg for a in fn.args.posonlyargs + fn.args.args + fn.args.kwonlyargs}
    attr_stores = set()
    for n in ast.walk(fn):
        if isinstance(n, ast.Attribute) and isinstance(n.ctx, (ast.Store, ast.Del)):
            attr_stores.add(_dotted(n))
    for k, st in enumerate(list(fn.body)):
        if not (isinstance(st, (ast.Assign, ast.AnnAssign)) and isinstance(getattr(st, "value", None), ast.Attribute)):
            continue
        tg = st.targets if isinstance(st, ast.Assign) else [st.target]
        v = st.value
        r = _root(v)
        txt = _dotted(v)
        if not (len(tg) == 1 and isinstance(tg[0], ast.Name) and txt and r in params and stores.get(r, 0) == 0 and stores.get(tg[0].id, 0) == 1 and tg[0].id not in params):
            continue
        if any(s_ == txt or s_.startswith(txt + ".") or txt.startswith(s_ + ".") for s_ in attr_stores):
            continue
        nm = tg[0].id
        if nm in reviewed:
            continue  # a local of the reviewed tree: the rules may address it by name
        # used before its definition (loops) or in nested functions: leave alone
        if any(isinstance(n, ast.Name) and n.id == nm for s_ in fn.body[:k] for n in ast.walk(s_)):
            continue
        if any(isinstance(n, (ast.FunctionDef, ast.AsyncFunctionDef, ast.Lambda)) and any(isinstance(x, ast.Name) and x.id == nm for x in ast.walk(n)) for s_ in fn.body for n in ast.walk(s_)):
            continue
        # in-place changes through the alias (x.append / x[k] = v / x += ..) keep their meaning under substitution,
        # since x and p.a are the same object; only a re-binding of x would not, and x is bound once

        class S(ast.NodeTransformer):
            def visit_Name(self, n, nm=nm, v=v):
                if n.id == nm and isinstance(n.ctx, ast.Load):
                    return ast.copy_location(clone(v), n)
                return n

        for s_ in fn.body[k + 1:]:
            S().visit(s_)
        st._drop = True  # type: ignore[attr-defined]
        counter[0] += 1


def _percent_format(fn, counter: list) -> None:
    """``"a %r b %s" % (x, y)``  ->  ``f"a {x!r} b {y!s}"`` (constant template of %r / %s / %% only, tuple display)."""
    import re

    class P(ast.NodeTransformer):
        def visit_BinOp(self, node):
            self.generic_visit(node)
            if isinstance(node.op, ast.Mod) and isinstance(node.left, ast.Constant) and isinstance(node.left.value, str) and isinstance(node.right, ast.Tuple) and not any(isinstance(e, ast.Starred) for e in node.right.elts):
                parts = re.split(r"(%[rs%])", node.left.value)
                if "%" in "".join(p_ for p_ in parts if p_ not in ("%r", "%s", "%%")):
                    return node
                specs = [p_ for p_ in parts if p_ in ("%r", "%s")]
                if len(specs) != len(node.right.elts):
                    return node
                vals, k = [], 0
                for p_ in parts:
                    if p_ in ("%r", "%s"):
                        vals.append(ast.FormattedValue(value=node.right.elts[k], conversion=ord(p_[1]), format_spec=None))
                        k += 1
                    elif p_ == "%%":
                        vals.append(ast.Constant(value="%"))
                    elif p_:
                        vals.append(ast.Constant(value=p_))
                counter[0] += 1
                return ast.copy_location(ast.JoinedStr(values=vals), node)
            return node

    P().visit(fn)

    # "a {} b {!r}".format(x, y)  ->  f"a {x} b {y!r}"   (auto-numbered fields without format specs only)
    class F(ast.NodeTransformer):
        def visit_Call(self, node):
            self.generic_visit(node)
            if isinstance(node.func, ast.Attribute) and node.func.attr == "format" and isinstance(node.func.value, ast.Constant) and isinstance(node.func.value.value, str) and not node.keywords and node.args and not any(isinstance(a, ast.Starred) for a in node.args):
                tpl = node.func.value.value
                parts = re.split(r"(\{\{|\}\}|\{(?:![rsa])?\})", tpl)
                rest = "".join(p_ for p_ in parts if not re.fullmatch(r"\{\{|\}\}|\{(?:![rsa])?\}", p_ or ""))
                if "{" in rest or "}" in rest:
                    return node
                fields = [p_ for p_ in parts if p_ and re.fullmatch(r"\{(?:![rsa])?\}", p_)]
                if len(fields) != len(node.args):
                    return node
                vals, k = [], 0
                for p_ in parts:
                    if not p_:
                        continue
                    if re.fullmatch(r"\{(?:![rsa])?\}", p_):
                        conv = ord(p_[2]) if len(p_) == 4 else -1
                        vals.append(ast.FormattedValue(value=node.args[k], conversion=conv, format_spec=None))
                        k += 1
                    elif p_ == "{{":
                        vals.append(ast.Constant(value="{"))
                    elif p_ == "}}":
                        vals.append(ast.Constant(value="}"))
                    else:
                        vals.append(ast.Constant(value=p_))
                counter[0] += 1
                return ast.copy_location(ast.JoinedStr(values=vals), node)
            return node

    F().visit(fn)


def _drop_marked(stmts: list) -> list:
    out = []
    for st in stmts:
        if getattr(st, "_drop", False):
            continue
        for fld, lst in list(_blocks(st)):
            new = _drop_marked(lst)
            if not new:
                new = [ast.copy_location(ast.Pass(), st)]
            lst[:] = new
        out.append(st)
    return out


# --------------------------------------------------------------------------- C13
def _is_count0(e) -> bool:
    if not (isinstance(e, ast.Call) and _dotted(e.func) in ("count", "itertools.count")):
        return False
    vals = list(e.args) + [k.value for k in e.keywords if k.arg == "start"]
    if len(vals) > 1 or any(k.arg not in ("start",) for k in e.keywords):
        return False
    return not vals or (isinstance(vals[0], ast.Constant) and vals[0].value == 0 and not isinstance(vals[0].value, bool))


def _counting_zip(fn, counter: list) -> None:
    for n in list(ast.walk(fn)):
        holder = None
        if isinstance(n, (ast.For, ast.comprehension)):
            holder = n
        if holder is None:
            continue
        it, tg = holder.iter, holder.target
        if not (isinstance(it, ast.Call) and isinstance(it.func, ast.Name) and it.func.id == "zip" and len(it.args) >= 2 and _is_count0(it.args[0])):
            continue
        kws = [k for k in it.keywords if not (k.arg == "strict")]
        if kws or not (isinstance(tg, ast.Tuple) and len(tg.elts) == len(it.args)):
            continue
        strict = [k for k in it.keywords if k.arg == "strict"]
        rest_it = it.args[1:]
        rest_tg = tg.elts[1:]
        if len(rest_it) == 1:
            inner_it, inner_tg = rest_it[0], rest_tg[0]
        else:
            inner_it = ast.copy_location(ast.Call(func=ast.Name(id="zip", ctx=ast.Load()), args=rest_it, keywords=strict), it)
            inner_tg = ast.copy_location(ast.Tuple(elts=rest_tg, ctx=ast.Store()), tg)
        holder.iter = ast.copy_location(ast.Call(func=ast.Name(id="enumerate", ctx=ast.Load()), args=[inner_it], keywords=[]), it)
        holder.target = ast.copy_location(ast.Tuple(elts=[tg.elts[0], inner_tg], ctx=ast.Store()), tg)
        counter[0] += 1
    # dict(zip(K, map(F, K)))  ->  {k: F(k) for k in K}
    class D(ast.NodeTransformer):
        def visit_Call(self, node):
            self.generic_visit(node)
            # dict(a=X, b=Y)  ->  {"a": X, "b": Y}
            if isinstance(node.func, ast.Name) and node.func.id == "dict" and not node.args and node.keywords and all(k.arg for k in node.keywords):
                counter[0] += 1
                return ast.copy_location(ast.Dict(keys=[ast.Constant(value=k.arg) for k in node.keywords], values=[k.value for k in node.keywords]), node)
            # list(map(F, X))  ->  [F(_v) for _v in X]
            if isinstance(node.func, ast.Name) and node.func.id == "list" and len(node.args) == 1 and not node.keywords:
                m = node.args[0]
                if isinstance(m, ast.Call) and isinstance(m.func, ast.Name) and m.func.id == "map" and len(m.args) == 2 and not m.keywords and _chain(m.args[0]) and not isinstance(m.args[0], ast.Constant):
                    counter[0] += 1
                    return ast.copy_location(
                        ast.ListComp(
                            elt=ast.Call(func=clone(m.args[0]), args=[ast.Name(id="_v", ctx=ast.Load())], keywords=[]),
                            generators=[ast.comprehension(target=ast.Name(id="_v", ctx=ast.Store()), iter=m.args[1], ifs=[], is_async=0)],
                        ),
                        node,
                    )
            if isinstance(node.func, ast.Name) and node.func.id == "dict" and len(node.args) == 1 and not node.keywords:
                z = node.args[0]
                if isinstance(z, ast.Call) and isinstance(z.func, ast.Name) and z.func.id == "zip" and len(z.args) == 2 and all(k.arg == "strict" for k in z.keywords):
                    ks, m = z.args
                    if isinstance(m, ast.Call) and isinstance(m.func, ast.Name) and m.func.id == "map" and len(m.args) == 2 and not m.keywords and isinstance(ks, ast.Name) and isinstance(m.args[1], ast.Name) and m.args[1].id == ks.id and _chain(m.args[0]):
                        counter[0] += 1
                        k = ast.Name(id="_k", ctx=ast.Load())
                        return ast.copy_location(
                            ast.DictComp(
                                key=k,
                                value=ast.Call(func=clone(m.args[0]), args=[ast.Name(id="_k", ctx=ast.Load())], keywords=[]),
                                generators=[ast.comprehension(target=ast.Name(id="_k", ctx=ast.Store()), iter=clone(ks), ifs=[], is_async=0)],
                            ),
                            node,
                        )
            return node

    D().visit(fn)


# --------------------------------------------------------------------------- C14
def _is_callback(st, sv: str) -> bool:
    return (
        isinstance(st, ast.Expr)
        and isinstance(st.value, ast.Call)
        and isinstance(st.value.func, ast.Attribute)
        and st.value.func.attr == "callback"
        and isinstance(st.value.func.value, ast.Name)
        and st.value.func.value.id == sv
        and bool(st.value.args)
    )


def _protected(first, rest: list, counter: list, where) -> list:
    """[temporaries..., try: rest finally: F(args)] for the registration statement ``first``."""
    cb = first.value
    args = list(cb.args[1:])
    pre = []
    for i, a in enumerate(args):
        if not _chain(a):
            counter[0] += 1
            tmp = f"_cb{counter[0]}_{i}"
            pre.append(ast.copy_location(ast.Assign(targets=[ast.Name(id=tmp, ctx=ast.Store())], value=a), first))
            args[i] = ast.Name(id=tmp, ctx=ast.Load())
    fin = ast.copy_location(ast.Expr(value=ast.copy_location(ast.Call(func=cb.args[0], args=args, keywords=list(cb.keywords)), cb)), first)
    tr = ast.copy_location(ast.Try(body=rest, handlers=[], orelse=[], finalbody=[fin]), where)
    return pre + [tr]


def _exit_stack(stmts: list, counter: list) -> list:
    out = []
    for st in stmts:
        for fld, lst in list(_blocks(st)):
            lst[:] = _exit_stack(lst, counter)
        if isinstance(st, ast.With) and len(st.items) == 1 and isinstance(st.items[0].context_expr, ast.Call) and _dotted(st.items[0].context_expr.func) in ("ExitStack", "contextlib.ExitStack") and not st.items[0].context_expr.args and isinstance(st.items[0].optional_vars, ast.Name) and len(st.body) >= 2:
            sv = st.items[0].optional_vars.id
            first = st.body[0]
            uses = [n for s_ in st.body for n in ast.walk(s_) if isinstance(n, ast.Name) and n.id == sv]
            if _is_callback(first, sv) and len(uses) == 1:
                out.extend(_protected(first, st.body[1:], counter, st))
                counter[0] += 1
                continue
            # a context entered under a condition:  with ExitStack() as s: if c: e = s.enter_context(CM) ; A  else: B   REST
            #   ->  if c: with CM as e: A ; REST   else: B ; REST
            decls = [b for b in st.body if isinstance(b, ast.AnnAssign) and b.value is None]
            core = [b for b in st.body if not (isinstance(b, ast.AnnAssign) and b.value is None)]
            if core and isinstance(core[0], ast.If) and core[0].body and len(uses) == 1 and sum(len(list(ast.walk(s_))) for s_ in core[1:]) <= 300:
                f0 = core[0].body[0]
                v0 = getattr(f0, "value", None) if isinstance(f0, (ast.Assign, ast.AnnAssign)) else None
                if isinstance(v0, ast.Call) and isinstance(v0.func, ast.Attribute) and v0.func.attr == "enter_context" and isinstance(v0.func.value, ast.Name) and v0.func.value.id == sv and len(v0.args) == 1 and not v0.keywords:
                    tg0 = f0.targets[0] if isinstance(f0, ast.Assign) else f0.target
                    if isinstance(tg0, ast.Name):
                        rest = core[1:]
                        inner = ast.copy_location(ast.With(items=[ast.withitem(context_expr=v0.args[0], optional_vars=ast.Name(id=tg0.id, ctx=ast.Store()))], body=core[0].body[1:] + [clone(s_) for s_ in rest]), st)
                        out.extend(decls)
                        out.append(ast.copy_location(ast.If(test=core[0].test, body=[inner], orelse=list(core[0].orelse) + rest), st))
                        counter[0] += 1
                        continue
            # registered under a condition:  with ExitStack() as s: if c: s.callback(F, a) ; X   REST
            #   ->  if c: try: X ; REST  finally: F(a)   else: REST
            if isinstance(first, ast.If) and not first.orelse and first.body and _is_callback(first.body[0], sv) and len(uses) == 1 and sum(len(list(ast.walk(s_))) for s_ in st.body[1:]) <= 200:
                rest = st.body[1:]
                then = _protected(first.body[0], first.body[1:] + [clone(s_) for s_ in rest], counter, st)
                out.append(ast.copy_location(ast.If(test=first.test, body=then, orelse=rest), st))
                counter[0] += 1
                continue
        out.append(st)
    return out


# --------------------------------------------------------------------------- C16
def _select_constant(fn, counter: list) -> None:
    """``k = A if c else B`` (A, B constants) directly followed by ONE simple statement that reads ``k`` once,
    ``k`` not used anywhere else  ->  ``if c: S[k:=A] else: S[k:=B]``."""
    uses: dict[str, int] = {}
    for n in ast.walk(fn):
        if isinstance(n, ast.Name):
            uses[n.id] = uses.get(n.id, 0) + 1

    def rec(stmts):
        out = []
        i = 0
        while i < len(stmts):
            st = stmts[i]
            if not isinstance(st, (ast.FunctionDef, ast.AsyncFunctionDef, ast.ClassDef)):
                for fld, lst in list(_blocks(st)):
                    lst[:] = rec(lst)
            nxt = stmts[i + 1] if i + 1 < len(stmts) else None
            if isinstance(st, (ast.Assign, ast.AnnAssign)) and isinstance(getattr(st, "value", None), ast.IfExp) and isinstance(nxt, (ast.Assign, ast.AnnAssign, ast.AugAssign, ast.Expr, ast.Return)):
                tg = st.targets if isinstance(st, ast.Assign) else [st.target]
                ie = st.value
                if len(tg) == 1 and isinstance(tg[0], ast.Name) and isinstance(ie.body, ast.Constant) and isinstance(ie.orelse, ast.Constant) and uses.get(tg[0].id, 0) == 2:
                    reads = [x for x in ast.walk(nxt) if isinstance(x, ast.Name) and x.id == tg[0].id and isinstance(x.ctx, ast.Load)]
                    if len(reads) == 1:
                        def sub(val, nm=tg[0].id):
                            class S(ast.NodeTransformer):
                                def visit_Name(self, n):
                                    if n.id == nm and isinstance(n.ctx, ast.Load):
                                        return ast.copy_location(clone(val), n)
                                    return n

                            return S().visit(clone(nxt))

                        out.append(ast.copy_location(ast.If(test=ie.test, body=[sub(ie.body)], orelse=[sub(ie.orelse)]), st))
                        counter[0] += 1
                        i += 2
                        continue
            out.append(st)
            i += 1
        return out

    fn.body = rec(fn.body)


def surface_forms_function(fn, qual: str = "") -> int:
    counter = [0]

    def rec(stmts):
        for st in stmts:
            if isinstance(st, (ast.FunctionDef, ast.AsyncFunctionDef, ast.ClassDef)):
                continue
            for fld, lst in list(_blocks(st)):
                lst[:] = rec(lst)
        return _hoist_walrus(stmts, counter)

    fn.body = rec(fn.body)
    _refresh(fn)
    _bound_partials(fn, counter)
    _bound_methods(fn, counter)
    _percent_format(fn, counter)
    rl = _reviewed_locals()
    from .inline import _reviewed

    if qual in rl or qual in _reviewed():
        _attribute_aliases(fn, counter, frozenset(rl.get(qual, ())))  # only locals an edit introduced
    fn.body = _drop_marked(fn.body) or [ast.Pass()]
    _counting_zip(fn, counter)
    fn.body = _exit_stack(fn.body, counter)
    _select_constant(fn, counter)
    if counter[0]:
        _refresh(fn)
    return counter[0]


def _refresh(fn) -> None:
    ast.fix_missing_locations(fn)
    par = getattr(fn, "_parent", None)
    set_parents(fn)
    fn._parent = par


def surface_forms_repo(repo) -> int:
    n = 0
    for f in list(repo.funcs.values()):
        if isinstance(f, FuncInfo) and f.outer is None:
            n += surface_forms_function(f.node, f.qual)
    return n


# --------------------------------------------------------------------------- C15
def _noneness(e) -> object:
    """True: certainly not None and truthy; False: None; 'U': unknown."""
    if isinstance(e, ast.Constant):
        if e.value is None:
            return False
        if isinstance(e.value, str) and e.value:
            return True
        return "U"
    if isinstance(e, ast.JoinedStr):
        return True if any(isinstance(v, ast.Constant) and v.value for v in e.values) else "U"
    if isinstance(e, ast.Call):
        f = e.func
        if isinstance(f, ast.Name) and (f.id.endswith("Error") or f.id.endswith("Exception") or f.id.endswith("Warning")):
            return True
        if isinstance(f, ast.Attribute) and f.attr == "format" and isinstance(f.value, ast.Constant) and isinstance(f.value.value, str) and f.value.value.strip("{}"):
            return True
    if isinstance(e, ast.BinOp) and isinstance(e.op, ast.Mod) and isinstance(e.left, ast.Constant) and isinstance(e.left.value, str) and e.left.value:
        return True
    return "U"


def _test_on(test, name: str):
    """'notnone' / 'none' when ``test`` asks exactly that about ``name`` (truthiness counts as notnone
    because _noneness only answers True for truthy values)."""
    if isinstance(test, ast.Name) and test.id == name:
        return "notnone"
    if isinstance(test, ast.UnaryOp) and isinstance(test.op, ast.Not) and isinstance(test.operand, ast.Name) and test.operand.id == name:
        return "none"
    if isinstance(test, ast.Compare) and len(test.ops) == 1 and isinstance(test.left, ast.Name) and test.left.id == name and isinstance(test.comparators[0], ast.Constant) and test.comparators[0].value is None:
        if isinstance(test.ops[0], ast.IsNot):
            return "notnone"
        if isinstance(test.ops[0], ast.Is):
            return "none"
    return None


def _leaves(tree: ast.If, name: str):
    """[(block list, noneness)] of every leaf of an if / elif / else tree whose branches all END with
    ``name = value``; None when some branch does not."""
    out = []

    def block(lst):
        if not lst:
            return False
        last = lst[-1]
        if isinstance(last, ast.If) and last.orelse:
            return tree_(last)
        if isinstance(last, (ast.Assign, ast.AnnAssign)) and getattr(last, "value", None) is not None:
            tg = last.targets if isinstance(last, ast.Assign) else [last.target]
            if len(tg) == 1 and isinstance(tg[0], ast.Name) and tg[0].id == name:
                out.append((lst, _noneness(last.value)))
                return True
        if always_exits(lst):
            return True  # never reaches the test
        return False

    def tree_(node):
        return block(node.body) and block(node.orelse)

    return out if tree_(tree) else None


def _raise_first(stmts: list) -> None:
    """Inside a threaded tree: ``if c: A else: <always raises>`` (A does not leave)  ->  ``if not c: <raise>`` ; A."""
    from .cfg import ends_in_raise

    i = 0
    while i < len(stmts):
        st = stmts[i]
        if isinstance(st, ast.If):
            _raise_first(st.body)
            _raise_first(st.orelse)
            if st.orelse and not (len(st.orelse) == 1 and isinstance(st.orelse[0], ast.If)) and ends_in_raise(st.orelse) and not always_exits(st.body):
                neg = st.test.operand if isinstance(st.test, ast.UnaryOp) and isinstance(st.test.op, ast.Not) else ast.copy_location(ast.UnaryOp(op=ast.Not(), operand=st.test), st.test)
                tail = st.body
                st.test, st.body, st.orelse = neg, st.orelse, []
                stmts[i + 1:i + 1] = tail
                i += len(tail)
        i += 1


def thread_none_tests_function(fn) -> int:
    n = 0

    def rec(stmts):
        nonlocal n
        for st in stmts:
            if isinstance(st, (ast.FunctionDef, ast.AsyncFunctionDef, ast.ClassDef)):
                continue
            for fld, lst in list(_blocks(st)):
                lst[:] = rec(lst)
        out = []
        i = 0
        while i < len(stmts):
            st = stmts[i]
            nxt = stmts[i + 1] if i + 1 < len(stmts) else None
            # if-tree whose leaves all end with `r = V`, followed by `return r`: the leaves return V
            if isinstance(st, ast.If) and st.orelse and isinstance(nxt, ast.Return) and isinstance(nxt.value, ast.Name):
                leaves = _leaves(st, nxt.value.id)
                if leaves:
                    for lst, _v in leaves:
                        last = lst[-1]
                        lst[-1] = ast.copy_location(ast.Return(value=last.value), last)
                    out.append(st)
                    i += 2
                    n += 1
                    continue
            if isinstance(st, ast.If) and st.orelse and isinstance(nxt, ast.If):
                names = {nd.id for nd in ast.walk(nxt.test) if isinstance(nd, ast.Name)}
                done = False
                for nm in names:
                    kind = _test_on(nxt.test, nm)
                    if kind is None:
                        continue
                    leaves = _leaves(st, nm)
                    if leaves is None or any(v == "U" for _, v in leaves):
                        continue
                    total = sum(len(list(ast.walk(s_))) for s_ in nxt.body + nxt.orelse)
                    if total > 400:
                        continue
                    for lst, v in leaves:
                        holds = (v is True) if kind == "notnone" else (v is False)
                        lst.extend(clone(s_) for s_ in (nxt.body if holds else nxt.orelse))
                    _raise_first([st])
                    out.append(st)
                    i += 2
                    n += 1
                    done = True
                    break
                if done:
                    continue
            out.append(st)
            i += 1
        return out

    fn.body = rec(fn.body)
    if n:
        _refresh(fn)
    return n


def thread_none_tests_repo(repo) -> int:
    n = 0
    for f in list(repo.funcs.values()):
        if isinstance(f, FuncInfo) and f.outer is None:
            n += thread_none_tests_function(f.node)
    return n


# --------------------------------------------------------------------------- C17
def _occurrences(stmts) -> dict[str, list[int]]:
    occ: dict[str, list[int]] = {}
    for k, st in enumerate(stmts):
        for n in ast.walk(st):
            if isinstance(n, ast.Name):
                occ.setdefault(n.id, []).append(k)
            elif isinstance(n, ast.ExceptHandler) and n.name:
                occ.setdefault(n.name, []).append(k)
            elif isinstance(n, ast.arg):
                occ.setdefault(n.arg, []).append(k)
    return occ


def strip_inline_suffixes_function(fn) -> int:
    """C17: the inliner renames a helper local ``x`` to ``x__N`` when the caller already has an ``x``.  Where the
    caller's ``x`` is dead by then - inside one block, every occurrence of ``x`` sits in a statement BEFORE the
    first one mentioning ``x__N`` (a trailing copy ``x = x__N`` excepted, and dropped), and neither name occurs
    outside that block - the suffix is removed again, so that helpers spliced one after the other read like the
    code they were extracted from."""
    import re

    pat = re.compile(r"^(.+)__(\d+)$")
    params = {a.arg for a in fn.args.posonlyargs + fn.args.args + fn.args.kwonlyargs}
    if fn.args.vararg:
        params.add(fn.args.vararg.arg)
    if fn.args.kwarg:
        params.add(fn.args.kwarg.arg)
    if any(isinstance(n, (ast.Global, ast.Nonlocal)) for n in ast.walk(fn)):
        return 0
    total = {k: len(v) for k, v in _occurrences(fn.body).items()}
    done = 0

    def split_tuples(body):
        # a, b = (x, y)  (all plain names, no overlap)  ->  a = x ; b = y
        out = []
        for st in body:
            if isinstance(st, ast.Assign) and len(st.targets) == 1 and isinstance(st.targets[0], ast.Tuple) and isinstance(st.value, ast.Tuple) and len(st.targets[0].elts) == len(st.value.elts) and all(isinstance(t, ast.Name) for t in st.targets[0].elts) and all(isinstance(v, ast.Name) for v in st.value.elts) and not ({t.id for t in st.targets[0].elts} & {v.id for v in st.value.elts}) and any(pat.match(v.id) for v in st.value.elts):
                for t, v in zip(st.targets[0].elts, st.value.elts):
                    out.append(ast.copy_location(ast.Assign(targets=[t], value=v), st))
            else:
                out.append(st)
        return out

    def block(body) -> list:
        nonlocal done
        for st in body:
            if isinstance(st, (ast.FunctionDef, ast.AsyncFunctionDef, ast.ClassDef)):
                continue
            for fld, lst in list(_blocks(st)):
                lst[:] = block(lst)
        body = split_tuples(body)
        occ = _occurrences(body)
        for nm in sorted(occ, key=lambda s_: (min(occ[s_]) if occ[s_] else 0, s_)):
            m = pat.match(nm)
            if not m or not occ[nm]:
                continue
            base = m.group(1)
            if base in params or pat.match(base):
                continue
            if len(occ[nm]) != total.get(nm, 0) or len(occ.get(base, [])) != total.get(base, 0):
                continue  # one of the names is also used outside this block
            first = min(occ[nm])
            base_occ = list(occ.get(base, []))
            copy_idx = None
            for k in sorted(set(base_occ)):
                st = body[k]
                if k > first and isinstance(st, (ast.Assign, ast.AnnAssign)) and isinstance(getattr(st, "value", None), ast.Name) and st.value.id == nm:
                    tg = st.targets if isinstance(st, ast.Assign) else [st.target]
                    if len(tg) == 1 and isinstance(tg[0], ast.Name) and tg[0].id == base and max(occ[nm]) == k:
                        copy_idx = k
            rest = [k for k in base_occ if k != copy_idx]
            if copy_idx is not None and base_occ.count(copy_idx) != 1:
                continue
            if any(k >= first and not (copy_idx is not None and k > copy_idx) for k in rest):
                continue
            if any(isinstance(n, (ast.FunctionDef, ast.AsyncFunctionDef, ast.Lambda)) and any(isinstance(x, ast.Name) and x.id in (nm, base) for x in ast.walk(n)) for st in body for n in ast.walk(st)):
                continue
            for st in body:
                for n in ast.walk(st):
                    if isinstance(n, ast.Name) and n.id == nm:
                        n.id = base
                    elif isinstance(n, ast.ExceptHandler) and n.name == nm:
                        n.name = base
            moved = [k for k in occ[nm] if k != copy_idx]
            if copy_idx is not None:
                body[copy_idx]._drop = True  # type: ignore[attr-defined]
                occ[base] = [k for k in occ.get(base, []) if k != copy_idx]
                total[base] = total.get(base, 0) - 1
            occ.setdefault(base, []).extend(moved)
            total[base] = total.get(base, 0) + len(moved)
            total[nm] = 0
            occ[nm] = []
            done += 1
        return [st for st in body if not getattr(st, "_drop", False)] or [ast.copy_location(ast.Pass(), body[0])]

    fn.body = block(fn.body)
    if done:
        _refresh(fn)
    return done


def strip_inline_suffixes_repo(repo) -> int:
    n = 0
    for f in list(repo.funcs.values()):
        if isinstance(f, FuncInfo) and f.outer is None and getattr(f, "inlined", None):
            n += strip_inline_suffixes_function(f.node)
    return n


# --------------------------------------------------------------------------- C18
def dead_alias_function(fn) -> int:
    """C18: ``a = b`` (two plain names, top level of the function) where ``b`` is never mentioned afterwards and
    ``a`` never before: from there on ``a`` IS ``b`` under a new name - renamed back and the copy dropped."""
    body = fn.body
    if any(isinstance(n, (ast.FunctionDef, ast.AsyncFunctionDef, ast.Lambda, ast.ClassDef)) for st in body for n in ast.walk(st) if n is not st or isinstance(n, ast.Lambda)):
        pass
    done = 0
    k = 0
    while k < len(body):
        st = body[k]
        if isinstance(st, (ast.Assign, ast.AnnAssign)) and isinstance(getattr(st, "value", None), ast.Name):
            tg = st.targets if isinstance(st, ast.Assign) else [st.target]
            if len(tg) == 1 and isinstance(tg[0], ast.Name) and tg[0].id != st.value.id:
                a, b = tg[0].id, st.value.id
                before = [n for s_ in body[:k] for n in ast.walk(s_) if isinstance(n, ast.Name) and n.id == a]
                after_b = [n for s_ in body[k + 1:] for n in ast.walk(s_) if isinstance(n, ast.Name) and n.id == b]
                nested = any(isinstance(n, (ast.FunctionDef, ast.AsyncFunctionDef, ast.Lambda)) and any(isinstance(x, ast.Name) and x.id in (a, b) for x in ast.walk(n)) for s_ in body for n in ast.walk(s_))
                glob = any(isinstance(n, (ast.Global, ast.Nonlocal)) for s_ in body for n in ast.walk(s_))
                if not before and not after_b and not nested and not glob and not b.startswith("__") and b not in ("self", "cls"):
                    for s_ in body[k + 1:]:
                        for n in ast.walk(s_):
                            if isinstance(n, ast.Name) and n.id == a:
                                n.id = b
                    del body[k]
                    done += 1
                    continue
        k += 1
    if done:
        if not body:
            body.append(ast.Pass())
        _refresh(fn)
    return done


def dead_alias_repo(repo) -> int:
    n = 0
    for f in list(repo.funcs.values()):
        if isinstance(f, FuncInfo) and f.outer is None:
            n += dead_alias_function(f.node)
    return n


# --------------------------------------------------------------------------- C19
def append_loops_function(fn) -> int:
    """C19: ``x = []`` directly followed by ``for t in S: x.append(E)`` (or ``if c: x.append(E)`` as the whole
    body; ``x`` and the loop variables not mentioned otherwise in the loop, loop variables not read after it)
    ->  ``x = [E for t in S if c]`` - the comprehension the loop spells out."""
    done = 0
    allnames: dict[str, int] = {}
    for n in ast.walk(fn):
        if isinstance(n, ast.Name):
            allnames[n.id] = allnames.get(n.id, 0) + 1

    def rec(stmts):
        nonlocal done
        for st in stmts:
            if isinstance(st, (ast.FunctionDef, ast.AsyncFunctionDef, ast.ClassDef)):
                continue
            for fld, lst in list(_blocks(st)):
                lst[:] = rec(lst)
        out = []
        i = 0
        while i < len(stmts):
            st = stmts[i]
            nxt = stmts[i + 1] if i + 1 < len(stmts) else None
            # x = {} ; for t in S: x[K] = V   ->   x = {K: V for t in S}
            if isinstance(st, (ast.Assign, ast.AnnAssign)) and isinstance(getattr(st, "value", None), ast.Dict) and not st.value.keys and isinstance(nxt, ast.For) and not nxt.orelse and len(nxt.body) == 1:
                tg = st.targets if isinstance(st, ast.Assign) else [st.target]
                inner = nxt.body[0]
                if len(tg) == 1 and isinstance(tg[0], ast.Name) and isinstance(inner, ast.Assign) and len(inner.targets) == 1 and isinstance(inner.targets[0], ast.Subscript) and isinstance(inner.targets[0].value, ast.Name) and inner.targets[0].value.id == tg[0].id:
                    x = tg[0].id
                    loopvars = {n.id for n in ast.walk(nxt.target) if isinstance(n, ast.Name)}
                    in_loop = sum(1 for n in ast.walk(nxt) if isinstance(n, ast.Name) and n.id == x)
                    lv_total = {v: allnames.get(v, 0) for v in loopvars}
                    lv_loop = {v: sum(1 for n in ast.walk(nxt) if isinstance(n, ast.Name) and n.id == v) for v in loopvars}
                    if in_loop == 1 and all(lv_total[v] == lv_loop[v] for v in loopvars) and not any(isinstance(n, (ast.Yield, ast.YieldFrom, ast.Await, ast.NamedExpr)) for n in ast.walk(nxt)):
                        comp = ast.DictComp(key=inner.targets[0].slice, value=inner.value, generators=[ast.comprehension(target=nxt.target, iter=nxt.iter, ifs=[], is_async=0)])
                        st.value = ast.copy_location(comp, nxt)
                        out.append(st)
                        done += 1
                        i += 2
                        continue
            if isinstance(st, (ast.Assign, ast.AnnAssign)) and isinstance(getattr(st, "value", None), ast.List) and not st.value.elts and isinstance(nxt, ast.For) and not nxt.orelse and len(nxt.body) == 1:
                tg = st.targets if isinstance(st, ast.Assign) else [st.target]
                if len(tg) == 1 and isinstance(tg[0], ast.Name):
                    x = tg[0].id
                    inner = nxt.body[0]
                    conds = []
                    while isinstance(inner, ast.If) and not inner.orelse and len(inner.body) == 1:
                        conds.append(inner.test)
                        inner = inner.body[0]
                    call = inner.value if isinstance(inner, ast.Expr) and isinstance(inner.value, ast.Call) else None
                    if call is not None and isinstance(call.func, ast.Attribute) and call.func.attr == "append" and isinstance(call.func.value, ast.Name) and call.func.value.id == x and len(call.args) == 1 and not call.keywords:
                        loopvars = {n.id for n in ast.walk(nxt.target) if isinstance(n, ast.Name)}
                        in_loop = sum(1 for n in ast.walk(nxt) if isinstance(n, ast.Name) and n.id == x)
                        lv_total = {v: allnames.get(v, 0) for v in loopvars}
                        lv_loop = {v: sum(1 for n in ast.walk(nxt) if isinstance(n, ast.Name) and n.id == v) for v in loopvars}
                        if in_loop == 1 and all(lv_total[v] == lv_loop[v] for v in loopvars) and not any(isinstance(n, (ast.Yield, ast.YieldFrom, ast.Await, ast.NamedExpr)) for n in ast.walk(nxt)):
                            comp = ast.ListComp(elt=call.args[0], generators=[ast.comprehension(target=nxt.target, iter=nxt.iter, ifs=conds, is_async=0)])
                            st.value = ast.copy_location(comp, nxt)
                            out.append(st)
                            done += 1
                            i += 2
                            continue
            out.append(st)
            i += 1
        return out

    fn.body = rec(fn.body)
    if done:
        _refresh(fn)
    return done


def append_loops_repo(repo) -> int:
    n = 0
    for f in list(repo.funcs.values()):
        if isinstance(f, FuncInfo) and f.outer is None:
            n += append_loops_function(f.node)
    return n


# --------------------------------------------------------------------------- C20
def counting_loops_function(fn) -> int:
    """C20: ``c = 0`` directly followed by ``for t in S: if T: c += 1`` (the whole loop)  ->
    ``c = sum(T for t in S)`` when T is a comparison (bool-valued), else ``c = sum(1 for t in S if T)``.
    ``S`` bound to a tuple / list display by the closest preceding statement of the block is read as that display."""
    done = 0
    allnames: dict[str, int] = {}
    for n in ast.walk(fn):
        if isinstance(n, ast.Name):
            allnames[n.id] = allnames.get(n.id, 0) + 1

    def booly(e) -> bool:
        if isinstance(e, ast.Compare):
            return True
        if isinstance(e, ast.UnaryOp) and isinstance(e.op, ast.Not):
            return True
        if isinstance(e, ast.BoolOp):
            return all(booly(v) for v in e.values)
        return isinstance(e, ast.Call) and isinstance(e.func, ast.Name) and e.func.id in ("isinstance", "bool", "hasattr", "callable")

    def rec(stmts):
        nonlocal done
        for st in stmts:
            if isinstance(st, (ast.FunctionDef, ast.AsyncFunctionDef, ast.ClassDef)):
                continue
            for fld, lst in list(_blocks(st)):
                lst[:] = rec(lst)
        out = []
        i = 0
        while i < len(stmts):
            st = stmts[i]
            nxt = stmts[i + 1] if i + 1 < len(stmts) else None
            if isinstance(st, (ast.Assign, ast.AnnAssign)) and isinstance(getattr(st, "value", None), ast.Constant) and st.value.value == 0 and not isinstance(st.value.value, bool) and isinstance(nxt, ast.For) and not nxt.orelse and len(nxt.body) == 1 and isinstance(nxt.body[0], ast.If) and not nxt.body[0].orelse and len(nxt.body[0].body) == 1:
                tg = st.targets if isinstance(st, ast.Assign) else [st.target]
                inc = nxt.body[0].body[0]
                if len(tg) == 1 and isinstance(tg[0], ast.Name) and isinstance(inc, ast.AugAssign) and isinstance(inc.op, ast.Add) and isinstance(inc.target, ast.Name) and inc.target.id == tg[0].id and isinstance(inc.value, ast.Constant) and inc.value.value == 1:
                    c = tg[0].id
                    test = nxt.body[0].test
                    loopvars = {n.id for n in ast.walk(nxt.target) if isinstance(n, ast.Name)}
                    in_loop = sum(1 for n in ast.walk(nxt) if isinstance(n, ast.Name) and n.id == c)
                    ok = in_loop == 1 and not any(isinstance(n, (ast.Yield, ast.YieldFrom, ast.Await, ast.NamedExpr)) for n in ast.walk(nxt))
                    # loop variables must not be read after the loop (a comprehension does not leak them); a later
                    # re-binding by another loop is fine
                    later = [n for s_ in stmts[i + 2:] for n in ast.walk(s_) if isinstance(n, ast.Name) and n.id in loopvars]
                    for v in loopvars:
                        first = next((n for n in later if n.id == v), None)
                        if first is not None and not isinstance(first.ctx, ast.Store):
                            ok = False
                    if ok:
                        it = nxt.iter
                        if isinstance(it, ast.Name):
                            for prev in reversed(out):
                                if isinstance(prev, (ast.Assign, ast.AnnAssign)) and getattr(prev, "value", None) is not None:
                                    ptg = prev.targets if isinstance(prev, ast.Assign) else [prev.target]
                                    if len(ptg) == 1 and isinstance(ptg[0], ast.Name) and ptg[0].id == it.id:
                                        if isinstance(prev.value, (ast.Tuple, ast.List)) and all(_chain(e) for e in prev.value.elts):
                                            it = clone(prev.value)
                                        break
                                if any(isinstance(n, ast.Name) and n.id == it.id and isinstance(n.ctx, ast.Store) for n in ast.walk(prev)) or not isinstance(prev, (ast.Assign, ast.AnnAssign, ast.Expr, ast.Pass)):
                                    break
                        if booly(test):
                            gen = ast.GeneratorExp(elt=test, generators=[ast.comprehension(target=nxt.target, iter=it, ifs=[], is_async=0)])
                        else:
                            gen = ast.GeneratorExp(elt=ast.Constant(value=1), generators=[ast.comprehension(target=nxt.target, iter=it, ifs=[test], is_async=0)])
                        st.value = ast.copy_location(ast.Call(func=ast.Name(id="sum", ctx=ast.Load()), args=[gen], keywords=[]), nxt)
                        out.append(st)
                        done += 1
                        i += 2
                        continue
            out.append(st)
            i += 1
        return out

    fn.body = rec(fn.body)
    if done:
        _refresh(fn)
    return done


def counting_loops_repo(repo) -> int:
    n = 0
    for f in list(repo.funcs.values()):
        if isinstance(f, FuncInfo) and f.outer is None:
            n += counting_loops_function(f.node)
    return n
