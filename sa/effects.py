"""E8: effect summaries (process-wide RNG, module globals, file access, memoisation)."""

from __future__ import annotations

import ast
from typing import Iterable, Optional

from .index import FuncInfo, Repo, dotted, norm, walk_local
from .resolve import Resolver

RNG_STATE_FUNCS = {
    "numpy.random.seed",
    "numpy.random.set_state",
    "numpy.random.get_state",
    "numpy.random.RandomState",
    "numpy.random.mtrand.RandomState",
    "random.seed",
    "random.setstate",
    "random.getstate",
}
RNG_NON_DRAW = RNG_STATE_FUNCS | {
    "numpy.random.default_rng",
    "numpy.random.Generator",
    "numpy.random.SeedSequence",
    "numpy.random.PCG64",
    "numpy.random.MT19937",
    "numpy.random.BitGenerator",
}


def is_njit(f: FuncInfo) -> bool:
    g: Optional[FuncInfo] = f
    while g is not None:
        for d in g.decorators:
            head = d.split("(")[0]
            if head.split(".")[-1] in ("njit", "jit", "vectorize", "guvectorize", "stencil") and (
                "numba" in head or head in ("njit", "jit", "vectorize", "guvectorize", "stencil")
            ):
                return True
        g = g.outer
    return False


class Effects:
    def __init__(self, repo: Repo, R: Resolver):
        self.repo = repo
        self.R = R
        self._direct: dict[str, dict] = {}
        self._reach_cache: dict[str, set[str]] = {}

    def rng_calls(self, f: FuncInfo) -> list[tuple[ast.Call, str, str]]:
        """(call, external name, kind) with kind in state|draw for calls touching the
        process-wide numpy/stdlib generator directly inside ``f``."""
        out = []
        for n in walk_local(f.node):
            if not isinstance(n, ast.Call):
                continue
            ext = self.repo.external_name(f.module, n.func)
            if not ext:
                continue
            if ext in RNG_STATE_FUNCS:
                out.append((n, ext, "state"))
            elif (ext.startswith("numpy.random.") and ext not in RNG_NON_DRAW and ext.count(".") == 2) or (
                ext.startswith("random.") and ext.count(".") == 1 and ext not in RNG_NON_DRAW and f.module.imports.get("random") == "random"
            ):
                out.append((n, ext, "draw"))
        return out

    def direct(self, f: FuncInfo) -> dict:
        if f.qual in self._direct:
            return self._direct[f.qual]
        calls = self.rng_calls(f)
        d = {
            "draw_interp": [c for c in calls if c[2] == "draw" and not is_njit(f)],
            "draw_njit": [c for c in calls if c[2] == "draw" and is_njit(f)],
            "state": [c for c in calls if c[2] == "state"],
        }
        self._direct[f.qual] = d
        return d

    def functions_reaching(self, kind: str, stop: Iterable[str] = ()) -> set[str]:
        """Quals of functions from which a function with direct effect ``kind`` is reachable."""
        g = self.R.graph()
        rg: dict[str, set[str]] = {}
        for a, bs in g.items():
            for b in bs:
                rg.setdefault(b, set()).add(a)
        stop_s = set(stop)
        seeds = [f.qual for f in self.repo.all_functions() if self.direct(f)[kind]]
        seen: set[str] = set()
        stack = list(seeds)
        while stack:
            q = stack.pop()
            if q in seen:
                continue
            seen.add(q)
            if q in stop_s:
                continue
            stack.extend(rg.get(q, ()))
        return seen
