"""C07 / C16: a parallel (dask) observation sweeping the ADC resolution.  apply_ufunc declares the
output dtype of every bucket from the FIRST (metadata) run; later runs with a wider image type are cast
to it.  Exit 0 when parallel == sequential for every run, 1 otherwise."""
import sys

import numpy as np

import pyxel
from pyxel.detectors import CCD, CCDGeometry, Characteristics, Environment
from pyxel.observation import Observation, ParameterValues
from pyxel.outputs import ObservationOutputs
from pyxel.pipelines import DetectionPipeline, ModelFunction


def build(with_dask):
    detector = CCD(
        geometry=CCDGeometry(row=4, col=4, pixel_vert_size=10.0, pixel_horz_size=10.0, total_thickness=40.0),
        environment=Environment(temperature=200.0),
        characteristics=Characteristics(quantum_efficiency=1.0, charge_to_volt_conversion=1e-6, pre_amplification=100.0, full_well_capacity=100000, adc_bit_resolution=8, adc_voltage_range=(0.0, 10.0)),
    )
    pipeline = DetectionPipeline(
        photon_collection=[ModelFunction(func="pyxel.models.photon_collection.illumination", name="illumination", arguments={"level": 90000.0, "time_scale": 1.0})],
        charge_generation=[ModelFunction(func="pyxel.models.charge_generation.simple_conversion", name="conv")],
        charge_collection=[ModelFunction(func="pyxel.models.charge_collection.simple_collection", name="coll")],
        charge_measurement=[ModelFunction(func="pyxel.models.charge_measurement.simple_measurement", name="meas")],
        readout_electronics=[ModelFunction(func="pyxel.models.readout_electronics.simple_amplifier", name="amp"), ModelFunction(func="pyxel.models.readout_electronics.simple_adc", name="adc")],
    )
    obs = Observation(
        parameters=[ParameterValues(key="detector.characteristics.adc_bit_resolution", values=[8, 16])],
        mode="product",
        with_dask=with_dask,
    )
    return obs, detector, pipeline


res = {}
for with_dask in (False, True):
    obs, det, pipe = build(with_dask)
    dt = pyxel.run_mode(mode=obs, detector=det, pipeline=pipe)
    print(dt.groups)
    node = [g for g in dt.groups if "image" in dt[g].to_dataset().data_vars][0]
    img = dt[node].to_dataset()["image"]
    arr = np.asarray(img.squeeze().values)
    res[with_dask] = arr
    print("dask" if with_dask else "seq ", arr.dtype, arr.reshape(arr.shape[0], -1)[:, 0] if arr.ndim > 1 else arr)
ok = res[False].shape == res[True].shape and np.array_equal(res[False].astype(float), res[True].astype(float))
sys.exit(0 if ok else 1)
