"""C20: "What a model loads always reflects the file's content at the time of the run, not an earlier
version of the same path."  With pyxel.set_options(cache_enabled=True) every load goes through fsspec's
simplecache, which keys its copies by path only: a LOCAL file rewritten between two runs is served from
the stale copy.  Exit 0 when the second load sees the new content, 1 otherwise."""
import sys
import tempfile
from pathlib import Path

import numpy as np

import pyxel

tmp = Path(tempfile.mkdtemp())
cache = tmp / "cache"
f = tmp / "frame.npy"
np.save(f, np.full((3, 3), 1.0))
bad = 0
with pyxel.set_options(cache_enabled=True, cache_folder=str(cache)):
    a = pyxel.load_image(f)
    np.save(f, np.full((3, 3), 2.0))
    b = pyxel.load_image(f)
    print("npy  first:", a[0, 0], "after rewrite:", b[0, 0])
    bad += b[0, 0] != 2.0
    t = tmp / "table.txt"
    t.write_text("1 2\n3 4\n")
    x = pyxel.load_table(t)
    t.write_text("5 6\n7 8\n")
    y = pyxel.load_table(t)
    print("table first:", x.iloc[0, 0], "after rewrite:", y.iloc[0, 0])
    bad += y.iloc[0, 0] != 5
sys.exit(1 if bad else 0)
