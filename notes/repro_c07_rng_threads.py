import numpy as np, warnings, sys
warnings.simplefilter("ignore")
sys.path.insert(0, '/verif/notes')
import pyxel, dask
from pyxel.detectors import CCD, CCDGeometry, Characteristics, Environment
from pyxel.pipelines import DetectionPipeline, ModelFunction
from pyxel.observation import Observation, ParameterValues
from pyxel.exposure import Readout
def ccd():
    return CCD(geometry=CCDGeometry(row=3,col=3,pixel_vert_size=10.,pixel_horz_size=10.,total_thickness=10.), environment=Environment(temperature=100.), characteristics=Characteristics(quantum_efficiency=1.))
def pipeline():
    return DetectionPipeline(
        photon_collection=[ModelFunction(func="pyxel.models.photon_collection.illumination", name="illumination", arguments={"level": 100., "time_scale": 1.0}),
                           ModelFunction(func="probemodels.delay", name="delay", arguments={"seconds": 0.0}),
                           ModelFunction(func="pyxel.models.photon_collection.shot_noise", name="shot_noise", arguments={})])
params = [ParameterValues(key="pipeline.photon_collection.delay.arguments.seconds", values=[0.4, 0.3, 0.2, 0.1])]
res = {}
for label, with_dask, sched in (("sequential", False, "synchronous"), ("dask-sync", True, "synchronous"), ("dask-threads", True, "threads")):
    obs = Observation(parameters=params, mode="product", with_dask=with_dask, readout=Readout(times=[1.0]), pipeline_seed=1)
    with dask.config.set(scheduler=sched, num_workers=4):
        dt = pyxel.run_mode(mode=obs, detector=ccd(), pipeline=pipeline(), with_inherited_coords=True)
        arr = dt["/bucket/photon"].compute() if hasattr(dt["/bucket/photon"], "compute") else dt["/bucket/photon"]
        res[label] = np.asarray(arr.sortby("seconds").transpose("seconds", ...)).reshape(4, -1)
for k, v in res.items():
    print(k, v[:, :3].tolist())
print("threads == sequential:", np.array_equal(res["dask-threads"], res["sequential"]), " sync == sequential:", np.array_equal(res["dask-sync"], res["sequential"]))
