"""C12: "The same limits apply when such a quantity is later changed through its attribute or by a
parameter sweep."  NaN lies outside every documented range; the constructors refuse it, four setters
accepted it (range test written as rejections `x < lo or x > hi`, all false for NaN).

Exit 0 when constructor and setter agree (both refuse), 1 otherwise."""
import sys

from pyxel.detectors import APDCharacteristics, Characteristics, Environment

nan = float("nan")


def refused(fn) -> bool:
    try:
        fn()
    except (ValueError, TypeError):
        return True
    return False


def apd():
    return APDCharacteristics(roic_gain=0.8, avalanche_gain=2.0, pixel_reset_voltage=5.0)


cases = {
    "Characteristics.quantum_efficiency": (lambda: Characteristics(quantum_efficiency=nan), lambda: setattr(Characteristics(quantum_efficiency=0.5), "quantum_efficiency", nan)),
    "APDCharacteristics.quantum_efficiency": (lambda: APDCharacteristics(roic_gain=0.8, avalanche_gain=2.0, pixel_reset_voltage=5.0, quantum_efficiency=nan), lambda: setattr(apd(), "quantum_efficiency", nan)),
    "APDCharacteristics.avalanche_gain": (lambda: APDCharacteristics(roic_gain=0.8, avalanche_gain=nan, pixel_reset_voltage=5.0), lambda: setattr(apd(), "avalanche_gain", nan)),
    "Environment.wavelength": (lambda: Environment(wavelength=nan), lambda: setattr(Environment(wavelength=600.0), "wavelength", nan)),
}
bad = 0
for name, (ctor, setter) in cases.items():
    c, s = refused(ctor), refused(setter)
    print(f"{name}: constructor refuses NaN={c}, setter refuses NaN={s}")
    bad += c != s or not s
sys.exit(1 if bad else 0)
