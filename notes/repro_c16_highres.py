"""C16 (fixed by /repo c661d1d): above 53 bit the digitised codes exceeded full scale / wrapped.

On the tree before the fix:
    apply_simple_adc(signal=[[0, 3.3, 5, 10]], bit_resolution=54, voltage_min=0, voltage_max=3.3, dtype=uint64)
      -> [0, 2**54, 2**54, 2**54]            (full scale is 2**54 - 1)
    bit_resolution=64 -> [0, 0, 0, 0]        (2**64 wraps to 0; numpy warns 'invalid value encountered in cast')
    apply_sar_adc(..., adc_bits=54..63) -> 2**bits for a saturated input
run from /repo: /venv/bin/python /verif/notes/repro_c16_highres.py   (exit 0 = property holds)
"""
import sys
import warnings

import numpy as np

from pyxel.models.readout_electronics.sar_adc import apply_sar_adc
from pyxel.models.readout_electronics.simple_adc import apply_simple_adc
from pyxel.util import get_dtype

bad = 0
for bits in (52, 53, 54, 60, 63, 64):
    with warnings.catch_warnings():
        warnings.simplefilter("ignore")
        a = apply_simple_adc(signal=np.array([[0.0, 3.3, 5.0, 10.0]]), bit_resolution=bits, voltage_min=0.0, voltage_max=3.3, dtype=get_dtype(bits))
        b = apply_sar_adc(signal_2d=np.array([[0.0, 1.0, 3.3, 5.0]]), num_rows=1, num_cols=4, min_volt=0.0, max_volt=3.3, adc_bits=bits)
    fs = 2**bits - 1
    ok = int(a.max()) == fs and int(a[0, 1]) == fs and int(b.max()) == fs
    print(bits, "simple", [int(x) for x in a[0]], "sar", [int(x) for x in b[0]], "full scale", fs, "OK" if ok else "VIOLATION")
    bad += not ok
sys.exit(1 if bad else 0)
