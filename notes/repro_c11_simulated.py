"""C11: the simulated data returned by a calibration cannot be computed (KeyError).

run from /repo/tests/functional_tests/config:  /venv/bin/python /verif/notes/repro_c11_simulated.py
ArchipelagoDataTree.run_evolve re-simulates the champions with ModelFittingDataTree._apply_parameters
(run_pipeline(..., with_inherited_coords=True) -> buckets under '/bucket') while extract_data_3d
indexes data_tree['photon'] ... ['image'] (flat layout).  The lazy '/simulated' arrays therefore fail
as soon as they are computed.
"""
import sys
import tempfile
from pathlib import Path

import pyxel

cfg = pyxel.load("calibration.yaml")
cfg.running_mode.outputs.output_folder = Path(tempfile.mkdtemp()) / "out"
result = pyxel.run_mode(mode=cfg.running_mode, detector=cfg.detector, pipeline=cfg.pipeline)
print(result)
sim = result["/simulated"] if "/simulated" in result.groups or "simulated" in result else None
print("simulated node:", sim)
try:
    ds = result["simulated"].to_dataset().compute()
    print("computed:", {k: v.shape for k, v in ds.data_vars.items()})
    sys.exit(0)
except Exception as exc:  # noqa: BLE001
    print("FAILED:", type(exc).__name__, exc)
    sys.exit(1)
