import numpy as np, warnings, os, tempfile
warnings.simplefilter("ignore")
import pyxel, dask
print(pyxel.__file__)
from pyxel.detectors import CCD, CCDGeometry, Characteristics, Environment
from pyxel.pipelines import DetectionPipeline, ModelFunction, Processor
from pyxel.observation import Observation, ParameterValues
from pyxel.exposure import Readout
def ccd():
    return CCD(geometry=CCDGeometry(row=3,col=3,pixel_vert_size=10.,pixel_horz_size=10.,total_thickness=10.), environment=Environment(temperature=100.), characteristics=Characteristics(quantum_efficiency=1., charge_to_volt_conversion=1e-6, pre_amplification=1., adc_bit_resolution=16, adc_voltage_range=(0.,5.), full_well_capacity=1e6))
def pipeline():
    return DetectionPipeline(
        photon_collection=[ModelFunction(func="pyxel.models.photon_collection.illumination", name="illumination", arguments={"level": 100., "time_scale": 1.0}),
                           ModelFunction(func="pyxel.models.photon_collection.shot_noise", name="shot_noise", arguments={})],
        charge_generation=[ModelFunction(func="pyxel.models.charge_generation.simple_conversion", name="conv", arguments={"quantum_efficiency": 0.5})],
        charge_collection=[ModelFunction(func="pyxel.models.charge_collection.simple_collection", name="coll")],
    )
# --- #4: sequential mode, two parameters: sequential path vs dask path
params = [ParameterValues(key="pipeline.photon_collection.illumination.arguments.level", values=[10., 20., 30.]),
          ParameterValues(key="pipeline.charge_generation.conv.arguments.quantum_efficiency", values=[0.1, 0.2])]
for with_dask in (False, True):
    obs = Observation(parameters=params, mode="sequential", with_dask=with_dask, readout=Readout(times=[1.0]), pipeline_seed=1)
    with dask.config.set(scheduler="synchronous"):
        dt = pyxel.run_mode(mode=obs, detector=ccd(), pipeline=pipeline(), with_inherited_coords=True)
        n = dt["/bucket/pixel"].sizes
    print("#4 with_dask=%s sizes=%s" % (with_dask, dict(n)))
