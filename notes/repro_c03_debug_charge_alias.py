"""C03: "Debug mode additionally records, after each model, the buckets that this model changed".
Two charge-generation models in one group: the record taken after the first must hold the charge as it
was after the first model.  Exit 0 if so, 1 if the first record shows the second model's charge too."""
import sys

import numpy as np

import pyxel
from pyxel.detectors import CCD, CCDGeometry, Characteristics, Environment
from pyxel.exposure import Exposure, Readout
from pyxel.pipelines import DetectionPipeline, ModelFunction

detector = CCD(
    geometry=CCDGeometry(row=3, col=3, pixel_vert_size=10.0, pixel_horz_size=10.0, total_thickness=40.0),
    environment=Environment(temperature=200.0),
    characteristics=Characteristics(quantum_efficiency=1.0, charge_to_volt_conversion=1e-6, pre_amplification=100.0, full_well_capacity=100000, adc_bit_resolution=16, adc_voltage_range=(0.0, 10.0)),
)
pipeline = DetectionPipeline(
    photon_collection=[ModelFunction(func="pyxel.models.photon_collection.illumination", name="illumination", arguments={"level": 100.0, "time_scale": 1.0})],
    charge_generation=[
        ModelFunction(func="pyxel.models.charge_generation.simple_conversion", name="first"),
        ModelFunction(func="pyxel.models.charge_generation.simple_conversion", name="second"),
    ],
)
mode = Exposure(readout=Readout(times=[1.0]))
dt = pyxel.run_mode(mode=mode, detector=detector, pipeline=pipeline, debug=True)
node = "/intermediate"
recs = {}
for g in dt.groups:
    if g.startswith("/intermediate") and "charge" in dt[g].to_dataset().data_vars:
        recs[g] = float(np.asarray(dt[g].to_dataset()["charge"]).ravel()[0])
for g, v in sorted(recs.items()):
    print(g, v)
first = [v for g, v in recs.items() if g.endswith("/first")]
second = [v for g, v in recs.items() if g.endswith("/second")]
ok = first and second and first[0] == 100.0 and second[0] == 200.0
sys.exit(0 if ok else 1)
