import numpy as np, warnings, sys, pickle
warnings.simplefilter("ignore")
import pyxel, dask
from pyxel.detectors import CCD, CCDGeometry, Characteristics, Environment
from pyxel.pipelines import DetectionPipeline, ModelFunction, Processor
from pyxel.observation import Observation, ParameterValues
from pyxel.exposure import Readout
def ccd():
    return CCD(geometry=CCDGeometry(row=3,col=3,pixel_vert_size=10.,pixel_horz_size=10.,total_thickness=10.), environment=Environment(temperature=100.), characteristics=Characteristics(quantum_efficiency=1.))
def pipeline():
    return DetectionPipeline(photon_collection=[ModelFunction(func="pyxel.models.photon_collection.illumination", name="illumination", arguments={"level": 100., "time_scale": 1.0})])
# plain pickle round trip of a processor, then run
pr = Processor(detector=ccd(), pipeline=pipeline())
pr2 = pickle.loads(pickle.dumps(pr))
pr2.detector.set_readout(times=[1.0]); pr2.detector.empty()
pr2.detector.readout_properties.time_step = 1.0
try:
    pr2.run_pipeline(debug=False); print("pickle round-trip run OK")
except Exception as e:
    print("pickle round-trip run FAILS:", type(e).__name__, e)
if __name__ == "__main__":
    params = [ParameterValues(key="pipeline.photon_collection.illumination.arguments.level", values=[10., 20., 30.])]
    obs = Observation(parameters=params, mode="product", with_dask=True, readout=Readout(times=[1.0]))
    try:
        with dask.config.set(scheduler="processes", num_workers=2):
            dt = pyxel.run_mode(mode=obs, detector=ccd(), pipeline=pipeline(), with_inherited_coords=True)
            v = dt["/bucket/photon"].compute()
        print("processes OK", np.asarray(v)[:,0,0,0])
    except Exception as e:
        print("processes FAILS:", type(e).__name__, str(e)[:200])
