import time, threading, itertools
_counter = itertools.count()
def delay(detector, seconds: float = 0.0):
    n = next(_counter)
    time.sleep(0.05 * ((n % 4) + 1))   # first to enter wakes first
