"""C07 / C05: an observation that sweeps `observation.readout.times`.  The dask path runs each
combination with its own readout times (Readout.replace); the sequential path applies the value to the
copied processor but still runs `self.readout`.  Exit 0 when both paths agree, 1 otherwise."""
import sys

import numpy as np

import pyxel
from pyxel.detectors import CCD, CCDGeometry, Characteristics, Environment
from pyxel.exposure import Readout
from pyxel.observation import Observation, ParameterValues
from pyxel.pipelines import DetectionPipeline, ModelFunction


def run(with_dask):
    detector = CCD(
        geometry=CCDGeometry(row=2, col=2, pixel_vert_size=10.0, pixel_horz_size=10.0, total_thickness=40.0),
        environment=Environment(temperature=200.0),
        characteristics=Characteristics(quantum_efficiency=1.0, charge_to_volt_conversion=1e-6, pre_amplification=100.0, full_well_capacity=1e7, adc_bit_resolution=16, adc_voltage_range=(0.0, 10.0)),
    )
    pipeline = DetectionPipeline(
        photon_collection=[ModelFunction(func="pyxel.models.photon_collection.illumination", name="illumination", arguments={"level": 100.0, "time_scale": 1.0})],
    )
    obs = Observation(
        parameters=[ParameterValues(key="observation.readout.times", values=[[1.0], [2.0], [5.0]])],
        mode="sequential",
        readout=Readout(times=[1.0]),
        with_dask=with_dask,
    )
    dt = pyxel.run_mode(mode=obs, detector=detector, pipeline=pipeline)
    node = [g for g in dt.groups if "photon" in dt[g].to_dataset().data_vars][0]
    ph = np.asarray(dt[node].to_dataset()["photon"])
    # one value per run: the photons collected by the run's single readout (each run has its own time label)
    return np.nanmax(ph.reshape(ph.shape[0], -1), axis=1) if ph.ndim > 1 else ph


seq = run(False)
print("sequential photon per run:", seq)
try:
    par = run(True)
    print("dask       photon per run:", par)
except Exception as exc:  # noqa: BLE001
    print("dask path failed:", type(exc).__name__, str(exc)[:100])
    par = None
ok = par is not None and np.array_equal(np.ravel(seq), np.ravel(par))
sys.exit(0 if ok else 1)
