import numpy as np, warnings, tempfile, os, pathlib
warnings.simplefilter("ignore")
import pyxel; print(pyxel.__file__)
from pyxel.outputs.utils import to_txt, to_npy
from pyxel.detectors import CCD, CCDGeometry, Characteristics, Environment, APD, APDGeometry, APDCharacteristics
with tempfile.TemporaryDirectory() as t:
    f = to_txt(pathlib.Path(t), np.ones((2,2)), "a", with_auto_suffix=False)
    before = f.read_text()
    to_txt(pathlib.Path(t), np.zeros((2,2)), "a", with_auto_suffix=False)
    print("#15 to_txt overwrote existing file:", f.read_text() != before)
    to_npy(pathlib.Path(t), np.ones((2,2)), "b", with_auto_suffix=False)
    try: to_npy(pathlib.Path(t), np.ones((2,2)), "b", with_auto_suffix=False)
    except FileExistsError: print("#15 sibling to_npy refuses")
# 17
from pyxel.models.readout_electronics import simple_adc
d = CCD(geometry=CCDGeometry(row=1,col=3), environment=Environment(), characteristics=Characteristics(adc_bit_resolution=16, adc_voltage_range=(0.,10.)))
d.signal.array = np.array([[0.0, 5.0, 10.0]])
simple_adc(d, data_type="uint8"); print("#17 image with uint8 at 16 bit:", d.image.array.tolist(), d.image.dtype)
# 18
c = APDCharacteristics(roic_gain=0.5, avalanche_gain=10.0, pixel_reset_voltage=12.0)
c.avalanche_gain = 20.0
c2 = APDCharacteristics.from_dict(c.to_dict())
print("#18 gain after round trip:", c2.avalanche_gain, "expected", c.avalanche_gain)
