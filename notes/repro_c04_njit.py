"""C04.R5 known finding: Poisson draws inside @numba.njit code ignore numpy seeding.

Two calls of the EMCCD multiplication register under the same `set_random_seed(seed)`
return different arrays (numba keeps its own generator state)."""
import numpy as np

from pyxel.models.charge_transfer.emccd_poisson import multiplication_register_poisson
from pyxel.util import set_random_seed

img = np.full((8, 8), 5.0)
outs = []
for _ in range(2):
    with set_random_seed(1234):
        outs.append(multiplication_register_poisson(img.copy(), total_gain=100, gain_elements=50))
same = np.array_equal(outs[0], outs[1])
print("identical under the same numpy seed:", same)
raise SystemExit(0 if not same else 1)
