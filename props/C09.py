"""C09 - a failing model always fails the run, with its identity attached."""

from __future__ import annotations

import ast

from sa.astutil import returns_of, call_name, calls_in, contains, enclosing_loop, enclosing_tests, expand, kw, names_in, stmt_calls
from sa.cfg import ends_in_raise, handler_catches_all
from sa.index import AnalysisError, ClassInfo, FuncInfo, ancestors, dotted, enclosing_stmt, norm, walk_local, walk_ordered

EXPLANATION = (
    "Error-discipline analysis of the simulation spine (all functions on call paths from run_mode "
    "and from the dask/pygmo entry points down to ModelFunction.__call__): every exception handler "
    "there re-raises on all of its paths, no suppress()/finally-return masks an error, the three "
    "annotating handlers add the group/model name, the run's parameters and the decision vector "
    "before re-raising, sequential runs are started from a comprehension without a handler, and "
    "every archipelago.evolve() is followed by wait_check() before champions are read."
)
NOT_DECIDED = ["that dask and pygmo re-raise with the original type/message (library behaviour)", "exception type inside pygmo worker threads (exempted by the property)"]
ASSUMPTIONS = ["pygmo.archipelago.wait_check re-raises the first island error; wait does not"]

MFC = "pyxel.pipelines.model_function:ModelFunction.__call__"
ROOTS = [
    "pyxel.run:run_mode",
    "pyxel.run:_run_exposure_mode",
    "pyxel.run:_run_observation_mode",
    "pyxel.run:_run_calibration_mode",
    "pyxel.observation.observation_dask:_run_pipelines_tuple_to_array",
    "pyxel.calibration.fitting_datatree:ModelFittingDataTree.fitness",
    "pyxel.calibration.fitting_datatree:ModelFittingDataTree._apply_parameters",
    "pyxel.calibration.fitting_datatree:ModelFittingDataTree.apply_parameters_to_processors",
    "pyxel.calibration.user_defined:DaskBFE.__call__",
    "pyxel.calibration.user_defined:DaskIsland.run_evolve",
    "pyxel.calibration.user_defined:ProblemSerializable.fitness",
    "pyxel.calibration.user_defined:AlgoSerializable.evolve",
    "pyxel.calibration.archipelago_datatree:ArchipelagoDataTree.run_evolve",
    "pyxel.calibration.archipelago_datatree:ArchipelagoDataTree._build",
    "pyxel.calibration.archipelago_datatree:ArchipelagoDataTree.__init__",
    "pyxel.calibration.calibration:Calibration.run_calibration",
]
# functions that run models only through an opaque library hop (pygmo / dask) and are therefore
# not connected to ModelFunction.__call__ in the static call graph: they belong to the spine by fiat
OPAQUE_HOP = {
    "pyxel.calibration.user_defined:DaskBFE.__call__",
    "pyxel.calibration.user_defined:DaskIsland.run_evolve",
    "pyxel.calibration.user_defined:ProblemSerializable.fitness",
    "pyxel.calibration.user_defined:AlgoSerializable.evolve",
    "pyxel.calibration.archipelago_datatree:ArchipelagoDataTree.run_evolve",
    "pyxel.calibration.archipelago_datatree:ArchipelagoDataTree._build",
    "pyxel.calibration.archipelago_datatree:ArchipelagoDataTree.__init__",
    "pyxel.calibration.calibration:Calibration.run_calibration",
    "pyxel.run:_run_calibration_mode",
    "pyxel.calibration.fitting_datatree:ModelFittingDataTree.apply_parameters_to_processors",
}
DEPRECATED = {"pyxel.observation.deprecated", "pyxel.calibration.fitting", "pyxel.calibration.archipelago"}


def spine(ctx) -> list[FuncInfo]:
    roots = [q for q in ROOTS if ctx.repo.has_func(q)]
    missing = [q for q in ROOTS if not ctx.repo.has_func(q)]
    if missing:
        raise AnalysisError(f"spine roots vanished: {missing}")
    fwd = ctx.R.reachable_from(roots)
    g = ctx.R.graph()
    # backward reach from ModelFunction.__call__
    back = set()
    stack = [MFC]
    while stack:
        q = stack.pop()
        if q in back:
            continue
        back.add(q)
        stack.extend(ctx.R.callers(q))
    sp = (fwd & back) | (OPAQUE_HOP & fwd)
    out = [ctx.repo.funcs[q] for q in sorted(sp) if ctx.repo.funcs[q].module.name not in DEPRECATED and "deprecated" not in q]
    return out


ALLOWED_NARROW: dict[str, str] = {}
HOF_ALLOWED_CALLEES = {"pyxel.calibration.archipelago_datatree:ArchipelagoDataTree._build.<locals>.create_island"}
HOF_ALLOWED = {
    "pyxel.calibration.archipelago_datatree:ArchipelagoDataTree._build#executor.map(create_island)": "models run inside pg.island(...): pygmo converts Python exceptions raised by the problem into its own error types, a StopIteration cannot cross that boundary",
    "pyxel.calibration.archipelago_datatree:ArchipelagoDataTree._build#map(create_island)": "same as above (sequential branch)",
}


def _is_import_only(body: list[ast.stmt]) -> bool:
    return all(isinstance(s, (ast.Import, ast.ImportFrom)) for s in body)


def r1_no_swallowing_handler(ctx):
    """Every exception handler in a spine function ends, on all of its paths, in `raise` (bare or `raise ... from`); no handler exits by return / continue / break / falling through."""
    sp = spine(ctx)
    ctx.note("spine: " + ", ".join(f.qual.split(":")[1] for f in sp))
    n = 0
    for f in sp:
        for t in [x for x in walk_local(f.node) if isinstance(x, ast.Try)]:
            for h in t.handlers:
                n += 1
                what = norm(h.type) if h.type is not None else "<bare>"
                c = f"{f.qual}#except:{what}"
                ok = ends_in_raise(h.body)
                if not ok and _is_import_only(t.body):
                    ok = False  # import guards must re-raise too (they do today)
                if not ok and c in ALLOWED_NARROW:
                    ctx.ok(c, ALLOWED_NARROW[c], where=f, node=h)
                    continue
                exits = [type(x).__name__.lower() for x in walk_ordered(h) if isinstance(x, (ast.Return, ast.Continue, ast.Break, ast.Pass))]
                ctx.check(
                    ok,
                    c,
                    "handler re-raises on every path" if ok else f"handler for {what} does not re-raise on every path ({', '.join(exits) or 'falls through'}): a failing model would not fail the run",
                    where=f,
                    node=h,
                )
    ctx.floor(n, 4)
    ctx.floor(len(sp), 18, rule="C09.R1#spine")


def _swallowing_context_managers(ctx):
    """Context managers of the package must let exceptions through: a class whose __exit__ can return
    something truthy, or a @contextmanager generator that catches around its yield without re-raising,
    swallows every error raised inside its `with` block (the whole run is wrapped in set_random_seed)."""
    n = 0
    for ci in ctx.repo.classes.values():
        ex = ci.methods.get("__exit__")
        if ex is None:
            continue
        n += 1
        bad = [r for r in returns_of(ex) if r.value is not None and not (isinstance(r.value, ast.Constant) and r.value.value in (None, False))]
        ctx.check(not bad, ex.qual + "#returns", "__exit__ never returns a truthy value" if not bad else f"`{norm(bad[0])[:50]}`: __exit__ may return a truthy value and then suppresses every exception raised inside the with block", where=ex, node=bad[0] if bad else ex.node)
    for f in ctx.repo.all_functions():
        if not any(d.split(".")[-1] == "contextmanager" for d in f.decorators):
            continue
        n += 1
        for t in [x for x in walk_local(f.node) if isinstance(x, ast.Try)]:
            if not any(isinstance(y, (ast.Yield, ast.YieldFrom)) for b in t.body for y in ast.walk(b)):
                continue
            for h in t.handlers:
                reraises = any(isinstance(x, ast.Raise) for x in ast.walk(ast.Module(body=h.body, type_ignores=[])))
                ctx.check(reraises, f.qual + "#handler", "the handler around the yield re-raises" if reraises else "a @contextmanager catches around its yield without re-raising: errors raised inside the with block are swallowed", where=f, node=h)
    return n


def r2_no_masking_constructs(ctx):
    """No spine function uses contextlib.suppress, a `finally` that returns/breaks/continues, or catches and converts errors into warnings/logs only."""
    sp = spine(ctx)
    sp_quals = {x.qual for x in sp}
    _swallowing_context_managers(ctx)
    n = 0
    for f in sp:
        n += 1
        bad = []
        for node in walk_local(f.node):
            if isinstance(node, (ast.With, ast.AsyncWith)):
                for it in node.items:
                    ce = it.context_expr
                    if isinstance(ce, ast.Call):
                        ext = ctx.repo.external_name(f.module, ce.func) or call_name(ce)
                        if ext.endswith("suppress"):
                            bad.append((ce, "contextlib.suppress swallows exceptions"))
            if isinstance(node, ast.Try) and node.finalbody:
                for x in node.finalbody:
                    for y in ast.walk(x):
                        if isinstance(y, (ast.Return, ast.Break, ast.Continue)):
                            bad.append((y, f"`{type(y).__name__.lower()}` inside finally discards the in-flight exception"))
        # lazily driven iteration (map/filter/...) over a function that runs models: a StopIteration
        # raised inside a run is read as "iterator exhausted" and silently truncates the runs
        aliases = {}
        for st_ in walk_local(f.node):
            if isinstance(st_, (ast.Assign, ast.AnnAssign)) and isinstance(getattr(st_, "value", None), ast.Call) and call_name(st_.value).split(".")[-1] == "partial" and st_.value.args:
                tgt_ = st_.targets[0] if isinstance(st_, ast.Assign) else st_.target
                fv = ctx.R._func_value(f, st_.value.args[0], ctx.R.env(f)) if isinstance(st_.value.args[0], (ast.Name, ast.Attribute)) else None
                if isinstance(tgt_, ast.Name) and fv is not None:
                    aliases[tgt_.id] = fv
        for c_ in [x for x in walk_local(f.node) if isinstance(x, ast.Call)]:
            hof = call_name(c_)
            if hof.split(".")[-1] not in ("map", "filter", "starmap", "imap", "takewhile", "dropwhile", "accumulate", "reduce") or not c_.args:
                continue
            a0 = c_.args[0]
            callee = aliases.get(a0.id) if isinstance(a0, ast.Name) and a0.id in aliases else (ctx.R._func_value(f, a0, ctx.R.env(f)) if isinstance(a0, (ast.Name, ast.Attribute)) else None)
            if isinstance(a0, ast.Call) and call_name(a0).split(".")[-1] == "partial" and a0.args and isinstance(a0.args[0], (ast.Name, ast.Attribute)):
                callee = ctx.R._func_value(f, a0.args[0], ctx.R.env(f))
            if callee is None:
                continue
            key = f"{f.qual}#{hof}({callee.name})"
            runs_models = callee.qual in sp_quals or MFC in ctx.R.reachable_from([callee.qual]) or callee.qual in HOF_ALLOWED_CALLEES
            if not runs_models:
                continue
            if key in HOF_ALLOWED:
                ctx.ok(key, HOF_ALLOWED[key], where=f, node=c_)
            else:
                bad.append((c_, f"{hof}(...) drives {callee.name}: an exception of type StopIteration raised by a model would silently end the iteration instead of failing the run"))
        ctx.check(not bad, f"{f.qual}#masking", "no masking construct" if not bad else bad[0][1], where=f, node=bad[0][0] if bad else f.node)
    # decorators of the package applied to a spine function wrap the WHOLE function: a handler in the
    # wrapper around the call of the wrapped function sees every model error; it must re-raise that
    # very exception (bare `raise` / `raise <bound name>`), never a new one
    n_dec = 0
    for f in sp:
        for d in f.decorators:
            try:
                tgt = ctx.repo.resolve_name(f.module, d.split("(")[0].split(".")[0]) if "." not in d.split("(")[0] else ctx.repo.resolve_dotted(d.split("(")[0])
            except Exception:
                tgt = None
            if not isinstance(tgt, FuncInfo) or tgt.module.name.split(".")[0] != "pyxel":
                continue
            n_dec += 1
            wrapped = set(tgt.params)
            bad = None
            for w in [x for x in ast.walk(tgt.node) if isinstance(x, (ast.FunctionDef, ast.AsyncFunctionDef)) and x is not tgt.node]:
                for t in [x for x in ast.walk(w) if isinstance(x, ast.Try)]:
                    calls_wrapped = any(isinstance(c, ast.Call) and isinstance(c.func, ast.Name) and c.func.id in wrapped for s_ in t.body for c in ast.walk(s_))
                    if not calls_wrapped:
                        continue
                    for h in t.handlers:
                        raises = [x for x in ast.walk(ast.Module(body=h.body, type_ignores=[])) if isinstance(x, ast.Raise)]
                        same = ends_in_raise(h.body) and all(r.exc is None or (isinstance(r.exc, ast.Name) and r.exc.id == h.name) for r in raises)
                        if not same:
                            bad = h
            ctx.check(bad is None, f"{f.qual}#decorator:{d}", f"decorator {d} lets the wrapped function's exceptions through unchanged" if bad is None else f"decorator `{d}` wraps the whole function in a handler for {norm(bad.type) if bad.type is not None else 'everything'} that does not re-raise the caught exception itself: a model error of that type loses its message, type and notes", where=tgt, node=bad if bad is not None else tgt.node)
    ctx.note(f"decorators of the package on spine functions: {n_dec}")
    # dask: results must be computed by the caller (lazy arrays re-raise at compute); nothing on the
    # spine may pre-compute inside a handler-protected region: covered by R1.


def _handler_of(f, call_pred):
    for t in [x for x in walk_local(f.node) if isinstance(x, ast.Try)]:
        if any(call_pred(c) for s in t.body for c in ast.walk(s) if isinstance(c, ast.Call)):
            return t
    return None


def _notes(h: ast.ExceptHandler):
    out = []
    for c in [x for x in ast.walk(h) if isinstance(x, ast.Call)]:
        if isinstance(c.func, ast.Attribute) and c.func.attr == "add_note" and dotted(c.func.value) == h.name:
            out.append(c)
    return out


def _handler_cannot_mask(ctx, f, h: ast.ExceptHandler, label: str) -> None:
    """Whatever the handler does before it re-raises must not be able to raise itself for arbitrary
    values (that would REPLACE the model's error): formatting with !r / !s or no conversion is total,
    a format specification (`{v:>12}`), a subscript (`names[key]`), arithmetic or an unknown call on
    run-time values is not."""
    bad = []
    annotations = {id(x) for st_ in ast.walk(ast.Module(body=h.body, type_ignores=[])) if isinstance(st_, ast.AnnAssign) for x in ast.walk(st_.annotation)}
    for n in ast.walk(ast.Module(body=h.body, type_ignores=[])):
        if id(n) in annotations:
            continue  # type annotations of locals are not evaluated for their value
        if isinstance(n, ast.FormattedValue) and n.format_spec is not None:
            bad.append((n, f"format specification in `{norm(n)[:50]}` (TypeError for lists, arrays, None)"))
        elif isinstance(n, ast.Subscript) and isinstance(n.ctx, ast.Load):
            bad.append((n, f"lookup `{norm(n)[:50]}` (KeyError / IndexError)"))
        elif isinstance(n, ast.BinOp) and isinstance(n.op, (ast.Mod, ast.Div, ast.FloorDiv)):
            bad.append((n, f"`{norm(n)[:50]}`"))
        elif isinstance(n, ast.Call):
            fn = norm(n.func)
            last = fn.split(".")[-1]
            total = last in ("add_note", "items", "keys", "values", "exception", "error", "warning", "info", "debug", "repr", "str", "type", "format_exc", "chain", "from_iterable", "getLogger", "log", "critical") or fn in ("repr", "str", "type", "len", "iter", "__import__")
            if last == "format" and isinstance(n.func, ast.Attribute) and not n.args and all(k.arg for k in n.keywords):
                # "<template>".format(name=value, ...): total when every field of the (constant) template is a
                # supplied keyword without format specification
                tpl = expand(f, n.func.value)
                if isinstance(tpl, ast.Name):
                    tpl = f.module.globals_.get(tpl.id, tpl)
                if isinstance(tpl, ast.Constant) and isinstance(tpl.value, str):
                    import string

                    try:
                        fields = [(fld, spec) for _, fld, spec, _ in string.Formatter().parse(tpl.value) if fld is not None]
                    except ValueError:
                        fields = None
                    total = fields is not None and all(fld.split(".")[0].split("[")[0] in {k.arg for k in n.keywords} and not spec and "[" not in fld for fld, spec in fields)
            if not total and last == "format" and isinstance(n.func, ast.Attribute) and not n.keywords:
                # "<template>".format(a, b): total when the constant template has exactly one plain field ({} / {!r} /
                # {!s}, no format specification, no attribute / index access) per positional argument
                tpl = expand(f, n.func.value)
                if isinstance(tpl, ast.Constant) and isinstance(tpl.value, str):
                    import string

                    try:
                        fields = [(fld, spec) for _, fld, spec, _ in string.Formatter().parse(tpl.value) if fld is not None]
                    except ValueError:
                        fields = None
                    nargs = len(n.args) if not any(isinstance(a_, ast.Starred) for a_ in n.args) else None
                    total = fields is not None and nargs is not None and len(fields) == nargs and all(fld == "" and not spec for fld, spec in fields)
            if not total:
                bad.append((n, f"call `{norm(n)[:50]}`"))
    ctx.check(not bad, f.qual + f"#handler-total:{label}", "the handler only formats with !r / !s and adds notes: it cannot replace the original error" if not bad else f"the handler can raise before it re-raises - {bad[0][1]}: the model's exception (type, message, notes) would be replaced", where=f, node=bad[0][0] if bad else h)


def r3_annotation_present(ctx):
    """ModelGroup.run's handler adds a note naming the group (self._name) and the model (model.name); _run_single_pipeline's handler notes every (key, value) of the run's parameters; fitness notes the decision vector; each then re-raises the same exception."""
    f = ctx.func("pyxel.pipelines.model_group:ModelGroup.run")
    t = _handler_of(f, lambda c: isinstance(c.func, ast.Name) and isinstance(enclosing_loop(c), ast.For) and c.func.id in {x.id for x in ast.walk(enclosing_loop(c).target) if isinstance(x, ast.Name)})
    if t is None:
        ctx.fail(f.qual + "#note", "the model call is not protected by an annotating handler", where=f, node=f.node)
    else:
        hs = [h for h in t.handlers if handler_catches_all(h)]
        ok = len(hs) == 1 and hs[0].name is not None
        if hs:
            _handler_cannot_mask(ctx, f, hs[0], f.name)
        notes = _notes(hs[0]) if ok else []
        txt = " ".join(norm(expand(f, n.args[0])) for n in notes if n.args)
        lp = enclosing_loop(t)
        mcalls = [c for s_ in t.body for c in ast.walk(s_) if isinstance(c, ast.Call) and isinstance(c.func, ast.Name)]
        mv = mcalls[0].func.id if mcalls else "model"
        okn = ok and "self._name" in txt and f"{mv}.name" in txt
        ctx.check(okn, f.qual + "#note", "note names the group and the model that was called" if okn else f"the error note does not name the group (self._name) and the failing model ({mv}.name) directly (note text: {txt[:80] or 'none'})", where=f, node=notes[0] if notes else t)
        bare = [x for x in walk_ordered(hs[0]) if isinstance(x, ast.Raise)] if ok else []
        okr = ok and len(bare) >= 1 and all(x.exc is None for x in bare)
        ctx.check(okr, f.qual + "#reraise", "re-raises the original exception (bare raise)" if okr else "the handler raises a different exception: original type/message lost", where=f, node=bare[0] if bare else t)
    f = ctx.func("pyxel.observation.observation:Observation._run_single_pipeline")
    t = _handler_of(f, lambda c: call_name(c) == "run_pipeline")
    if t is None:
        ctx.fail(f.qual + "#note", "run_pipeline is not protected by an annotating handler", where=f, node=f.node)
    else:
        hs = [h for h in t.handlers if handler_catches_all(h)]
        ok = len(hs) == 1 and hs[0].name is not None
        if hs:
            _handler_cannot_mask(ctx, f, hs[0], f.name)
        notes = _notes(hs[0]) if ok else []
        per_item = False
        for n in notes:
            lp = enclosing_loop(n)
            if isinstance(lp, ast.For) and norm(lp.iter).endswith(".parameters.items()") and isinstance(lp.target, ast.Tuple):
                kv = [dotted(x) for x in lp.target.elts]
                txt = norm(expand(f, n.args[0])) if n.args else ""
                per_item = all(v and v in txt for v in kv)
        ctx.check(ok and per_item, f.qual + "#note", "notes every (key, value) of the failing run's parameters" if ok and per_item else "the failing run's parameter values are not attached to the error", where=f, node=notes[0] if notes else t)
        bare = [x for x in walk_ordered(hs[0]) if isinstance(x, ast.Raise)] if ok else []
        okr = ok and bare and all(x.exc is None for x in bare)
        ctx.check(okr, f.qual + "#reraise", "re-raises the original exception" if okr else "handler does not re-raise the original exception", where=f, node=bare[0] if bare else t)
    f = ctx.func("pyxel.calibration.fitting_datatree:ModelFittingDataTree.fitness")
    t = _handler_of(f, lambda c: call_name(c) == "run_pipeline")
    if t is None:
        ctx.fail(f.qual + "#note", "fitness evaluation is not protected by an annotating handler", where=f, node=f.node)
    else:
        hs = [h for h in t.handlers if handler_catches_all(h)]
        ok = len(hs) == 1 and hs[0].name is not None
        if hs:
            _handler_cannot_mask(ctx, f, hs[0], f.name)
        notes = _notes(hs[0]) if ok else []
        txt = " ".join(norm(expand(f, n.args[0])) for n in notes if n.args)
        okn = ok and f.params[1] in txt
        ctx.check(okn, f.qual + "#note", "notes the decision vector" if okn else "the decision vector is not attached to the error", where=f, node=notes[0] if notes else t)
        bare = [x for x in walk_ordered(hs[0]) if isinstance(x, ast.Raise)] if ok else []
        okr = ok and bare and all(x.exc is None for x in bare)
        ctx.check(okr, f.qual + "#reraise", "re-raises the original exception" if okr else "handler does not re-raise the original exception", where=f, node=bare[0] if bare else t)
        # the return value is produced after the try: no result from the handler
        rets = [r for r in walk_ordered(f.node) if isinstance(r, ast.Return) and any(a is hs[0] for a in ancestors(r))] if ok else []
        ctx.check(not rets, f.qual + "#no-result", "no fitness value is returned from the handler" if not rets else "a fitness value is returned although the model failed", where=f, node=rets[0] if rets else t)


def r4_no_result_on_failure(ctx):
    """Sequential observation: the runs are produced by a comprehension/loop over the entries with no handler between _run_single_pipeline and the caller of run_pipelines, so a failure leaves before later runs start and before any merge; model invocation sites have no handler other than the annotating ones."""
    f = ctx.func("pyxel.observation.observation:Observation.run_pipelines")
    rs = stmt_calls(f, ctx.R, {"pyxel.observation.observation:Observation._run_single_pipeline"})
    if not rs:
        raise AnalysisError("run_pipelines: _run_single_pipeline call not found")
    for c in rs:
        tries = [a for a in ancestors(c) if isinstance(a, ast.Try)]
        ctx.check(not tries, f.qual + "#no-handler", "no handler around the runs: the first failure propagates" if not tries else "a try statement wraps the sequential runs (later runs could start / partial results be returned)", where=f, node=tries[0] if tries else c)
    # "runs that had not started are not executed": the runs are CALLED where they stand - a run handed as a
    # value to an executor / pool / delayed wrapper is queued, and queued runs still execute after a failure
    from sa.index import parent as _parent

    deferred = [n for n in ast.walk(f.node) if isinstance(n, ast.Attribute) and n.attr == "_run_single_pipeline" and not (isinstance(_parent(n), ast.Call) and _parent(n).func is n)]
    ctx.check(not deferred, f.qual + "#called-in-place", "every run is a direct call" if not deferred else f"_run_single_pipeline is handed over as a value ({norm(_parent(deferred[0]))[:70]}): runs are queued up-front and the queued ones still execute after one has failed", where=f, node=deferred[0] if deferred else f.node)
    # lazily evaluated runs (generator handed to something that may stop early) are not accepted
    for c in rs:
        comp = [a for a in ancestors(c) if isinstance(a, (ast.GeneratorExp,))]
        ctx.check(not comp, f.qual + "#eager", "runs are executed eagerly, in order" if not comp else "runs are produced lazily", where=f, node=c)
    # ModelFunction.__call__ and Processor.run_pipeline: no try at all
    for q in (MFC, "pyxel.pipelines.processor:Processor.run_pipeline", "pyxel.exposure.exposure:run_pipeline", "pyxel.observation.observation_dask:_run_pipelines_array_to_datatree", "pyxel.observation.observation_dask:_run_pipelines_tuple_to_array"):
        fn = ctx.func(q)
        tries = [x for x in walk_local(fn.node) if isinstance(x, ast.Try)]
        ctx.check(not tries, q + "#no-try", "no exception handling at all" if not tries else "new exception handling on the model path", where=fn, node=tries[0] if tries else fn.node)


def r5_calibration_surfacing(ctx):
    """Every self._pygmo_archi.evolve() is followed on all paths by wait_check() (never wait()) before champions are read or the loop continues; DaskIsland computes its delayed evolution synchronously."""
    # island creation evaluates the initial populations in worker threads: the islands are taken from an iteration
    # over the map result (which re-raises a worker's exception), never pushed from inside the workers (C07.R5)
    from props.C07 import r5_island_order

    r5_island_order(ctx)
    f = ctx.func("pyxel.calibration.archipelago_datatree:ArchipelagoDataTree.run_evolve")
    g = ctx.cfg(f)
    ev = [c for c in calls_in(f.node) if isinstance(c.func, ast.Attribute) and c.func.attr == "evolve" and "archi" in norm(c.func.value)]
    wc = [c for c in calls_in(f.node) if isinstance(c.func, ast.Attribute) and c.func.attr == "wait_check"]
    w = [c for c in calls_in(f.node) if isinstance(c.func, ast.Attribute) and c.func.attr == "wait"]
    if not ev:
        ctx.fail(f.qual + "#evolve", "no evolve() call found", where=f, node=f.node)
        return
    wn = [n for c in wc for n in g.nodes if n.ast is not None and n.kind == "stmt" and contains(n.ast, c)]
    readers = [c for c in calls_in(f.node) if isinstance(c.func, ast.Attribute) and c.func.attr in ("_get_champions", "get_best_individuals", "get_champions_f", "get_champions_x")]
    for c in ev:
        for n in [n for n in g.nodes if n.ast is not None and n.kind == "stmt" and contains(n.ast, c)]:
            # every path from evolve to a reader / loop header / exit passes wait_check
            targets = [m for r in readers for m in g.nodes if m.ast is not None and m.kind == "stmt" and contains(m.ast, r)] + [g.exit_return]
            lp = enclosing_loop(c)
            if lp is not None:
                targets += g.nodes_of(lp)
            reach = g.reachable(g._succs(n, "n"), "n", avoid=wn)
            ok = bool(wn) and not any(t in reach for t in targets)
            ctx.check(ok, f.qual + "#wait_check", "evolve() is always followed by wait_check() before results are read" if ok else "island failures are not surfaced: evolve() is not followed by wait_check() on every path", where=f, node=c)
    ctx.check(not w, f.qual + "#wait", "no plain wait()" if not w else "wait() does not re-raise island errors", where=f, node=w[0] if w else f.node)
    ctx.trust("pygmo.archipelago.wait_check re-raises the first island error; wait does not")
    di = ctx.func("pyxel.calibration.user_defined:DaskIsland.run_evolve")
    comp = [c for c in calls_in(di.node) if isinstance(c.func, ast.Attribute) and c.func.attr == "compute"]
    ok = len(comp) == 1 and not [a for a in ancestors(comp[0]) if isinstance(a, ast.Try)]
    ctx.check(ok, di.qual + "#compute", "delayed evolution is computed synchronously, unguarded" if ok else "island evolution result is not computed synchronously / is guarded by a handler", where=di, node=comp[0] if comp else di.node)
    ps = ctx.func("pyxel.calibration.user_defined:ProblemSerializable.fitness")
    ok = not [x for x in walk_local(ps.node) if isinstance(x, ast.Try)]
    ctx.check(ok, ps.qual, "forwards to the problem's fitness without handling" if ok else "fitness wrapper handles exceptions", where=ps, node=ps.node)


def r6_group_is_named_correctly(ctx):
    """The note names the model GROUP by ModelGroup._name: every group of the pipeline is built with the name of its own slot (DetectionPipeline.__init__ wiring, shared with C01.R2), otherwise a failure is attributed to another group."""
    from props.C01 import r2_accessor_wiring

    r2_accessor_wiring(ctx)


RULES = [r6_group_is_named_correctly, r1_no_swallowing_handler, r2_no_masking_constructs, r3_annotation_present, r4_no_result_on_failure, r5_calibration_surfacing]
