"""C15 - charge-handling models neither create nor lose charge unaccountably."""

from __future__ import annotations

import ast

from sa.astutil import after_block, precedes  # statement order (never line numbers)
import itertools
import re

from sa.astutil import (
    arg_or_kw,
    call_name,
    calls_in,
    contains,
    enclosing_loop,
    enclosing_tests,
    expand,
    kw,
    local_defs,
    loops_in,
    names_in,
    raising_ifs,
    returns_of,
    stmt_calls,
    stores,
)
from sa.index import AnalysisError, dotted, enclosing_stmt, norm, walk_local, walk_ordered
from sa.poly import Poly, to_poly
from sa.symexec import SymExec

EXPLANATION = (
    "Polynomial-identity and bookkeeping analysis of the charge-handling models: the nine IPC kernel "
    "weights sum to 1 identically in the three couplings; in every path through the innermost loop of "
    "both CDM kernels and in the trap/pixel updates of the persistence functions the sum of the deltas "
    "applied to (pixel, trap occupancy) is the zero polynomial; no per-species result that is used after "
    "a species loop is overwritten instead of accumulated (last-iteration-wins dead store); simple "
    "collection adds the charge array unscaled; full well assigns exactly the compared capacity; the "
    "quantum-efficiency range guard dominates apply_qe, which draws binomial(n=photons, p=qe) or "
    "multiplies; the non-negativity clamps of CDM and clip_diff are present; the two CDM kernels are "
    "isomorphic."
)
NOT_DECIDED = ["the numeric laws as such (idempotence of full well, inequality chains, floating-point totals)", "the clamp `< 0.01 -> 0` discards sub-electron charge by design"]
ASSUMPTIONS = ["np.random.binomial(n, p) returns values in 0..n"]

MC = "pyxel.models.charge_collection"
CDM = "pyxel.models.charge_transfer.cdm"
PER = f"{MC}.persistence"


def r1_ipc_weights(ctx):
    """The nine entries of the IPC kernel sum to the polynomial 1 identically in coupling, diagonal_coupling and anisotropic_coupling (a uniform frame is unchanged)."""
    f = ctx.func(f"{MC}.inter_pixel_capacitance:ipc_kernel")
    rets = [r for r in returns_of(f) if r.value is not None]
    if len(rets) != 1:
        raise AnalysisError("ipc_kernel: single return expected")
    v = expand(f, rets[0].value)
    lit = None
    for c in ast.walk(v):
        if isinstance(c, ast.List) and len(c.elts) == 3 and all(isinstance(r, ast.List) and len(r.elts) == 3 for r in c.elts):
            lit = c
    if lit is None:
        ctx.fail(f.qual, "3x3 kernel literal not found", where=f, node=rets[0])
        return
    total = Poly()
    for row in lit.elts:
        for e in row.elts:
            total = total + to_poly(e)
    ok = total == Poly.const(1)
    ctx.check(ok, f.qual, "sum of the 9 weights == 1 (identically)" if ok else f"the kernel weights sum to {total!r}, not 1: a uniform frame changes", where=f, node=lit, facts={"sum": repr(total)})
    # symmetry: left/right neighbours equal, top/bottom equal, four corners equal
    e = [[norm(x) for x in row.elts] for row in lit.elts]
    sym = e[0][0] == e[0][2] == e[2][0] == e[2][2] and e[0][1] == e[2][1] and e[1][0] == e[1][2]
    ctx.check(sym, f.qual + "#symmetry", "kernel is mirror-symmetric" if sym else "kernel is not mirror-symmetric", where=f, node=lit)
    cv = ctx.func(f"{MC}.inter_pixel_capacitance:compute_ipc_convolution")
    kc = [c for c in calls_in(cv.node) if call_name(c) == "ipc_kernel"]
    ok = len(kc) == 1 and all(dotted(kw(kc[0], k)) == k for k in ("coupling", "diagonal_coupling", "anisotropic_coupling"))
    ctx.check(ok, cv.qual, "kernel built from the like-named couplings" if ok else "couplings are cross-wired into the kernel", where=cv, node=kc[0] if kc else cv.node)
    # "a uniform frame is unchanged" - borders included: on every path the result is the convolution of
    # the input with that kernel, the frame being continued beyond its edges by its own level (filled with
    # the frame's mean, or extended / wrapped / mirrored); zero filling darkens the border of a flat frame
    from sa.paths import enumerate_paths

    inp = cv.params[0]
    n_ret = 0
    for q_ in enumerate_paths(cv.node.body):
        if q_.exit != "return":
            continue
        n_ret += 1
        v_ = q_.value
        okp, why = False, f"returns `{norm(v_)[:70]}`" if v_ is not None else "returns nothing"
        if isinstance(v_, ast.Call) and call_name(v_).split(".")[-1] in ("convolve_fft", "convolve", "convolve2d"):
            a0 = arg_or_kw(v_, 0, "array") or arg_or_kw(v_, 0, "in1")
            a1 = arg_or_kw(v_, 1, "kernel") or arg_or_kw(v_, 1, "in2")
            b = kw(v_, "boundary")
            fv = kw(v_, "fill_value") or kw(v_, "fillvalue")
            bval = b.value if isinstance(b, ast.Constant) else None
            k_ok = isinstance(a1, ast.Call) and call_name(a1) == "ipc_kernel"
            edge_ok = bval in ("extend", "wrap", "symm") or (bval == "fill" and fv is not None and norm(fv) in (f"np.mean({inp})", f"numpy.mean({inp})", f"{inp}.mean()", f"np.nanmean({inp})"))
            okp = a0 is not None and dotted(a0) == inp and k_ok and edge_ok
            why = "convolution of the input with ipc_kernel(...), edges continued at the frame's own level" if okp else (f"the frame is continued beyond its edges with boundary={norm(b) if b is not None else None}, fill_value={norm(fv) if fv is not None else None}: a uniform frame is not a fixed point at the border" if k_ok and a0 is not None and dotted(a0) == inp else f"convolves {norm(a0) if a0 is not None else None} with {norm(a1)[:40] if a1 is not None else None}")
        if not okp:
            why = f"when {q_.cond_texts()[:2]} the result is not the mean-extended convolution with the kernel: " + why if q_.conds else why
        ctx.check(okp, cv.qual + "#edges", why, where=cv, node=q_.exit_node or cv.node)
    ctx.floor(n_ret, 1)


def _innermost_loops(f):
    out = []
    for lp in loops_in(f.node):
        if not any(l is not lp and contains(lp, l) for l in loops_in(lp) if l is not lp):
            out.append(lp)
    return out


def _paths(stmts):
    """All branch selections for the `if`s (as id -> bool) in a statement list."""
    ifs = [n for s in stmts for n in ast.walk(s) if isinstance(n, ast.If)]
    for combo in itertools.product([True, False], repeat=len(ifs)):
        yield {id(i): b for i, b in zip(ifs, combo)}, ifs


def _conservation(ctx, f, body, reservoirs: list[str], label: str, where_node, skip_clamp=True):
    """Sum of the deltas of the reservoirs over every path through `body` is the zero polynomial."""
    sx = SymExec(ctx)
    checked = 0
    for sel, ifs in _paths(body):
        # the designed clamp `if x < 0.01: x = 0.0` is taken as not firing
        def select(st, sel=sel):
            if skip_clamp and _is_clamp(st):
                return False
            return sel[id(st)]

        env = {r: Poly.sym(f"{r}@0") for r in reservoirs}
        sx.run(f, body, env, select=select)
        total = Poly()
        for r in reservoirs:
            total = total + env[r] - Poly.sym(f"{r}@0")
        checked += 1
        if not total.is_zero():
            taken = [norm(i.test) for i in ifs if sel[id(i)] and not _is_clamp(i)]
            ctx.fail(f"{f.qual}#{label}", f"on the path taking {taken or 'no branch'} the reservoirs {reservoirs} change by {total!r} in total: charge is created or lost", where=f, node=where_node, facts={"path": taken})
            return
    ctx.ok(f"{f.qual}#{label}", f"sum of deltas over {reservoirs} is 0 on all {checked} path(s)", where=f, node=where_node, facts={"paths": checked})


def _is_clamp(st: ast.If) -> bool:
    t = st.test
    return isinstance(t, ast.Compare) and len(t.ops) == 1 and isinstance(t.ops[0], ast.Lt) and isinstance(t.comparators[0], ast.Constant) and len(st.body) == 1 and isinstance(st.body[0], ast.Assign) and norm(st.body[0].targets[0]) == norm(t.left) and norm(st.body[0].value) in ("0.0", "0") and not st.orelse


def r2_conservation(ctx):
    """In every path through one innermost iteration of run_cdm_parallel / run_cdm_serial, and in the trap updates of the persistence functions and of clip_trapped_charge, the deltas applied to the pixel reservoir and to the trap reservoir sum to the zero polynomial (captured charge leaves the pixel and enters the trap, released charge the reverse)."""
    for name, trap in (("run_cdm_parallel", "no[j, k]"), ("run_cdm_serial", "sno[i, k]")):
        f = ctx.func(f"{CDM}:{name}")
        inner = _innermost_loops(f)
        inner = [l for l in inner if "array[i, j]" in norm(l)]
        if len(inner) != 1:
            raise AnalysisError(f"{name}: innermost pixel loop not recognised")
        _conservation(ctx, f, inner[0].body, ["array[i, j]", trap], "capture-release", inner[0])
        # freshness: the captured amount is computed from the pixel's CURRENT content, i.e. nothing
        # that feeds the capture is a copy of the pixel taken outside the innermost loop
        lp = inner[0]
        stale = []
        for st_ in walk_ordered(f.node):
            if isinstance(st_, (ast.Assign, ast.AnnAssign)) and getattr(st_, "value", None) is not None and not contains(lp, st_):
                tg_ = st_.targets[0] if isinstance(st_, ast.Assign) else st_.target
                if isinstance(tg_, ast.Name) and any(isinstance(x, ast.Subscript) and dotted(x.value) == "array" for x in ast.walk(st_.value)):
                    used = [n_ for n_ in ast.walk(lp) if isinstance(n_, ast.Name) and isinstance(n_.ctx, ast.Load) and n_.id == tg_.id]
                    if used:
                        stale.append((st_, tg_.id))
        ctx.check(not stale, f"{f.qual}#fresh-pixel", "capture and release are computed from the pixel's current content" if not stale else f"`{stale[0][1]}` is a copy of the pixel taken outside the innermost loop and used inside it: later trap species capture from charge that earlier species already removed (the clamp then creates charge)", where=f, node=stale[0][0] if stale else lp)
    for name in ("compute_simple_persistence", "compute_persistence"):
        f = ctx.func(f"{PER}:{name}")
        lps = [l for l in loops_in(f.node) if isinstance(l, ast.For) and enclosing_loop(l) is None]
        if len(lps) != 2:
            raise AnalysisError(f"{name}: expected two species loops")
        _conservation(ctx, f, lps[0].body, ["pixel_array", "trapped_charge"], "trapping", lps[0])
        # second loop: released charge goes to the output pixel, trap keeps the clipped amount
        lp = lps[1]
        sx = SymExec(ctx)
        env = {"output_pixel": Poly.sym("output_pixel@0"), "trapped_charge": Poly.sym("trapped_charge")}
        sx.run(f, lp.body, env, select=lambda st: False if "is None" in norm(st.test) else True)
        stored = env.get("all_trapped_charge[i]")
        if stored is None or "output_pixel" not in env:
            ctx.fail(f"{f.qual}#release", "release bookkeeping not recognised (trap occupancy not stored back)", where=f, node=lp)
            continue
        total = (env["output_pixel"] - Poly.sym("output_pixel@0")) + (stored - Poly.sym("trapped_charge"))
        ok = total.is_zero()
        ctx.check(ok, f"{f.qual}#release", "charge removed from a trap species is added to the pixels" if ok else f"pixel + trap changes by {total!r} in the clipping loop", where=f, node=lp)
    ct = ctx.func(f"{PER}:clip_trapped_charge")
    rets = [r for r in returns_of(ct) if r.value is not None]
    ok = len(rets) == 1 and isinstance(rets[0].value, ast.Tuple) and len(rets[0].value.elts) == 2
    if ok:
        sx = SymExec(ctx)
        env = {}
        body = [s for s in ct.node.body if not isinstance(s, (ast.For, ast.Return))]
        sx.run(ct, body, env)
        cl, po = (dotted(x) for x in rets[0].value.elts)
        # pixel_output = pixel + (trapped_charge - clipped)
        ok = cl is not None and po is not None and po in env and (env[po] - Poly.sym("pixel") + Poly.sym(cl) - Poly.sym("trapped_charge")).is_zero() if po in env else False
        if not ok and po in env:
            # `clipped` is a copy of trapped_charge before the loop: compare with the symbol of the copy
            d = env[po] - Poly.sym("pixel")
            ok = d == (Poly.sym("trapped_charge") - env.get(cl, Poly.sym(cl))) or d.is_zero() is False and repr(d) in ("0",)
    # direct structural form
    aug = [s for s in walk_ordered(ct.node) if isinstance(s, ast.AugAssign) and dotted(s.target) == "pixel_output"]
    ok2 = len(aug) == 1 and isinstance(aug[0].op, ast.Add) and to_poly(aug[0].value) == to_poly(ast.parse("trapped_charge - clipped", mode="eval").body) and enclosing_loop(aug[0]) is None
    ctx.check(ok2, ct.qual, "pixel_output = pixel + (trapped - clipped)" if ok2 else "charge clipped from the traps is not returned to the pixels", where=ct, node=aug[0] if aug else ct.node)


def r3_no_lost_update(ctx):
    """In the species loops of the persistence functions, a value that is computed inside the loop from per-species inputs and used after the loop must be accumulated (augmented assignment / read-modify-write), not overwritten: otherwise only the last species counts."""
    n = 0
    for name in ("compute_simple_persistence", "compute_persistence", "simple_persistence", "persistence"):
        f = ctx.func(f"{PER}:{name}")
        for lp in [l for l in loops_in(f.node) if isinstance(l, ast.For) and enclosing_loop(l) is None]:
            n += 1
            loop_vars = {x.id for x in ast.walk(lp.target) if isinstance(x, ast.Name)}
            from sa.cfg import defs_reaching
            from sa.astutil import flow_closure

            g = ctx.cfg(f)
            body_nodes = g.loop_body_nodes(g.node_of(lp))
            outside = [nd for nd in g.nodes if nd.ast is not None and nd not in body_nodes and nd is not g.node_of(lp) and after_block(f, lp, nd.ast)]
            bad = None
            for st in walk_ordered(lp):
                if not isinstance(st, (ast.Assign, ast.AnnAssign)) or getattr(st, "value", None) is None:
                    continue
                tg = st.targets if isinstance(st, ast.Assign) else [st.target]
                for t in tg:
                    for x in ast.walk(t):
                        if not (isinstance(x, ast.Name) and isinstance(x.ctx, ast.Store)) or x.id in loop_vars:
                            continue
                        if x.id in names_in(st.value):
                            continue  # read-modify-write: accumulated
                        if not (flow_closure(lp, st.value) & loop_vars):
                            continue  # not per-species data
                        defn = set(g.nodes_of(st))
                        live_out = False
                        for u in outside:
                            probe = u.ast
                            if u.kind in ("test", "while"):
                                probe = u.ast.test
                            elif u.kind == "for":
                                probe = u.ast.iter
                            elif u.kind == "with":
                                probe = ast.Tuple(elts=[i.context_expr for i in u.ast.items], ctx=ast.Load())
                            if any(isinstance(y, ast.Name) and isinstance(y.ctx, ast.Load) and y.id == x.id for y in ast.walk(probe)):
                                if defn & set(defs_reaching(g, x.id, u)):
                                    live_out = True
                        if live_out:
                            bad = (st, x.id)
            ctx.check(bad is None, f"{f.qual}#loop@{lp.lineno - f.node.lineno}", "nothing used after the loop is overwritten per species" if bad is None else f"`{bad[1]}` is overwritten in every iteration and used after the loop: the contribution of all but the last trap species is lost", where=f, node=bad[0] if bad else lp)
    ctx.floor(n, 4)


def apply_qe_laws(ctx):
    """apply_qe, per path: sampling on -> binomial(n = photons truncated to whole photons, p = qe), so the electrons never exceed the incident photons; sampling off -> exactly photons * qe (no rounding of the photons, linear in them)."""
    from sa.paths import enumerate_paths

    aq = ctx.func("pyxel.models.charge_generation.photoelectrons:apply_qe")
    a, q, b = aq.params[:3]
    rp = [q_ for q_ in enumerate_paths(aq.node.body) if q_.exit == "return" and q_.value is not None]
    bino = [q_.value for q_ in rp if q_.holds(b) is True]
    prod = [q_.value for q_ in rp if q_.holds(b) is False]
    ok = len(bino) == 1 and len(prod) == 1 and len(rp) == 2
    why = "apply_qe no longer draws binomial(n=photons, p=qe) / returns photons * qe"
    if ok:
        bc = [c_ for c_ in ast.walk(bino[0]) if isinstance(c_, ast.Call) and call_name(c_).endswith("binomial")]
        ok = len(bc) == 1 and kw(bc[0], "n") is not None and dotted(kw(bc[0], "p")) == q
        if ok:
            n_txt = norm(kw(bc[0], "n"))
            trunc_forms = {f"{a}.astype(int)", f"{a}.astype(np.int64)", f"{a}.astype('int')", f"np.floor({a}).astype(int)", f"np.trunc({a}).astype(int)", f"np.asarray({a}, dtype=int)", f"np.floor({a})", f"np.trunc({a})"}
            ok = n_txt in trunc_forms
            if not ok:
                why = f"the number of binomial trials is {n_txt}: not the incident photons truncated to whole photons (rounding up lets a pixel yield more electrons than photons)"
        if ok:
            rounding = [c_ for c_ in ast.walk(prod[0]) if isinstance(c_, ast.Call) and (call_name(c_).split(".")[-1] in ("astype", "rint", "round", "floor", "ceil", "trunc", "int", "around") )]
            ok = to_poly(prod[0]) == to_poly(ast.parse(f"{a} * {q}", mode="eval").body) and not rounding
            if not ok:
                why = f"with sampling off apply_qe returns {norm(prod[0])[:70]}: not exactly photons * qe (rounded photon counts make the yield depend on how an exposure is split)"
    ctx.check(ok, aq.qual, "binomial(n=whole photons, p=qe) when sampling, photons * qe otherwise" if ok else why, where=aq, node=aq.node)


def r4_simple_laws(ctx):
    """simple_collection is `pixel.array += charge.array`; full well assigns exactly the capacity it compares with; the QE range guard (scalar and map variant) dominates apply_qe; apply_qe draws binomial(n=photons, p=qe) or returns photons * qe."""
    sc = ctx.func(f"{MC}.collection:simple_collection")
    d = sc.params[0]
    augs = [s for s in walk_ordered(sc.node) if isinstance(s, (ast.AugAssign, ast.Assign))]
    ok = len(augs) == 1 and isinstance(augs[0], ast.AugAssign) and isinstance(augs[0].op, ast.Add) and dotted(augs[0].target) == f"{d}.pixel.array" and dotted(augs[0].value) == f"{d}.charge.array"
    ctx.check(ok, sc.qual, "pixel.array += charge.array (unscaled, additive)" if ok else f"simple collection does `{norm(augs[0])[:70] if augs else '?'}`", where=sc, node=augs[0] if augs else sc.node)
    fw = ctx.func(f"{MC}.full_well:apply_simple_full_well_capacity")
    sts = [s for s in walk_ordered(fw.node) if isinstance(s, ast.Assign) and isinstance(s.targets[0], ast.Subscript)]
    ok = len(sts) == 1
    if ok:
        t = sts[0].targets[0]
        m = t.slice
        ok = isinstance(m, ast.Compare) and isinstance(m.ops[0], ast.Gt) and dotted(m.left) == dotted(t.value) and norm(m.comparators[0]) == norm(sts[0].value)
    rets = [r for r in returns_of(fw) if r.value is not None]
    ok = ok and len(rets) == 1 and dotted(rets[0].value) == fw.params[0]
    ctx.check(ok, fw.qual, "array[array > fwc] = fwc (same capacity compared and assigned)" if ok else "full well does not assign the capacity it compares with", where=fw, node=sts[0] if sts else fw.node)
    sf = ctx.func(f"{MC}.full_well:simple_full_well")
    c = [x for x in calls_in(sf.node) if call_name(x) == "apply_simple_full_well_capacity"]
    ok = len(c) == 1 and dotted(kw(c[0], "array")) == f"{sf.params[0]}.pixel.array"
    if ok:
        fv = dotted(kw(c[0], "fwc"))
        defs = [norm(v) for _, v in local_defs(sf, fv) if v is not None]
        ok = set(defs) == {f"{sf.params[0]}.characteristics.full_well_capacity", sf.params[1]}
        ok = ok and any(norm(i.test) == f"{fv} < 0" for i in raising_ifs(sf.node))
    st = [s for s, t in stores(sf.node, lambda t: dotted(t) == f"{sf.params[0]}.pixel.array")]
    ok = ok and len(st) == 1
    ctx.check(ok, sf.qual, "capacity = argument or detector characteristic, negative refused, result stored in pixel" if ok else "full-well wiring changed", where=sf, node=c[0] if c else sf.node)
    apply_qe_laws(ctx)
    ctx.trust("np.random.binomial(n, p) returns values in 0..n")
    for fn, guard_pred in (
        ("simple_conversion", lambda t: norm(t) in ("not 0 <= final_qe <= 1", "not (0 <= final_qe <= 1)", "final_qe < 0 or final_qe > 1")),
        ("conversion_with_qe_map", lambda t: norm(t) in ("not np.all((qe >= 0) & (qe <= 1))",)),
    ):
        f = ctx.func(f"pyxel.models.charge_generation.photoelectrons:{fn}")
        g = ctx.cfg(f)
        gd = [i for i in raising_ifs(f.node) if guard_pred(i.test)]
        calls = [c_ for c_ in calls_in(f.node) if call_name(c_) == "apply_qe"]
        ok = len(gd) == 1 and len(calls) == 1 and all(g.must_precede(g.nodes_of(gd[0]), n) for n in g.nodes if n.ast is not None and n.kind == "stmt" and contains(n.ast, calls[0]))
        if ok:
            qa = kw(calls[0], "qe")
            ok = qa is not None and dotted(qa) in names_in(gd[0].test)
        ctx.check(ok, f.qual + "#qe-range", "0 <= qe <= 1 enforced before the conversion, on the value that is used" if ok else "quantum efficiency is not range-checked before the conversion", where=f, node=gd[0].test if gd else f.node)
        add = [c_ for c_ in calls_in(f.node) if isinstance(c_.func, ast.Attribute) and c_.func.attr == "add_charge_array"]
        ok = len(add) == 1 and add[0].args and norm(expand(f, add[0].args[0])).startswith("apply_qe(")
        ctx.check(ok, f.qual + "#deposit", "the converted charge is added to the charge bucket" if ok else "converted charge is not added to the charge bucket", where=f, node=add[0] if add else f.node)
        # "exactly efficiency times photons when sampling is off": the model's own `binomial_sampling` switch (and the
        # photon array of THIS detector) reach apply_qe - not a default taken on the way through a shared helper
        if calls and "binomial_sampling" in f.params:
            bs = kw(calls[0], "binomial_sampling")
            okb = bs is not None and dotted(expand(f, bs)) == "binomial_sampling" and not local_defs(f, "binomial_sampling")
            ctx.check(okb, f.qual + "#sampling-switch", "apply_qe receives the model's binomial_sampling argument" if okb else f"apply_qe is called with binomial_sampling={norm(expand(f, bs)) if bs is not None else 'its default'} instead of the model's own argument: with sampling switched off the charge is still a random draw, not qe * photons", where=f, node=calls[0])
            arr = kw(calls[0], "array") or (calls[0].args[0] if calls[0].args else None)
            oka = arr is not None and norm(expand(f, arr)) in ("detector.photon.array", "detector.photon.array_2d", "np.asarray(detector.photon.array)", "photon_2d") or (arr is not None and "detector.photon" in norm(expand(f, arr)))
            ctx.check(oka, f.qual + "#photons", "the photons converted are the detector's photon bucket" if oka else f"apply_qe converts `{norm(expand(f, arr))[:50] if arr is not None else None}` instead of the detector's photons", where=f, node=calls[0])


def _norm_kernel(txt: str, trap: str, trap_idx: str) -> str:
    txt = txt.replace(f"{trap}[{trap_idx}, k]", "TRAP[k]")
    txt = re.sub(r"gamma_[ps]", "GAMMA", txt)
    txt = re.sub(r"alpha_[ps]", "ALPHA", txt)
    return txt


def r5_clamps_and_siblings(ctx):
    """Both CDM kernels clamp pixels below 0.01 to 0 after the update and take max(capture, 0); clip_diff bounds diff by -trapped_charge on the negative branch and by empty_traps on the positive one; the innermost bodies of the parallel and serial kernels are identical up to the renaming (no->sno, index, gamma/alpha suffix)."""
    bodies = {}
    for name, trap, idx in (("run_cdm_parallel", "no", "j"), ("run_cdm_serial", "sno", "i")):
        f = ctx.func(f"{CDM}:{name}")
        inner = [l for l in _innermost_loops(f) if "array[i, j]" in norm(l)]
        if len(inner) != 1:
            raise AnalysisError(f"{name}: innermost loop not found")
        lp = inner[0]
        clamps = [s for s in lp.body if isinstance(s, ast.If) and _is_clamp(s) and norm(s.test.left) == "array[i, j]"]
        ok = len(clamps) == 1 and lp.body[-1] is clamps[0] and norm(clamps[0].test.comparators[0]) == "0.01"
        ctx.check(ok, f.qual + "#clamp", "pixels below 0.01 e- are set to 0 after the update" if ok else "the non-negativity clamp after the update is missing or moved", where=f, node=clamps[0] if clamps else lp)
        ncs = [s for s in walk_ordered(lp) if isinstance(s, ast.Assign) and dotted(s.targets[0]) == "nc" and isinstance(s.value, ast.Call)]
        ok = len(ncs) == 1 and call_name(ncs[0].value) == "max" and len(ncs[0].value.args) == 2 and norm(ncs[0].value.args[1]) in ("0.0", "0")
        ctx.check(ok, f.qual + "#capture-nonneg", "captured charge = max(..., 0)" if ok else "capture can be negative", where=f, node=ncs[0] if ncs else lp)
        bodies[name] = _norm_kernel("\n".join(norm(s) for s in lp.body), trap, idx)
    ok = bodies["run_cdm_parallel"] == bodies["run_cdm_serial"]
    ctx.check(ok, f"{CDM}:run_cdm_serial#sibling", "parallel and serial kernels agree" if ok else "parallel and serial CDM kernels differ in their capture/release bookkeeping", where=ctx.func(f"{CDM}:run_cdm_serial"), node=ctx.func(f"{CDM}:run_cdm_serial").node)
    cd = ctx.func(f"{PER}:clip_diff")
    sts = [s for s in walk_ordered(cd.node) if isinstance(s, ast.Assign) and isinstance(s.targets[0], ast.Subscript) and dotted(s.targets[0].value) == "output"]
    got = {}
    for s in sts:
        ts = [(norm(t), pol) for t, pol in enclosing_tests(s)]
        got[norm(s.value)] = ts
    want_neg = got.get("-trapped_charge[i, j]")
    want_pos = got.get("empty_traps[i, j]")
    ok = want_neg is not None and ("diff[i, j] < 0", True) in want_neg and ("diff[i, j] < -trapped_charge[i, j]", True) in want_neg and want_pos is not None and ("diff[i, j] < 0", False) in want_pos and ("diff[i, j] > empty_traps[i, j]", True) in want_pos
    rets = [r for r in returns_of(cd) if r.value is not None]
    ok = ok and len(rets) == 1 and dotted(rets[0].value) == "output"
    ctx.check(ok, cd.qual, "release bounded by the trapped charge, capture bounded by the empty traps" if ok else "clip_diff no longer bounds the exchanged charge on both sides (trapped charge can go negative / exceed capacity)", where=cd, node=cd.node)
    # "trapped charge never negative": the bound is applied to EVERY exchange - in both persistence kernels the
    # exchanged amount added to a species' trapped charge is, on every path through one iteration of the species
    # loop (sa/paths.py), the result of clip_diff(diff, trapped_charge, empty_traps)
    from sa.paths import enumerate_paths

    for name in ("compute_simple_persistence", "compute_persistence"):
        f = ctx.func(f"{PER}:{name}")
        lps = [l for l in loops_in(f.node) if isinstance(l, ast.For) and enclosing_loop(l) is None and any(isinstance(s_, ast.AugAssign) and dotted(s_.target) == "trapped_charge" for s_ in walk_ordered(l))]
        if not lps:
            ctx.fail(f.qual + "#exchange-bounded", "the per-species update of the trapped charge was not found", where=f, node=f.node)
            continue
        bad = None
        n_p = 0
        for q_ in enumerate_paths(lps[0].body, containers=set()):
            if q_.exit == "raise":
                continue
            n_p += 1
            v_ = q_.env.get("trapped_charge")
            clipped = v_ is not None and any(isinstance(x, ast.Call) and call_name(x) == "clip_diff" for x in ast.walk(v_))
            if not clipped:
                bad = q_
                break
        ctx.check(bad is None and n_p > 0, f.qual + "#exchange-bounded", "every exchange passes through clip_diff before it reaches the trapped charge" if bad is None else f"when {bad.cond_texts()[:2]} the exchanged charge is added to the trapped charge without clip_diff: a fast species can release more than it holds (negative trapped charge) or capture more than its empty traps", where=f, node=lps[0])


def r6_clusters_land_in_their_pixel(ctx):
    """"Simple collection adds exactly the generated charge to the pixels": charge generated as clusters reaches the pixel array through Charge.convert_df_to_array, which bins the vertical position by the vertical pixel size and the horizontal one by the horizontal size (shared with C14.R2)."""
    from props.C14 import r2_binning

    r2_binning(ctx)


def r7_trap_memory_survives(ctx):
    """"Pixel charge plus trapped charge constant over a step": the trapped charge lives in detector.persistence between steps; the persistence models create that memory only when the detector has none (`not detector.has_persistence()`), never replace an existing one (which would drop the trapped charge)."""
    from sa.astutil import enclosing_tests, stores

    n = 0
    for name in ("simple_persistence", "persistence"):
        f = ctx.func(f"{PER}:{name}")
        det = f.params[0]
        sts = [st for st, t in stores(f.node, lambda t: dotted(t) == f"{det}.persistence")]
        if not sts:
            ctx.fail(f.qual + "#memory", "the model never creates the detector's persistence memory", where=f, node=f.node)
            continue
        for st in sts:
            n += 1
            ts = [(norm(expand(f, t)), pol) for t, pol in enclosing_tests(st)]
            # has_persistence() is `self._persistence is not None`; either spelling (the accessor may be inlined)
            from sa.paths import canon_test as _ct

            cts = [(norm(t2), p2) for t2, p2 in (_ct(t, pol) for t, pol in enclosing_tests(st))]
            ok = ts == [(f"{det}.has_persistence()", False)] or cts in ([(f"{det}._persistence is None", True)], [(f"{det}.has_persistence()", False)])
            ctx.check(ok, f.qual + "#memory-created-once", "the memory is created only when the detector has none" if ok else f"the detector's persistence memory is replaced under {ts}: trapped charge held from earlier steps is dropped (pixel + trapped charge is not conserved)", where=f, node=st)
    ctx.floor(n, 2)


def r8_collected_charge_is_current(ctx):
    """"Simple collection adds exactly the generated charge": it reads charge.array, which must reflect the cluster table as it is NOW - converted whenever clusters are present, never memoised across in-place edits of the table (shared with C14.R3 and the getter-observation part of C03.R6)."""
    from props.C14 import r3_representation_switch
    from props.C03 import r6_debug_observation_only

    r3_representation_switch(ctx)
    r6_debug_observation_only(ctx)


RULES = [r8_collected_charge_is_current, r7_trap_memory_survives, r6_clusters_land_in_their_pixel, r1_ipc_weights, r2_conservation, r3_no_lost_update, r4_simple_laws, r5_clamps_and_siblings]
