"""C11 - calibration fitness is the declared figure of merit on the declared data."""

from __future__ import annotations

import ast

from sa.astutil import (
    knows,
    only_knows,
    same_node,
    loop_exits,
    arg_or_kw,
    call_name,
    calls_in,
    contains,
    enclosing_loop,
    enclosing_tests,
    expand,
    kw,
    local_defs,
    loops_in,
    names_in,
    raising_ifs,
    returns_of,
    stmt_calls,
    stores,
)
from sa.index import AnalysisError, dotted, enclosing_stmt, norm, walk_local, walk_ordered
from sa.poly import to_poly

EXPLANATION = (
    "Information-flow and wiring analysis of the fitness path: the fit-range compatibility check must "
    "depend on both end points of both ranges per axis (a check that never reads `start` cannot compare "
    "extents) and normalises to a comparison of lengths; the upper-bound check compares each stop with "
    "its own axis size; targets, simulated data and weight files are sliced with their own ranges; the "
    "fitness loop pairs processor i with target i, accumulates with += exactly once per pair from 0 and "
    "returns [sum]; weights reach the fitness function by name; the three built-in functions read all "
    "three inputs on the way to their result; the range check precedes the optimiser."
)
NOT_DECIDED = ["numeric equality of a recomputed fitness", "monotone champion history (pygmo behaviour)"]
ASSUMPTIONS = ["pygmo reports champions monotonically per island"]

U = "pyxel.calibration.util"
FD = "pyxel.calibration.fitting_datatree:ModelFittingDataTree"


def _reads_through_helper(ctx, f, test: ast.expr) -> set[str]:
    """Attribute chains read by a raising test, inlining calls of nested helper functions."""
    reads = set()
    for n in ast.walk(test):
        if isinstance(n, ast.Attribute):
            d = dotted(n)
            if d:
                reads.add(d)
        if isinstance(n, ast.Call) and isinstance(n.func, ast.Name) and n.func.id in f.nested:
            h = f.nested[n.func.id]
            params = h.params
            amap = {p: dotted(a) for p, a in zip(params, n.args)}
            for k in n.keywords:
                if k.arg:
                    amap[k.arg] = dotted(k.value)
            for m in ast.walk(h.node):
                if isinstance(m, ast.Attribute) and isinstance(m.value, ast.Name) and m.value.id in amap and amap[m.value.id]:
                    reads.add(f"{amap[m.value.id]}.{m.attr}")
    return reads


def r1_extent_check(ctx):
    """_check_out_fit_ranges: for each axis (row, col and, for two 3-D ranges, time) the predicate under which it raises reads .start and .stop of both ranges; where the comparison is visible it normalises to (stop-start) of one range != (stop-start) of the other; check_fit_ranges applies it whenever an output range is given and then the target's own upper-bound check."""
    f = ctx.func(f"{U}:_check_out_fit_ranges")
    a, b = f.params[0], f.params[1]
    guards = raising_ifs(f.node)
    for axis in ("row", "col", "time"):
        need = {f"{a}.{axis}.start", f"{a}.{axis}.stop", f"{b}.{axis}.start", f"{b}.{axis}.stop"}
        best = None
        for gd in guards:
            r = _reads_through_helper(ctx, f, gd.test)
            if any(x.startswith(f"{a}.{axis}") or x.startswith(f"{b}.{axis}") for x in r):
                best = (gd, r)
                break
        if best is None:
            ctx.fail(f.qual + f"#{axis}", f"no check compares the '{axis}' ranges", where=f, node=f.node)
            continue
        gd, r = best
        missing = sorted(need - r)
        ok = not missing
        ctx.check(ok, f.qual + f"#{axis}", f"'{axis}' check depends on start and stop of both ranges" if ok else f"'{axis}' check never reads {missing}: it cannot compare extents (e.g. [0,5] vs [2,5] is accepted)", where=f, node=gd.test, facts={"reads": sorted(r)})
        if axis == "time":
            # everything known to hold where it raises: its own test and the enclosing ones
            ts = " and ".join(norm(t_) for t_, pol_ in enclosing_tests(gd.body[0], rejections=True) if pol_)
            ok3 = f"isinstance({a}, FitRange3D)" in ts and f"isinstance({b}, FitRange3D)" in ts
            ctx.check(ok3, f.qual + "#time-3d", "time compared when both ranges are 3-D" if ok3 else "time axis comparison not restricted to two 3-D ranges", where=f, node=gd.test)
    # visible length comparison inside the helper
    for h in f.nested.values():
        p = h.params
        if len(p) != 2:
            continue
        rets = [r for r in returns_of(h) if r.value is not None and isinstance(r.value, ast.Compare) and isinstance(r.value.ops[0], ast.NotEq) and not isinstance(r.value.left, ast.Tuple)]
        for r in rets:

            def sm(s):
                return s

            def strip_or0(e):
                class T(ast.NodeTransformer):
                    def visit_BoolOp(self, n):
                        if isinstance(n.op, ast.Or) and len(n.values) == 2 and isinstance(n.values[1], ast.Constant) and n.values[1].value == 0:
                            return n.values[0]
                        return n

                from sa.astutil import clone

                return T().visit(clone(e))

            d = to_poly(strip_or0(r.value.left)) - to_poly(strip_or0(r.value.comparators[0]))
            want = to_poly(ast.parse(f"({p[0]}.stop - {p[0]}.start) - ({p[1]}.stop - {p[1]}.start)", mode="eval").body)
            ok = d == want or d == -want
            ctx.check(ok, h.qual + "#lengths", "compares (stop - start) of both ranges" if ok else f"helper compares {norm(r.value)} which is not a comparison of lengths", where=h, node=r)
    cf = ctx.func(f"{U}:check_fit_ranges")
    g = ctx.cfg(cf)
    co = stmt_calls(cf, ctx.R, {f"{U}:_check_out_fit_ranges"})
    ok = len(co) == 1
    if ok:
        ts = enclosing_tests(co[0])
        tgt, out_ = cf.params[0], cf.params[1]
        known = {(norm(t), pol) for t, pol in ts}
        allowed = {(out_, True), (f"not {tgt}", False), (tgt, True), (f"{tgt} is None", False), (f"{tgt} is not None", True), (f"{out_} is not None", True), (f"not {out_}", False)}
        ok = known <= allowed and bool(known & {(out_, True), (f"{out_} is not None", True), (f"not {out_}", False)}) and dotted(kw(co[0], "target_fit_range")) == tgt and dotted(kw(co[0], "out_fit_range")) == out_
    ctx.check(ok, cf.qual + "#compat", "compatibility checked whenever an output range is given" if ok else "range compatibility is not checked whenever an output range is given", where=cf, node=co[0] if co else cf.node)
    chk = [c for c in calls_in(cf.node) if isinstance(c.func, ast.Attribute) and c.func.attr == "check" and dotted(c.func.value) == cf.params[0]]
    ok = len(chk) == 2
    for c in chk:
        ok = ok and dotted(kw(c, "rows")) == "rows" and dotted(kw(c, "cols")) == "cols"
    three = [c for c in chk if kw(c, "readout_times") is not None]
    ok = ok and len(three) == 1 and dotted(kw(three[0], "readout_times")) == "readout_times"
    ctx.check(ok, cf.qual + "#bounds", "target range checked against rows/cols(/readout_times)" if ok else "the target range is not checked against the target's size on both the 2-D and the 3-D path", where=cf, node=chk[0] if chk else cf.node)
    # decided per path (sa/paths.py): a path that ends normally without the bounds check is one on which the
    # target range is known to be absent
    from sa.paths import enumerate_paths

    tg_ = cf.params[0]
    ok = True
    early = []
    for q_ in enumerate_paths(cf.node.body):
        if q_.exit not in ("return", "fall"):
            continue
        absent = q_.holds(tg_) is False or q_.holds(f"{tg_} is None") is True or q_.holds(f"{tg_} is not None") is False
        if not absent and not q_.called("check"):
            ok = False
            early.append(q_.exit_node or cf.node)
    ctx.check(ok, cf.qual + "#early-return", "only an absent target range skips the checks" if ok else "checks are skipped for another reason", where=cf, node=early[0] if early else cf.node)


def r2_upper_bound(ctx):
    """FitRange2D/3D.check raise unless each stop <= the size of the matching axis (row<->rows, col<->cols, time<->readout_times); the sizes passed are len() of the target's own y / x / readout_time axes."""
    for cls, axes in (("FitRange2D", {"row": "rows", "col": "cols"}), ("FitRange3D", {"row": "rows", "col": "cols", "time": "readout_times"})):
        f = ctx.func(f"{U}:{cls}.check")
        gs = raising_ifs(f.node)
        # the 3-D check may leave row / col to the 2-D check of a range built from its own row / col:
        #   FitRange2D(row=self.row, col=self.col).check(rows=rows, cols=cols)   (unconditional)
        delegated = set()
        for c_ in calls_in(f.node):
            if cls == "FitRange3D" and isinstance(c_.func, ast.Attribute) and c_.func.attr == "check" and isinstance(c_.func.value, ast.Call) and call_name(c_.func.value) == "FitRange2D" and not enclosing_tests(c_, rejections=True):
                mk = c_.func.value
                for ax2, size2 in (("row", "rows"), ("col", "cols")):
                    if norm(arg_or_kw(mk, 0 if ax2 == "row" else 1, ax2)) == f"self.{ax2}" and norm(arg_or_kw(c_, 0 if ax2 == "row" else 1, size2)) == size2:
                        delegated.add(ax2)
        for ax, size in axes.items():
            ok = any(norm(gd.test) in (f"not self.{ax}.stop <= {size}", f"self.{ax}.stop > {size}") for gd in gs) or ax in delegated
            ctx.check(ok, f.qual + f"#{ax}", f"{ax}.stop <= {size} enforced" if ok else f"{ax}.stop is not compared with {size}", where=f, node=f.node)
    init = ctx.func(f"{FD}.__init__")
    calls = stmt_calls(init, ctx.R, {f"{U}:check_fit_ranges"})
    ctx.check(len(calls) >= 1, init.qual + "#check-calls", "the declared ranges are checked against the target" if calls else "no check_fit_ranges call", where=init, node=calls[0] if calls else init.node)
    # decided per path through the constructor (sa/paths.py): every path that stores the (sliced) targets has passed
    # exactly one check_fit_ranges(target range, output range, rows=len(T['y']), cols=len(T['x']),
    # readout_times=len(T['readout_time']) | None) where T is the very array that is sliced afterwards
    from sa.paths import enumerate_paths

    dimmap = {"rows": "y", "cols": "x"}
    n_paths = 0
    saw_3d = False
    for q_ in enumerate_paths(init.node.body, max_paths=2048):
        if q_.exit == "raise":
            continue
        st_ = [e_ for e_ in q_.stores("self.all_target_data") if e_.target == "self.all_target_data" and e_.value is not None and not (isinstance(e_.value, ast.Constant) and e_.value.value is None)]
        if not st_:
            continue
        n_paths += 1
        sliced = st_[-1].value
        base = sliced.func.value if isinstance(sliced, ast.Call) and isinstance(sliced.func, ast.Attribute) and sliced.func.attr == "isel" else None
        cs_ = q_.called("check_fit_ranges")
        tag = "3d" if any(pol and "time" in t for t, pol in q_.cond_texts()) else "2d"
        if base is None:
            # targets used whole: legitimate only where no fit range is in force at all
            rng = [e_ for e_ in q_.stores("self.targ_fit_range") if e_.target == "self.targ_fit_range"]
            unranged = bool(rng) and isinstance(rng[-1].value, ast.Constant) and rng[-1].value.value is None
            ctx.check(unranged, init.qual + "#checked-before-use:whole", "targets used whole where no fit range applies" if unranged else f"on the path {q_.cond_texts()[:3]} the targets are stored unsliced although a fit range is in force", where=init, node=st_[-1].node)
            continue
        if len(cs_) != 1:
            ctx.fail(init.qual + f"#checked-before-use:{tag}", f"on the path {q_.cond_texts()[:3]} the targets are sliced after {len(cs_)} check_fit_ranges calls (expected exactly one)", where=init, node=st_[-1].node)
            continue
        c_ = cs_[0][1]

        def _len_of(e_, dim):
            return isinstance(e_, ast.Call) and call_name(e_) == "len" and len(e_.args) == 1 and isinstance(e_.args[0], ast.Subscript) and isinstance(e_.args[0].slice, ast.Constant) and e_.args[0].slice.value == dim and norm(e_.args[0].value) == norm(base)

        ok = all(_len_of(kw(c_, k), dim) for k, dim in dimmap.items())
        rt = kw(c_, "readout_times")
        ok3 = rt is None or (isinstance(rt, ast.Constant) and rt.value is None) or _len_of(rt, "readout_time")
        saw_3d = saw_3d or (rt is not None and _len_of(rt, "readout_time"))
        okr = dotted(kw(c_, "target_fit_range")) == "target_fit_range" and dotted(kw(c_, "out_fit_range")) == "out_fit_range"
        ctx.check(ok and ok3 and okr, init.qual + f"#checked-before-use:{tag}", "ranges checked against the sizes of the array that is sliced afterwards" if ok and ok3 and okr else f"check_fit_ranges receives rows={norm(kw(c_, 'rows'))[:40] if kw(c_, 'rows') is not None else None}, cols={norm(kw(c_, 'cols'))[:40] if kw(c_, 'cols') is not None else None}, readout_times={norm(rt)[:40] if rt is not None else None}: not the sizes of the target that is sliced / not the declared ranges", where=init, node=getattr(c_, "_src", init.node), facts={"path": [f"{t}={p_}" for t, p_ in q_.cond_texts()][:6]})
    ctx.check(saw_3d, init.qual + "#checked-before-use:time-axis", "time-domain targets are checked against their readout_time size" if saw_3d else "no path checks the time range against the target's readout_time size", where=init, node=calls[0] if calls else init.node)
    ctx.floor(n_paths, 2)


def r3_same_range_both_sides(ctx):
    """Targets are sliced with the target range, simulated data with the output range, the weight file with the target range; to_dict maps row->'y', col->'x', time->'time'; from_sequence builds row from the y pair and col from the x pair; Calibration hands target/result ranges to the like-named slots."""
    init = ctx.func(f"{FD}.__init__")
    for fld, src in (("self.targ_fit_range", "target_fit_range"), ("self.sim_fit_range", "out_fit_range")):
        sts = [st for st, t in stores(init.node, lambda t, fld=fld: dotted(t) == fld) if not (isinstance(getattr(st, "value", None), ast.Constant) and st.value.value is None)]
        ok = len(sts) == 1 and dotted(sts[0].value) == src
        ctx.check(ok, init.qual + f"#{fld.split('.')[1]}", f"{fld} = {src}" if ok else f"{fld} is not the {src} argument", where=init, node=sts[0] if sts else init.node)
    sts = [st for st, t in stores(init.node, lambda t: dotted(t) == "self.all_target_data") if "isel" in norm(getattr(st, "value", None))]
    ok = len(sts) == 1 and norm(sts[0].value) == "targets.isel(indexers=target_fit_range.to_dict())"
    ctx.check(ok, init.qual + "#slice-target", "targets sliced with the target range" if ok else f"targets are sliced as {norm(sts[0].value) if sts else None}", where=init, node=sts[0] if sts else init.node)
    gs = ctx.func(f"{FD}._get_simulated_data")
    isel = [c for c in calls_in(gs.node) if isinstance(c.func, ast.Attribute) and c.func.attr == "isel"]
    ok = len(isel) == 1 and norm(kw(isel[0], "indexers")) == "self.sim_fit_range.to_dict()"
    ctx.check(ok, gs.qual + "#slice-sim", "simulated data sliced with the output range" if ok else "simulated data is not sliced with the output range", where=gs, node=isel[0] if isel else gs.node)
    rets = [r for r in returns_of(gs) if r.value is not None]
    ok = len(rets) == 1 and dotted(rets[0].value) == "simulated_data"
    ctx.check(ok, gs.qual + "#return", "returns the sliced data" if ok else "does not return the sliced data", where=gs, node=rets[0] if rets else gs.node)
    cw = ctx.func(f"{FD}._configure_weights")
    isel = [c for c in calls_in(cw.node) if isinstance(c.func, ast.Attribute) and c.func.attr == "isel"]
    ok = len(isel) == 1 and norm(kw(isel[0], "indexers")) == "self.targ_fit_range.to_dict()"
    ctx.check(ok, cw.qual + "#slice-weights", "weight file sliced with the target range" if ok else "weight file is not sliced with the target range", where=cw, node=isel[0] if isel else cw.node)
    want = {"FitRange2D": "{'y': self.row, 'x': self.col}", "FitRange3D": "{'time': self.time, 'y': self.row, 'x': self.col}"}
    for cls, w in want.items():
        td = ctx.func(f"{U}:{cls}.to_dict")
        rets = [r for r in returns_of(td) if r.value is not None]
        ok = len(rets) == 1 and norm(rets[0].value) == w
        ctx.check(ok, td.qual, f"to_dict = {w}" if ok else f"to_dict returns {norm(rets[0].value) if rets else None}", where=td, node=rets[0] if rets else td.node)
    for cls, unpack, ctor in (
        ("FitRange2D", "(y_start, y_stop, x_start, x_stop)", "cls(row=slice(y_start, y_stop), col=slice(x_start, x_stop))"),
        ("FitRange3D", "(time_start, time_stop, y_start, y_stop, x_start, x_stop)", "cls(time=slice(time_start, time_stop), row=slice(y_start, y_stop), col=slice(x_start, x_stop))"),
    ):
        fs = ctx.func(f"{U}:{cls}.from_sequence")
        un = [s for s in walk_ordered(fs.node) if isinstance(s, ast.Assign) and isinstance(s.targets[0], ast.Tuple) and norm(s.targets[0]) == unpack and dotted(s.value) == "data"]
        rets = [r for r in returns_of(fs) if r.value is not None]
        ok = len(un) == 1 and len(rets) == 1 and norm(rets[0].value) == ctor
        ctx.check(ok, fs.qual, "sequence (start, stop) pairs land in the like-named axis" if ok else "fit-range sequence is unpacked into the wrong axes", where=fs, node=rets[0] if rets else fs.node)
    rc = ctx.func("pyxel.calibration.calibration:Calibration.run_calibration")
    cons = [c for c in calls_in(rc.node) if call_name(c) == "ModelFittingDataTree"]
    ok = len(cons) == 1
    if ok:
        t = expand(rc, kw(cons[0], "target_fit_range"))
        o = expand(rc, kw(cons[0], "out_fit_range"))
        ok = norm(t) == "to_fit_range(self.target_fit_range)" and norm(o) == "FitRange3D.from_sequence(self.result_fit_range)"
    ctx.check(ok, rc.qual + "#ranges", "target/result ranges reach the like-named slots" if ok else "target and result fit ranges are cross-wired", where=rc, node=cons[0] if cons else rc.node)


def r4_accumulation_and_pairing(ctx):
    """fitness: processors and targets are paired by zip(self.param_processor_list, self.all_target_data) under enumerate; overall_fitness starts at 0, is += _calculate_fitness(simulated, paired target, weighting) exactly once per pair, and [overall_fitness] is returned; the simulated data comes from running the updated processor of that pair."""
    f = ctx.func(f"{FD}.fitness")
    g = ctx.cfg(f)
    cf = stmt_calls(f, ctx.R, {f"{FD}._calculate_fitness"})
    if len(cf) != 1:
        ctx.fail(f.qual + "#calc", f"{len(cf)} _calculate_fitness calls (expected one)", where=f, node=f.node)
        return
    c = cf[0]
    lp = enclosing_loop(c)
    if not isinstance(lp, ast.For):
        ctx.fail(f.qual + "#loop", "fitness is not accumulated in a loop over the (processor, target) pairs", where=f, node=c)
        return
    it = expand(f, lp.iter)
    ok = isinstance(it, ast.Call) and call_name(it) == "enumerate" and len(it.args) == 1 and isinstance(it.args[0], ast.Call) and call_name(it.args[0]) == "zip" and [norm(x) for x in it.args[0].args] == ["self.param_processor_list", "self.all_target_data"] and not [k for k in it.keywords]
    ctx.check(ok, f.qual + "#pairing", "enumerate(zip(param_processor_list, all_target_data))" if ok else f"pairs are produced by {norm(it)[:90]}", where=f, node=lp.iter)
    tg = lp.target
    if not (isinstance(tg, ast.Tuple) and len(tg.elts) == 2 and isinstance(tg.elts[1], ast.Tuple) and len(tg.elts[1].elts) == 2):
        ctx.fail(f.qual + "#target", "loop target is not (id, (processor, target))", where=f, node=lp)
        return
    vid = dotted(tg.elts[0])
    vproc, vtgt = (dotted(x) for x in tg.elts[1].elts)
    st = enclosing_stmt(c)
    if not (isinstance(st, ast.AugAssign) and st.value is c):
        # the pair's fitness may pass through a named intermediate before it is added
        for cand in walk_ordered(lp):
            if isinstance(cand, ast.AugAssign) and isinstance(cand.op, ast.Add):
                ev = expand(lp, cand.value)
                if same_node(ev, c):
                    st = cand
                    break
    ok = isinstance(st, ast.AugAssign) and isinstance(st.op, ast.Add) and (st.value is c or same_node(expand(lp, st.value), c))
    acc = dotted(st.target) if ok else None
    ctx.check(ok, f.qual + "#accumulate", f"{acc} += _calculate_fitness(...)" if ok else f"fitness of a pair is not added to the total: {norm(st)[:70]}", where=f, node=st)
    if ok:
        lo, hi = g.count_events_per_iteration(g.node_of(lp), g.nodes_of(st))
        ctx.check((lo, hi) == (1, 1), f.qual + "#once", "exactly one contribution per pair" if (lo, hi) == (1, 1) else f"between {lo} and {hi} contributions per pair", where=f, node=st)
        inits = [val for s_, val in local_defs(f, acc) if not contains(lp, s_)]
        ok0 = len(inits) == 1 and isinstance(inits[0], ast.Constant) and inits[0].value == 0
        ctx.check(ok0, f.qual + "#init", "total starts at 0" if ok0 else "total does not start at 0 before the loop", where=f, node=f.node)
        rets = [r for r in returns_of(f) if r.value is not None]
        okr = len(rets) == 1 and norm(rets[0].value) == f"[{acc}]" and not contains(lp, rets[0])
        ctx.check(okr, f.qual + "#return", f"returns [{acc}] after the loop" if okr else "the returned fitness is not the accumulated total", where=f, node=rets[0] if rets else f.node)
    ok = dotted(kw(c, "target_data")) == vtgt
    ctx.check(ok, f.qual + "#target-arg", "compares against the paired target" if ok else f"target_data={norm(kw(c, 'target_data'))} is not the paired target", where=f, node=c)
    sd = kw(c, "simulated_data")
    sdx = expand(lp, sd) if sd is not None else None
    runs = stmt_calls(f, ctx.R, {"pyxel.exposure.exposure:run_pipeline"})
    ok = sdx is not None and isinstance(sdx, ast.Call) and dotted(sdx.func) == "self._get_simulated_data" and runs and norm(expand(lp, kw(sdx, "data"))).startswith("run_pipeline(")
    ctx.check(ok, f.qual + "#simulated-arg", "simulated data extracted from this pair's run" if ok else "simulated data does not come from this pair's run", where=f, node=c)
    for br in loop_exits(lp):
        if isinstance(br, (ast.Break, ast.Continue, ast.Return)):
            ctx.fail(f.qual + "#exit", f"{type(br).__name__.lower()} inside the pair loop skips targets", where=f, node=br)


def r5_weights_reach_function(ctx):
    """The weighting handed to _calculate_fitness derives from self.weighting[processor_id] or weighting_from_file.isel(processor=processor_id); _calculate_fitness passes simulated/target/weighting to fitness_func by name, using ones only when no weighting is given; FitnessFunction.__call__ forwards the three by name."""
    f = ctx.func(f"{FD}.fitness")
    cf = stmt_calls(f, ctx.R, {f"{FD}._calculate_fitness"})
    if len(cf) != 1:
        return
    c = cf[0]
    lp = enclosing_loop(c)
    vid = dotted(lp.target.elts[0]) if isinstance(lp, ast.For) and isinstance(lp.target, ast.Tuple) else "processor_id"
    w = kw(c, "weighting")
    ok = w is not None and isinstance(w, ast.Name)
    ctx.check(ok, f.qual + "#weighting-arg", "weighting passed on" if ok else "no weighting is passed to _calculate_fitness (declared weights dropped)", where=f, node=c)
    if ok:
        defs = [(st, val) for st, val in local_defs(f, w.id) if contains(lp, st)]
        srcs = [norm(expand(lp, val)) for st, val in defs if val is not None and not (isinstance(val, ast.Constant) and val.value is None)]
        a_ok = any(f"self.weighting[{vid}]" in s for s in srcs)
        b_ok = any(f"self.weighting_from_file.isel(processor={vid})" in s for s in srcs)
        ctx.check(a_ok, f.qual + "#weights-vector", f"weight of pair i = self.weighting[{vid}]" if a_ok else "per-target weights are not indexed with the pair's id", where=f, node=defs[0][0] if defs else c)
        ctx.check(b_ok, f.qual + "#weights-file", f"weights from file: isel(processor={vid})" if b_ok else "weight files are not selected by the pair's id", where=f, node=defs[0][0] if defs else c)
        for st, val in defs:
            ts = enclosing_tests(st, stop=lp)
            if val is not None and "self.weighting[" in norm(val):
                okg = any(pol and norm(t) == "self.weighting is not None" for t, pol in ts)
                ctx.check(okg, f.qual + "#weights-guard", "used whenever weights are configured" if okg else f"weights applied under {[(norm(t), p) for t, p in ts]}", where=f, node=st)
                # "with the declared weights": the weight must arrive as the declared number - a map built
                # with the element type of some other array (full_like / ones_like / astype(other.dtype) /
                # dtype=<not float>) rounds a fractional weight to that type (0.5 -> 0 for integer targets)
                full = expand(lp, val)
                for c_ in [x for x in ast.walk(full) if isinstance(x, ast.Call)]:
                    cn = call_name(c_)
                    last = cn.split(".")[-1]
                    dt = kw(c_, "dtype") or (c_.args[0] if last == "astype" and c_.args else None)
                    floaty = dt is not None and (norm(dt) in ("float", "np.float64", "numpy.float64", "'float64'", "'float'", "np.floating", "np.double") or (isinstance(dt, ast.Constant) and str(dt.value).startswith("float")))
                    inherits = last in ("full_like", "ones_like", "zeros_like", "empty_like") and dt is None
                    narrowed = dt is not None and not floaty
                    if inherits or narrowed:
                        ctx.fail(f.qual + "#weights-as-declared", f"the weight map is built by `{norm(c_)[:70]}` with an element type that is not the weight's own ({'inherited from ' + norm(c_.args[0])[:30] if inherits and c_.args else norm(dt) if dt is not None else 'inherited'}): a fractional weight is truncated for integer data", where=f, node=st)
                        break
                else:
                    ctx.ok(f.qual + "#weights-as-declared", "the weight map takes its element type from the declared weight", where=f, node=st)
    cal = ctx.func(f"{FD}._calculate_fitness")
    ff = [c_ for c_ in calls_in(cal.node) if dotted(c_.func) == "self.fitness_func"]
    ok = len(ff) == 1 and not ff[0].args
    if ok:
        src = {"simulated": "simulated_data", "target": "target_data", "weighting": "weighting"}
        for k, p in src.items():
            a = kw(ff[0], k)
            from sa.astutil import flow_closure

            ok = ok and a is not None and p in flow_closure(cal, a)
        # weighting: the given weights when there are some, ones ONLY when none are given - decided per path
        # (if/else, conditional expression and named intermediates all read the same)
        from sa.paths import enumerate_paths

        seen_given = seen_ones = False
        for q_ in enumerate_paths(cal.node.body):
            if q_.exit == "raise":
                continue
            calls_ = [c_ for fn_, c_, _ in q_.calls if fn_ == "self.fitness_func"]
            if not calls_:
                continue
            w_ = kw(calls_[-1], "weighting")
            wn = names_in(w_) if w_ is not None else set()
            has_w = q_.holds("weighting is not None")
            if has_w is None and q_.holds("weighting is None") is not None:
                has_w = not q_.holds("weighting is None")
            uses_ones = w_ is not None and any(isinstance(x, ast.Call) and call_name(x).split(".")[-1] in ("ones", "ones_like", "full", "full_like") for x in ast.walk(w_))
            cond_e = [x for x in ast.walk(w_) if isinstance(x, ast.IfExp) and norm(x.test) in ("weighting is not None", "weighting is None")] if w_ is not None else []
            if has_w is None and cond_e:
                # weights chosen by a conditional expression inside the argument
                ce = cond_e[0]
                given_e, none_e = (ce.body, ce.orelse) if norm(ce.test) == "weighting is not None" else (ce.orelse, ce.body)
                ones_in = lambda e_: any(isinstance(x, ast.Call) and call_name(x).split(".")[-1] in ("ones", "ones_like", "full", "full_like") for x in ast.walk(e_))  # noqa: E731
                ok = ok and "weighting" in names_in(given_e) and not ones_in(given_e) and ones_in(none_e)
                seen_given = seen_ones = True
                continue
            if has_w is True:
                seen_given = True
                ok = ok and "weighting" in wn and not uses_ones
            elif has_w is False:
                seen_ones = True
                ok = ok and uses_ones
            else:
                ok = ok and "weighting" in wn and not uses_ones
                seen_given = True
        ok = ok and seen_given
    ctx.check(ok, cal.qual, "fitness_func(simulated=<sim>, target=<target>, weighting=<weights or ones>)" if ok else "simulated/target/weighting do not reach the fitness function under their own names (or weights are replaced by ones)", where=cal, node=ff[0] if ff else cal.node)
    rets = [r for r in returns_of(cal) if r.value is not None]
    okr = len(rets) == 1 and norm(expand(cal, rets[0].value)).startswith("self.fitness_func(")
    ctx.check(okr, cal.qual + "#return", "returns the function's value unchanged" if okr else "the fitness function's value is altered before it is returned", where=cal, node=rets[0] if rets else cal.node)
    fc = ctx.func("pyxel.pipelines.model_function:FitnessFunction.__call__")
    calls = [c_ for c_ in calls_in(fc.node) if dotted(c_.func) == "self._func"]
    ok = len(calls) == 2 and all(all(dotted(kw(c_, k)) == k for k in ("simulated", "target", "weighting")) for c_ in calls)
    ctx.check(ok, fc.qual, "forwards simulated/target/weighting by name" if ok else "FitnessFunction does not forward its three inputs by name", where=fc, node=calls[0] if calls else fc.node)


def r6_builtins_use_inputs(ctx):
    """Each built-in fitness function reads simulated, target and weighting on the data-flow path to its return value."""
    m = ctx.repo.module("pyxel.calibration.fitness")
    n = 0
    for name in ("sum_of_abs_residuals", "sum_of_squared_residuals", "reduced_chi_squared"):
        f = ctx.func(f"pyxel.calibration.fitness:{name}")
        n += 1
        rets = [r for r in returns_of(f) if r.value is not None]
        if not rets:
            ctx.fail(f.qual, "returns nothing", where=f, node=f.node)
            continue
        live = set()
        for r in rets:
            live |= names_in(r.value)
        body = [s for s in walk_ordered(f.node) if isinstance(s, (ast.Assign, ast.AugAssign, ast.AnnAssign))]
        changed = True
        while changed:
            changed = False
            for s in body:
                tg = s.targets if isinstance(s, ast.Assign) else [s.target]
                tn = {x.id for t in tg for x in ast.walk(t) if isinstance(x, ast.Name)}
                if tn & live and getattr(s, "value", None) is not None:
                    add = names_in(s.value) - live
                    if add:
                        live |= add
                        changed = True
        missing = [p for p in ("simulated", "target", "weighting") if p not in live]
        ctx.check(not missing, f.qual, "result depends on simulated, target and weighting" if not missing else f"result does not depend on {missing}", where=f, node=rets[0], facts={"slice": sorted(live)[:12]})
    ctx.floor(n, 3)


def r7_checks_precede_optimiser(ctx):
    """In run_calibration the fitting problem (whose constructor performs the range checks before slicing the targets) is constructed before the archipelago; inside the constructor both check_fit_ranges calls dominate the slicing of the targets."""
    rc = ctx.func("pyxel.calibration.calibration:Calibration.run_calibration")
    g = ctx.cfg(rc)
    fit = [c for c in calls_in(rc.node) if call_name(c) == "ModelFittingDataTree"]
    arch = [c for c in calls_in(rc.node) if call_name(c) == "ArchipelagoDataTree"]
    ok = len(fit) == 1 and len(arch) == 1
    if ok:
        fn = [n for n in g.nodes if n.ast is not None and n.kind == "stmt" and contains(n.ast, fit[0])]
        an = [n for n in g.nodes if n.ast is not None and n.kind == "stmt" and contains(n.ast, arch[0])]
        ok = all(g.must_precede(fn, a) for a in an) and dotted(kw(arch[0], "problem")) == dotted(enclosing_stmt(fit[0]).target if isinstance(enclosing_stmt(fit[0]), ast.AnnAssign) else enclosing_stmt(fit[0]).targets[0])
    ctx.check(ok, rc.qual + "#order", "the checked problem is built first and is the one optimised" if ok else "the optimiser does not start from the range-checked problem", where=rc, node=arch[0] if arch else rc.node)
    init = ctx.func(f"{FD}.__init__")
    gi = ctx.cfg(init)
    calls = stmt_calls(init, ctx.R, {f"{U}:check_fit_ranges"})
    cn = [n for c in calls for n in gi.nodes if n.ast is not None and n.kind == "stmt" and contains(n.ast, c)]
    sl = [st for st, t in stores(init.node, lambda t: dotted(t) == "self.all_target_data") if "isel" in norm(getattr(st, "value", None))]
    ok = bool(sl) and all(gi.must_precede(cn, n) for st in sl for n in gi.nodes_of(st))
    ctx.check(ok, init.qual + "#check-before-slice", "check_fit_ranges dominates the slicing of the targets" if ok else "targets can be sliced without the range check", where=init, node=sl[0] if sl else init.node)


FORMULAS = {
    "sum_of_abs_residuals": ["float(np.nansum(np.abs(weighting * (target - simulated))))", "float(np.nansum(np.abs(weighting * (simulated - target))))", "float(np.nansum(weighting * np.abs(target - simulated)))", "float(np.nansum(weighting * np.abs(simulated - target)))"],
    "sum_of_squared_residuals": ["float(np.nansum(weighting * (target - simulated) ** 2))"],
    "reduced_chi_squared": [
        "float(np.nansum(np.square((target - simulated) / weighting))) / (np.isfinite(target - simulated).sum() - free_parameters)",
        "float(np.nansum(np.square((simulated - target) / weighting))) / (np.isfinite(simulated - target).sum() - free_parameters)",
    ],
}


def r8_builtin_formulas(ctx):
    """Each built-in figure of merit equals its documented formula as a polynomial identity in (simulated, target, weighting): sum |w (t - s)|, sum w (t - s)^2, sum ((t - s)/w)^2 / (N_finite - free_parameters). Helper functions are inlined and algebraic rearrangements are accepted; a different power of the weighting is not."""
    from sa.symexec import SymExec

    sx = SymExec(ctx)
    for name, forms in FORMULAS.items():
        f = ctx.func(f"pyxel.calibration.fitness:{name}")
        got = sx.function(f, {})
        if got is None:
            raise AnalysisError(f"{f.qual}: body outside the straight-line evaluator")
        wants = [sx.expr(f, ast.parse(src, mode="eval").body, {}) for src in forms]
        ok = any(got == w for w in wants)
        ctx.check(ok, f.qual + "#formula", f"= {forms[0]}" if ok else f"evaluates to {got!r}, which is not the documented {forms[0]}", where=f, node=[r for r in returns_of(f)][0], facts={"normal_form": repr(got)[:300]})


def r9_resimulated_data_layout(ctx):
    """The simulated data returned with the champions is read from the re-simulation in the layout the re-simulation produces: _apply_parameters runs run_pipeline(with_inherited_coords=<L>); extract_data_3d must address the buckets as '/bucket/<name>' when <L> is True and as '<name>' when it is False - otherwise the returned (lazy) simulated data raises as soon as it is computed."""
    ap = ctx.func(f"{FD}._apply_parameters")
    runs = stmt_calls(ap, ctx.R, {"pyxel.exposure.exposure:run_pipeline"})
    ex = ctx.func("pyxel.calibration.archipelago_datatree:extract_data_3d")
    if len(runs) != 1:
        ctx.fail(ap.qual + "#resimulate", f"{len(runs)} run_pipeline calls in the re-simulation", where=ap, node=ap.node)
        return
    lay = kw(runs[0], "with_inherited_coords")
    hier = isinstance(lay, ast.Constant) and lay.value is True
    flat = lay is None or (isinstance(lay, ast.Constant) and lay.value is False)
    keys = []
    for sub in ast.walk(ex.node):
        if isinstance(sub, ast.Subscript) and isinstance(sub.slice, ast.Constant) and isinstance(sub.slice.value, str) and dotted(sub.value) == "data_tree":
            keys.append((sub.slice.value, sub))
    ctx.floor(len(keys), 3)
    for k, node in keys:
        in_bucket = k.lstrip("/").startswith("bucket/")
        ok = (hier and in_bucket) or (flat and not in_bucket)
        if not (hier or flat):
            ok = False
        ctx.check(ok, f"{ex.qual}#layout:{k.split('/')[-1]}", f"reads '{k}' from the layout the re-simulation produces" if ok else f"reads data_tree['{k}'] but the re-simulation (_apply_parameters: with_inherited_coords={norm(lay)}) stores the buckets {'under /bucket' if hier else 'at the root'}: computing the returned simulated data raises KeyError", where=ex, node=node)


def r10_reported_champions(ctx):
    """The reported champion decision / fitness are the archipelago's champions (get_champions_x / get_champions_f, which pygmo never lets get worse), not e.g. the best individual of the current population, and the reported parameters are their conversion (shared with C10.R4)."""
    from props.C10 import r4_single_conversion

    r4_single_conversion(ctx)


def r11_fitness_and_resimulation_agree(ctx):
    """Re-simulating the champion reproduces its fitness only if fitness() and _apply_parameters() run the pipeline the same way: both call run_pipeline with the same readout, seed, outputs and debug arguments (sibling agreement)."""
    fit = ctx.func(f"{FD}.fitness")
    ap = ctx.func(f"{FD}._apply_parameters")
    rf = stmt_calls(fit, ctx.R, {"pyxel.exposure.exposure:run_pipeline"})
    ra = stmt_calls(ap, ctx.R, {"pyxel.exposure.exposure:run_pipeline"})
    if len(rf) != 1 or len(ra) != 1:
        ctx.fail(fit.qual + "#siblings", f"{len(rf)} / {len(ra)} run_pipeline calls in fitness / _apply_parameters", where=fit, node=fit.node)
        return
    for k in ("readout", "pipeline_seed", "outputs", "debug"):
        a, b = kw(rf[0], k), kw(ra[0], k)
        ta = norm(expand(fit, a)) if a is not None else None
        tb = norm(expand(ap, b)) if b is not None else None
        ok = ta == tb and ta is not None
        ctx.check(ok, fit.qual + f"#siblings:{k}", f"{k}={ta} in the evaluation and in the re-simulation" if ok else f"the fitness evaluation runs with {k}={ta} but the re-simulation of the champions with {k}={tb}: the reported fitness / simulated data are not those of the reported parameters", where=fit, node=rf[0])


def r12_each_target_has_its_own_processor(ctx):
    """"Each paired with its own input arguments": build_processors gives every (target, input arguments) pair its own deep copy of the whole processor - a shared detector would receive the LAST pair's `detector.*` input arguments for all targets (shared with C06.R1)."""
    from props.C06 import r1_fresh_copy_per_run

    r1_fresh_copy_per_run(ctx)


def r13_task_identity(ctx):
    """"Each paired with its own input arguments": the champion re-simulations are dask tasks built in nested loops (target/input pair x island); dask identifies a task by its key, so an explicit key / name (dask_key_name=, name=, token=) must distinguish every iteration of every enclosing loop - otherwise tasks of different pairs collapse into one and every target is given the first pair's simulation. Checked for every explicitly keyed task of the package."""
    n = 0
    for f in sorted(ctx.repo.all_functions(), key=lambda x: x.qual):
        for c in calls_in(f.node):
            keyed = [k for k in c.keywords if k.arg in ("dask_key_name", "name", "token", "key") and (k.arg == "dask_key_name" or "delayed" in norm(c.func))]
            if not keyed:
                continue
            from sa.index import ancestors as _anc3

            loops_ = [a for a in _anc3(c) if isinstance(a, (ast.For, ast.AsyncFor, ast.comprehension))]
            if not loops_:
                continue
            n += 1
            used = names_in(expand(f, keyed[0].value))
            missing = [norm(l_.target) for l_ in loops_ if not (used & {x.id for x in ast.walk(l_.target) if isinstance(x, ast.Name)})]
            ctx.check(not missing, f"{f.qual}#task-key", "the explicit task key distinguishes every iteration of the enclosing loops" if not missing else f"the task key `{norm(keyed[0].value)[:60]}` does not depend on the loop over `{missing[0]}`: the tasks of different iterations share one key, dask computes one of them and hands its result to all (every target gets the first pair's simulation)", where=f, node=c)
    ctx.note(f"explicitly keyed dask tasks inside loops: {n}")


FIXTURES = dict(globals().get("FIXTURES", {}), r13_task_identity={"dir": "c11_r13", "expect_construct": "#task-key"})


def r14_targets_are_read_afresh(ctx):
    """"Applied to ... the target data": the target and weight files are read when the problem is built - no file reader on that path is memoised on the file NAME alone (a regenerated file would still give the old targets; shared with C20.R1)."""
    from props.C20 import r1_no_stale_cache

    r1_no_stale_cache(ctx)


RULES = [r14_targets_are_read_afresh, r13_task_identity, r12_each_target_has_its_own_processor, r10_reported_champions, r11_fitness_and_resimulation_agree, r9_resimulated_data_layout, r8_builtin_formulas, r1_extent_check, r2_upper_bound, r3_same_range_both_sides, r4_accumulation_and_pairing, r5_weights_reach_function, r6_builtins_use_inputs, r7_checks_precede_optimiser]
