"""C10 - calibration candidates map to the right parameters, inside their bounds."""

from __future__ import annotations

import ast

from sa.astutil import (
    arg_or_kw,
    call_name,
    calls_in,
    contains,
    enclosing_loop,
    enclosing_tests,
    expand,
    kw,
    local_defs,
    loops_in,
    names_in,
    order_breakers,
    raising_ifs,
    returns_of,
    stmt_calls,
    stores,
)
from sa.index import AnalysisError, dotted, enclosing_stmt, norm, walk_ordered
from sa.paths import enumerate_paths
from sa.poly import to_poly

EXPLANATION = (
    "Sibling slice-walk analysis of the four functions that walk the calibrated variables "
    "(_set_bound, convert_to_parameters, update_processor, the parameter count): per variable the "
    "width is 1 for '_' and len(values) for a list, the offset advances by that width exactly once "
    "per variable, every slice is [a] or [a:a+width]; log10/10** applied exactly under "
    "`logarithmic` to the variable's own slice and to both bounds; boundary columns 0/1 map to "
    "lower/upper; fitness applies convert_to_parameters' result, and champions/best individuals "
    "report convert_to_parameters of the very decision array they report."
)
NOT_DECIDED = ["that pygmo keeps candidates inside the box it is given (trusted)", "numeric value of 10**x"]
ASSUMPTIONS = ["pygmo algorithms respect get_bounds()", "ParameterValues.values is '_' or a list of '_' for calibrated variables (enforced by _set_bound's raise in the constructor)"]

FD = "pyxel.calibration.fitting_datatree:ModelFittingDataTree"
AD = "pyxel.calibration.archipelago_datatree:ArchipelagoDataTree"
PV = "pyxel.observation.parameter_values:ParameterValues"


def _var_loop(ctx, f):
    lps = [l for l in loops_in(f.node) if isinstance(l, ast.For) and dotted(expand(f, l.iter)) == "self._variables"]
    if len(lps) != 1 or not isinstance(lps[0].target, ast.Name):
        return None
    return lps[0]


def _kind(p, v):
    """Which kind of calibrated variable a path of a walker's loop body handles."""
    sc = p.holds(f"{v}.values == '_'")
    if sc is True:
        return "scalar"
    for t, pol in p.cond_texts():
        if f"isinstance({v}.values, " in t and not t.startswith("not "):
            if pol:
                return "vector"
            return "scalar" if sc is None else "other"
    return "other" if sc is False else "unsplit"


def _width_poly(v, kind):
    return to_poly(ast.parse(f"len({v}.values)" if kind == "vector" else "1", mode="eval").body)


def _walk(ctx, f, label):
    """Paths through one iteration of a walker + its loop-carried offset (name, paths) or None."""
    lp = _var_loop(ctx, f)
    c = f"{f.qual}#{label}"
    if lp is None:
        ctx.fail(c + "-loop", "does not iterate self._variables directly (declaration order is the only order)", where=f, node=f.node)
        return None
    v = lp.target.id
    paths = [p for p in enumerate_paths(lp.body, containers=set())]
    for p in paths:
        if p.exit == "continue" and _kind(p, v) == "other":
            continue  # a variable that is neither '_' nor a list cannot exist (the constructor's _set_bound raises for it)
        if p.exit in ("continue", "break", "return"):
            ctx.fail(c + "-exit", f"{p.exit} inside the walk skips variables under {p.cond_texts()}", where=f, node=p.exit_node)
    paths = [p for p in paths if p.exit == "fall"]
    # loop-carried names: assigned on some path from their own previous value
    carried = set()
    for p in paths:
        for nm, val in p.env.items():
            if nm.isidentifier() and nm in names_in(val):
                carried.add(nm)
    return lp, v, paths, carried


def _check_offset(ctx, f, lp, v, paths, off, what="offset"):
    inits = [val for st, val in local_defs(f, off) if not contains(lp, st)]
    ok = len(inits) == 1 and isinstance(inits[0], ast.Constant) and inits[0].value == 0
    ctx.check(ok, f.qual + f"#{what}-init", f"`{off}` starts at 0" if ok else f"{what} `{off}` does not start at 0", where=f, node=f.node)
    for p in paths:
        k = _kind(p, v)
        if k == "other":
            continue  # neither '_' nor a list: excluded by _set_bound's raise in the constructor
        fin = p.env.get(off)
        if k == "unsplit":
            okk = False
            why = f"{what} does not distinguish '_' from a list of '_' (path {p.cond_texts()})"
        elif fin is None:
            okk, why = False, f"{what} `{off}` is not advanced for a {k} variable (path {p.cond_texts()})"
        else:
            d = to_poly(fin) - to_poly(ast.Name(id=off, ctx=ast.Load()))
            okk = d == _width_poly(v, k)
            why = f"{k}: {off} advances by {'len(values)' if k == 'vector' else '1'}" if okk else f"{k} variable: `{off}` becomes {norm(fin)} (expected {off} + {'len(' + v + '.values)' if k == 'vector' else '1'})"
        ctx.check(okk, f.qual + f"#advance:{k}:{'log' if p.holds(v + '.logarithmic') else 'lin'}", why, where=f, node=lp, facts={"path": [f"{t}={pol}" for t, pol in p.cond_texts()]})


def _slice_ok(target: ast.expr, base: str, off: str, v: str, kind: str, allow_index: bool):
    """target is base[..., off:off+W] / base[off:off+W] (vector or scalar) or base[off] (scalar)."""
    if not (isinstance(target, ast.Subscript) and dotted(target.value) == base):
        return False, f"not an access to {base}"
    sl = target.slice
    if isinstance(sl, ast.Tuple):
        if not sl.elts or not all(isinstance(e, ast.Constant) and e.value is Ellipsis for e in sl.elts[:-1]):
            return False, f"unexpected index {norm(sl)}"
        sl = sl.elts[-1]
    if isinstance(sl, ast.Slice):
        if sl.lower is None or sl.upper is None or sl.step is not None:
            return False, f"open slice {norm(sl)}"
        ok = dotted(sl.lower) == off and (to_poly(sl.upper) - to_poly(sl.lower)) == _width_poly(v, kind)
        return ok, f"[{norm(sl.lower)}:{norm(sl.upper)}]"
    if allow_index and kind == "scalar":
        return dotted(sl) == off, f"[{norm(sl)}]"
    return False, f"[{norm(sl)}] for a {kind} variable"


def r1_slice_walk(ctx):
    """convert_to_parameters, update_processor and the parameter count walk self._variables with width 1 ('_') / len(values) (list): on every path through one iteration the offset ends at offset + width, and the decision / parameter vector is addressed as [offset] or [offset:offset+width]; _set_bound appends exactly one lower and one upper block per variable and raises for any other shape of `values`.  Decided on path summaries (sa/paths.py), so intermediates, helper methods and if/elif vs guard clauses do not matter."""
    for name, base in (("convert_to_parameters", "parameters"), ("update_processor", None)):
        f = ctx.func(f"{FD}.{name}")
        r = _walk(ctx, f, "walk")
        if r is None:
            continue
        lp, v, paths, carried = r
        if order_breakers(lp.iter):
            ctx.fail(f.qual + "#walk-loop", f"iterates {norm(lp.iter)}", where=f, node=lp.iter)
        base = base or f.params[1]
        if len(carried) != 1:
            ctx.fail(f.qual + "#offset", f"expected one offset variable advanced in the loop, found {sorted(carried)}", where=f, node=lp)
            continue
        off = next(iter(carried))
        _check_offset(ctx, f, lp, v, paths, off)
        n_acc = 0
        for p in paths:
            k = _kind(p, v)
            if k in ("other", "unsplit"):
                continue
            # every access to the vector on this path: stores into it, and reads handed to set()
            accs = []
            for e in p.effects:
                if e.kind == "store":
                    try:
                        t = ast.parse(e.target, mode="eval").body
                    except SyntaxError:
                        continue
                    if isinstance(t, ast.Subscript) and dotted(t.value) == base:
                        accs.append((t, e.node))
                for sub in ast.walk(e.value) if e.value is not None else []:
                    if isinstance(sub, ast.Subscript) and dotted(sub.value) == base:
                        accs.append((sub, e.node))
            for t, node in accs:
                n_acc += 1
                ok, why = _slice_ok(t, base, off, v, k, allow_index=(name == "update_processor"))
                ctx.check(ok, f.qual + f"#slice:{k}", f"{k} variable addresses {base}{why}" if ok else f"{k} variable addresses {base}{why}: not its own [{off}:{off}+width] block", where=f, node=node)
        if not n_acc:
            ctx.fail(f.qual + "#slices", "no access to the decision/parameter vector inside the walk", where=f, node=lp)
    # update_processor: set(key=var.key, value=<that block>) once per variable
    up = ctx.func(f"{FD}.update_processor")
    r = _walk(ctx, up, "walk")
    if r is not None:
        lp, v, paths, carried = r
        pn = up.params[1]
        for p in paths:
            k = _kind(p, v)
            if k in ("other", "unsplit"):
                continue
            sets = [e for e in p.effects if e.kind == "call" and e.target.endswith(".set")]
            ok = len(sets) == 1 and kw(sets[0].value, "key") is not None and norm(kw(sets[0].value, "key")) == f"{v}.key"
            ctx.check(ok, up.qual + f"#keys:{k}", "the block is assigned to its own variable's key, once" if ok else f"{k} variable: {len(sets)} set() calls / not assigned to {v}.key", where=up, node=sets[0].node if sets else lp)
            for e in sets:
                val = kw(e.value, "value")
                okv = val is not None and isinstance(val, ast.Subscript) and dotted(val.value) == pn
                ctx.check(okv, up.qual + f"#value:{k}", f"value = {pn}[...]" if okv else f"value assigned is {norm(val)}", where=up, node=e.node)
    # parameter count in __init__
    init = ctx.func(f"{FD}.__init__")
    r = _walk(ctx, init, "count")
    if r is not None:
        lp, v, paths, carried = r
        if carried != {"num_parameters"} and "num_parameters" not in carried:
            ctx.fail(init.qual + "#count", f"the parameter count does not add each variable's width once (loop-carried: {sorted(carried)})", where=init, node=lp)
        else:
            _check_offset(ctx, init, lp, v, paths, "num_parameters", what="count")
    # _set_bound
    sb = ctx.func(f"{FD}._set_bound")
    lp = _var_loop(ctx, sb)
    if lp is None:
        ctx.fail(sb.qual + "#walk-loop", "does not iterate self._variables directly", where=sb, node=sb.node)
        return
    if order_breakers(lp.iter):
        ctx.fail(sb.qual + "#walk-loop", f"iterates {norm(lp.iter)}", where=sb, node=lp.iter)
    v = lp.target.id
    lo_name, hi_name = _bound_lists(sb)
    if lo_name is None:
        ctx.fail(sb.qual + "#return", "does not return (lower list, upper list)", where=sb, node=sb.node)
        return
    paths = enumerate_paths(lp.body, containers={lo_name, hi_name})
    for p in paths:
        k = _kind(p, v)
        if p.exit in ("continue", "break", "return"):
            ctx.fail(sb.qual + "#walk-exit", f"{p.exit} inside the walk skips variables", where=sb, node=p.exit_node)
            continue
        if k in ("other", "unsplit") and p.exit != "raise":
            # a shape that is neither '_' nor a list of '_' must raise: the other walkers rely on it
            scalar_or_vector = p.holds(f"{v}.values == '_'") is True or any(pol and f"{v}.values" in t and "'_'" in t for t, pol in p.cond_texts())
            if not scalar_or_vector:
                ctx.fail(sb.qual + "#other-shapes", "a variable that is neither '_' nor a list of '_' is accepted silently", where=sb, node=lp, facts={"path": p.cond_texts()})
                continue
        if p.exit == "raise":
            continue
        lo, hi = p.extends(lo_name), p.extends(hi_name)
        kk = "scalar" if p.holds(f"{v}.values == '_'") else "vector"
        ok = len(lo) == 1 and len(hi) == 1
        ctx.check(ok, sb.qual + f"#{kk}-append:{_pathkey(p, v)}", "one lower and one upper block per variable" if ok else f"{kk} branch does not append to both bound lists exactly once ({len(lo)} lower, {len(hi)} upper) on path {p.cond_texts()}", where=sb, node=(p.effects[0].node if p.effects else lp))
    ok = any(p.exit == "raise" and p.holds(f"{v}.values == '_'") is False for p in paths)
    ctx.check(ok, sb.qual + "#other-shapes", "any other shape of `values` raises (invariant the other walkers rely on)" if ok else "a variable that is neither '_' nor a list of '_' is accepted silently", where=sb, node=lp)


def _pathkey(p, v):
    out = []
    for t, pol in p.cond_texts():
        if t == f"{v}.logarithmic":
            out.append("log" if pol else "lin")
        elif "ndim" in t and pol:
            out.append("ndim" + t.split("==")[-1].strip())
    return "-".join(out) or "all"


def _bound_lists(sb):
    rets = [r for r in returns_of(sb) if r.value is not None]
    if len(rets) == 1 and isinstance(rets[0].value, ast.Tuple) and len(rets[0].value.elts) == 2 and all(isinstance(e, ast.Name) for e in rets[0].value.elts):
        return rets[0].value.elts[0].id, rets[0].value.elts[1].id
    return None, None


def _strip_bound(e: ast.expr):
    """(core expression, number of log10 layers) of an appended bound block: list()/tolist()/
    np.array() wrappers and log10 layers are peeled off."""
    logs = 0
    while True:
        if isinstance(e, ast.Call) and isinstance(e.func, ast.Attribute) and e.func.attr == "tolist" and not e.args:
            e = e.func.value
        elif isinstance(e, ast.Call) and call_name(e) in ("list", "np.array", "numpy.array", "np.asarray", "tuple") and len(e.args) == 1 and not e.keywords:
            e = e.args[0]
        elif isinstance(e, ast.Call) and call_name(e) in ("math.log10", "np.log10", "numpy.log10", "log10") and len(e.args) == 1:
            logs += 1
            e = e.args[0]
        else:
            return e, logs


def _bound_core(e: ast.expr, v: str):
    """Classify the core of an appended block: ("scalar", col) for [B[col]], ("broadcast", col) for
    [B[col]] * len(values), ("column", col) for B[:, col]; the log10 layers found inside are added."""
    core, logs = _strip_bound(e)
    B = f"{v}.boundaries"
    if isinstance(core, ast.List) and len(core.elts) == 1:
        inner, l2 = _strip_bound(core.elts[0])
        for col in (0, 1):
            if norm(inner) == f"{B}[{col}]":
                return "scalar", col, logs + l2
    if isinstance(core, ast.BinOp) and isinstance(core.op, ast.Mult):
        for lst, n in ((core.left, core.right), (core.right, core.left)):
            if isinstance(lst, ast.List) and len(lst.elts) == 1 and norm(n) == f"len({v}.values)":
                inner, l2 = _strip_bound(lst.elts[0])
                for col in (0, 1):
                    if norm(inner) == f"{B}[{col}]":
                        return "broadcast", col, logs + l2
    if isinstance(core, ast.Call) and call_name(core) in ("np.full", "numpy.full", "np.repeat", "numpy.repeat") and len(core.args) == 2:
        a0, a1 = core.args
        if call_name(core).endswith("repeat"):
            a0, a1 = a1, a0
        inner, l2 = _strip_bound(a1)
        if norm(a0) == f"len({v}.values)":
            for col in (0, 1):
                if norm(inner) == f"{B}[{col}]":
                    return "broadcast", col, logs + l2
    for col in (0, 1):
        if norm(core) == f"{B}[:, {col}]":
            return "column", col, logs
    return None, None, logs


def r2_log_pairing(ctx):
    """_set_bound: on every path the appended lower AND upper block carry exactly one log10 when `var.logarithmic` holds on that path and none when it does not (a path that never tests it cannot be right for both); convert_to_parameters writes 10 ** block back to the same block exactly on the logarithmic paths and nothing otherwise, on a copy of the decision vector that it returns."""
    sb = ctx.func(f"{FD}._set_bound")
    lp = _var_loop(ctx, sb)
    if lp is None:
        return
    v = lp.target.id
    lo_name, hi_name = _bound_lists(sb)
    if lo_name is None:
        return
    n = 0
    for p in enumerate_paths(lp.body, containers={lo_name, hi_name}):
        if p.exit != "fall":
            continue
        lg = p.holds(f"{v}.logarithmic")
        for nm, label in ((lo_name, "lower"), (hi_name, "upper")):
            for e in p.extends(nm):
                n += 1
                _, _, logs = _bound_core(e, v)
                if lg is None:
                    ok, why = False, f"{label} bound {norm(e)[:70]} is appended on a path that never tests `{v}.logarithmic`: logarithmic and linear variables get the same bounds"
                elif lg:
                    ok = logs == 1
                    why = "log10 of the bound for a logarithmic variable" if ok else f"logarithmic variable: {label} bound appended as {norm(e)[:70]} ({logs} log10 applications instead of one)"
                else:
                    ok = logs == 0
                    why = "bound as declared for a linear variable" if ok else f"linear variable: {label} bound appended as {norm(e)[:70]} (log10 applied outside `{v}.logarithmic`)"
                kind_ = "scalar" if p.holds(v + ".values == '_'") else "vector"
                ctx.check(ok, sb.qual + f"#log:{label}:{kind_}:{_pathkey(p, v)}", why, where=sb, node=next((x.node for x in p.effects if x.value is e), lp))
    ctx.floor(n, 8, rule="C10.R2")
    cp = ctx.func(f"{FD}.convert_to_parameters")
    r = _walk(ctx, cp, "walk")
    if r is None:
        return
    lp, v, paths, carried = r
    for p in paths:
        k = _kind(p, v)
        if k in ("other", "unsplit"):
            continue
        lg = p.holds(f"{v}.logarithmic")
        ws = [e for e in p.effects if e.kind == "store" and e.target.startswith("parameters[")]
        key = cp.qual + f"#pow10:{k}:{'log' if lg else 'lin'}"
        if lg is None:
            ctx.fail(key, "10 ** is not decided by `var.logarithmic` on this path", where=cp, node=lp)
        elif not lg:
            ctx.check(not ws, key, "linear variable: value passed through unchanged" if not ws else f"linear variable is rewritten: {ws[0]}", where=cp, node=ws[0].node if ws else lp)
        else:
            ok = len(ws) == 1
            why = f"{len(ws)} writes into the parameter vector for a logarithmic variable"
            if ok:
                val = ws[0].value
                tgt = ws[0].target
                pow_ok = isinstance(val, ast.Call) and call_name(val) in ("np.power", "numpy.power") and len(val.args) == 2 and norm(val.args[0]) in ("10", "10.0") and norm(val.args[1]) == tgt
                pow_ok = pow_ok or (isinstance(val, ast.BinOp) and isinstance(val.op, ast.Pow) and norm(val.left) in ("10", "10.0") and norm(val.right) == tgt)
                ok = pow_ok
                why = "10 ** block written back to the same block" if ok else f"write `{tgt} = {norm(val)[:70]}` is not 10 ** (the same block)"
            ctx.check(ok, key, why, where=cp, node=ws[0].node if ws else lp)
    # the conversion works on a copy of the decision vector and returns it
    d = local_defs(cp, "parameters")
    ok = len(d) == 1 and norm(d[0][1]) in (f"np.array({cp.params[1]})", f"np.array({cp.params[1]}, dtype=float)", f"np.copy({cp.params[1]})")
    rets = [r_ for r_ in returns_of(cp) if r_.value is not None]
    ok = ok and len(rets) == 1 and dotted(rets[0].value) == "parameters"
    ctx.check(ok, cp.qual + "#copy", "works on and returns a copy of the decision vector" if ok else "conversion does not return a converted copy of the decision vector", where=cp, node=d[0][0] if d else cp.node)


def r3_per_component_boundaries(ctx):
    """_set_bound, per path: a '_' variable appends [boundaries[0]] to the lower and [boundaries[1]] to the upper list; a list variable with 1-D boundaries appends the pair broadcast to len(values) entries, with 2-D boundaries column 0 to the lower and column 1 to the upper list; ParameterValues validates the shapes (len(values), 2) / (2,)."""
    sb = ctx.func(f"{FD}._set_bound")
    lp = _var_loop(ctx, sb)
    if lp is None:
        return
    v = lp.target.id
    lo_name, hi_name = _bound_lists(sb)
    if lo_name is None:
        return
    n = 0
    for p in enumerate_paths(lp.body, containers={lo_name, hi_name}):
        if p.exit != "fall":
            continue
        scalar = p.holds(f"{v}.values == '_'") is True
        nd = 2 if p.holds(f"{v}.boundaries.ndim == 2") else (1 if p.holds(f"{v}.boundaries.ndim == 1") else None)
        want_shape = "scalar" if scalar else ("column" if nd == 2 else "broadcast" if nd == 1 else None)
        for nm, col, label in ((lo_name, 0, "lower"), (hi_name, 1, "upper")):
            for e in p.extends(nm):
                n += 1
                shape, c, _ = _bound_core(e, v)
                ok = shape is not None and c == col and (want_shape is None or shape == want_shape)
                if ok:
                    why = {"scalar": f"[boundaries[{col}]]", "broadcast": f"boundaries[{col}] broadcast to len(values) components", "column": f"column {col} of the per-component boundaries"}[shape] + f" -> {label} bounds"
                elif shape is not None and c != col:
                    why = f"{label} bounds are built from boundaries column/entry {c}: lower and upper are swapped"
                elif shape is not None:
                    why = f"{label} bounds for {'a scalar' if scalar else f'{nd}-D boundaries'} appended as {norm(e)[:70]} ({shape})"
                else:
                    why = f"{label} bounds appended as {norm(e)[:80]}: not the variable's declared boundaries"
                ctx.check(ok, sb.qual + f"#columns:{label}:{want_shape or 'any'}:{_pathkey(p, v)}", why, where=sb, node=next((x.node for x in p.effects if x.value is e), lp))
    ctx.floor(n, 8, rule="C10.R3")
    pv = ctx.func(f"{PV}.__init__")
    gs = raising_ifs(pv.node)
    t1 = [i for i in gs if norm(expand(pv, i.test, _seen={"boundaries_array"})) == "boundaries_array.shape != (2,)"]
    t2 = [i for i in gs if norm(expand(pv, i.test, _seen={"boundaries_array"})) == "boundaries_array.shape != (len(values), 2)"]
    ok = len(t1) == 1 and len(t2) == 1
    ctx.check(ok, pv.qual + "#shape", "boundary shapes (2,) / (len(values), 2) enforced" if ok else "ParameterValues no longer validates the shape of the boundaries", where=pv, node=(t1 + t2 + [pv.node])[0])
    # the array is the declared pairs in the declared order (component i keeps ITS pair)
    bdefs = [val for st_, val in local_defs(pv, "boundaries_array") if val is not None and not (isinstance(val, ast.Constant) and val.value is None)]
    okb = len(bdefs) == 1 and isinstance(bdefs[0], ast.Call) and call_name(bdefs[0]) in ("np.array", "np.asarray", "numpy.array", "numpy.asarray") and bdefs[0].args and dotted(bdefs[0].args[0]) == "boundaries" and not order_breakers(bdefs[0])
    ctx.check(okb, pv.qual + "#as-declared", "boundaries array = np.array(boundaries): pairs kept as declared, in declaration order" if okb else f"the boundaries are rewritten before use ({norm(bdefs[0])[:70] if bdefs else 'no definition'}): component i may get another component's pair", where=pv, node=bdefs[0] if bdefs else pv.node)
    sts = [st for st, t in stores(pv.node, lambda t: dotted(t) == "self._boundaries")]
    ok = len(sts) == 1 and dotted(sts[0].value) == "boundaries_array"
    ctx.check(ok, pv.qual + "#store", "stores the validated array" if ok else "stores something else than the validated boundaries", where=pv, node=sts[0] if sts else pv.node)


def r4_single_conversion(ctx):
    """fitness hands convert_to_parameters(decision) (not the raw vector) to update_processor; _get_champions and get_best_individuals report convert_to_parameters of the same decision array they report; get_bounds returns the vectors built by _set_bound; the champions re-simulated are champion_parameters."""
    fit = ctx.func(f"{FD}.fitness")
    dv = fit.params[1]
    ups = stmt_calls(fit, ctx.R, {f"{FD}.update_processor"})
    ok = len(ups) == 1
    why = f"{len(ups)} update_processor calls"
    if ok:
        a = kw(ups[0], "parameter") or (ups[0].args[0] if ups[0].args else None)
        ax = expand(fit, a) if a is not None else None
        ok = isinstance(ax, ast.Call) and dotted(ax.func) == "self.convert_to_parameters" and len(ax.args) == 1 and dotted(ax.args[0]) == dv
        why = "update_processor(parameter=convert_to_parameters(decision))" if ok else f"update_processor receives {norm(ax)[:70]}: logarithmic variables would be applied as exponents"
    ctx.check(ok, fit.qual + "#converted", why, where=fit, node=ups[0] if ups else fit.node)
    gc = ctx.func(f"{AD}._get_champions")
    from sa.astutil import dict_display

    def _dataset_entries(f_):
        """name -> value of the variables of the Dataset a function returns: `ds = xr.Dataset(); ds["k"] = v; return ds`
        and `return xr.Dataset({"k": v})` are the same mapping."""
        rets_ = [r for r in returns_of(f_) if r.value is not None]
        if len(rets_) != 1:
            return {}, None
        v_ = rets_[0].value
        if isinstance(v_, ast.Name):
            dd = dict_display(f_, v_.id)
            return ({k.value: x for k, x in zip(dd.keys, dd.values) if k is not None} if dd is not None else {}), v_.id
        v_ = expand(f_, v_)
        if isinstance(v_, ast.Call) and call_name(v_).split(".")[-1] == "Dataset" and v_.args and isinstance(expand(f_, v_.args[0]), ast.Dict):
            d_ = expand(f_, v_.args[0])
            return {k.value: x for k, x in zip(d_.keys, d_.values) if isinstance(k, ast.Constant)}, None
        return {}, None

    sts, ds_name = _dataset_entries(gc)
    ok = {"champion_decision", "champion_parameters", "champion_fitness"} <= set(sts)
    if ok:
        keep_ = {ds_name} if ds_name else set()
        dec = expand(gc, sts["champion_decision"], _seen=set(keep_))
        par = expand(gc, sts["champion_parameters"], _seen=set(keep_))
        fitv = expand(gc, sts["champion_fitness"], _seen=set(keep_))
        conv = [c for c in ast.walk(par) if isinstance(c, ast.Call) and isinstance(c.func, ast.Attribute) and c.func.attr == "convert_to_parameters"]
        ok = "get_champions_x()" in norm(dec) and "get_champions_f()" in norm(fitv) and len(conv) == 1 and dotted(conv[0].func.value) == "self.problem"
        if ok:
            a_ = arg_or_kw(conv[0], 0, "decisions_vector")
            same = a_ is not None and (norm(a_) == f"{ds_name}['champion_decision']" or norm(expand(gc, a_, _seen=set(keep_))) == norm(dec) or (norm(expand(gc, a_, _seen=set(keep_))).endswith("get_champions_x()") and norm(expand(gc, a_, _seen=set(keep_))) in norm(dec)))
            ok = same
    ctx.check(ok, gc.qual, "champion_parameters = problem.convert_to_parameters(champion_decision)" if ok else "reported champion parameters are not the conversion of the reported champion decision", where=gc, node=sts.get("champion_parameters", gc.node))
    gb = ctx.func(f"{AD}.get_best_individuals")
    sts = {t.slice.value: st for st, t in stores(gb.node, lambda t: isinstance(t, ast.Subscript) and isinstance(t.slice, ast.Constant))}
    ok = {"best_decision", "best_parameters", "best_fitness"} <= set(sts)
    if ok:
        dec = sts["best_decision"].value
        par = expand(gb, sts["best_parameters"].value)
        dec_src = norm(dec.args[0]) if isinstance(dec, ast.Call) and dec.args else None
        conv = [c for c in ast.walk(par) if isinstance(c, ast.Call) and isinstance(c.func, ast.Attribute) and c.func.attr == "convert_to_parameters"]
        dec_x = norm(expand(gb, dec.args[0])) if dec_src is not None else None
        ok = dec_src is not None and len(conv) == 1 and norm(expand(gb, conv[0].args[0])) == dec_x and dec_x == "island.get_population().get_x()"
        fitv = norm(expand(gb, sts["best_fitness"].value))
        ok = ok and "island.get_population().get_f()" in fitv
    ctx.check(ok, gb.qual, "best_parameters = problem.convert_to_parameters(best_decision)" if ok else "reported best parameters are not the conversion of the reported decisions", where=gb, node=sts.get("best_parameters", gb.node) if isinstance(sts, dict) else gb.node)
    # the k best rows of every island are stacked POSITIONALLY: the per-island dataset carries no index
    # on 'individual' (with one, xr.concat outer-joins the labels: more than k rows, NaN padding)
    ipd = [v for s_, v in local_defs(gb, "island_population") if v is not None]
    ok_ip = len(ipd) == 1 and isinstance(ipd[0], ast.Call) and call_name(ipd[0]).endswith("Dataset") and not ipd[0].args and not ipd[0].keywords
    idx_calls = [c for c in calls_in(gb.node) if isinstance(c.func, ast.Attribute) and c.func.attr in ("assign_coords", "set_index", "set_coords") and any((k.arg == "individual") for k in c.keywords) and enclosing_loop(c) is not None]  # inside the island loop (the final relabelling after the concat is fine)
    ctx.check(ok_ip and not idx_calls, gb.qual + "#positional", "per-island best rows are stacked positionally (no 'individual' index)" if ok_ip and not idx_calls else "the per-island dataset is indexed by 'individual': concatenating islands aligns by label instead of stacking the k best rows", where=gb, node=(idx_calls or ipd or [gb.node])[0])
    gbd = ctx.func(f"{FD}.get_bounds")
    rets = [r for r in returns_of(gbd) if r.value is not None]
    ok = len(rets) == 1 and norm(rets[0].value) == "(self._lower_boundaries, self._upper_boundaries)"
    init = ctx.func(f"{FD}.__init__")
    un = [s for s in walk_ordered(init.node) if isinstance(s, ast.Assign) and norm(s.value) == "self._set_bound()"]
    ok = ok and len(un) == 1 and norm(un[0].targets[0]) in ("(lower_boundaries, upper_boundaries)", "lower_boundaries, upper_boundaries")
    for fld, src in (("self._lower_boundaries", "lower_boundaries"), ("self._upper_boundaries", "upper_boundaries")):
        sts_ = [st for st, t in stores(init.node, lambda t, fld=fld: dotted(t) == fld)]
        ok = ok and len(sts_) == 1 and dotted(sts_[0].value) == src
    sbr = [r for r in returns_of(ctx.func(f"{FD}._set_bound")) if r.value is not None]
    ok = ok and len(sbr) == 1 and norm(sbr[0].value) == "(lbd, ubd)"
    ctx.check(ok, gbd.qual, "get_bounds() = (lower, upper) exactly as built by _set_bound" if ok else "the box handed to the optimiser is not (lower, upper) as built by _set_bound", where=gbd, node=rets[0] if rets else gbd.node)
    re = ctx.func(f"{AD}.run_evolve")
    ap = [c for c in calls_in(re.node) if isinstance(c.func, ast.Attribute) and c.func.attr == "apply_parameters_to_processors"]
    ok = len(ap) == 1 and kw(ap[0], "parameters") is not None and norm(expand(re, kw(ap[0], "parameters"), depth=1)) in ("last_champions['champion_parameters']", "champions.isel(evolution=-1)['champion_parameters']")
    ctx.check(ok, re.qual + "#resimulate", "last champions re-simulated from champion_parameters" if ok else "champions are not re-simulated from the reported champion parameters", where=re, node=ap[0] if ap else re.node)
    app = ctx.func(f"{FD}._apply_parameters")
    ups = stmt_calls(app, ctx.R, {f"{FD}.update_processor"})
    ok = len(ups) == 1 and dotted(kw(ups[0], "parameter")) == app.params[2]
    ctx.check(ok, app.qual, "applies the given (already converted) parameters" if ok else "re-simulation applies different parameters", where=app, node=ups[0] if ups else app.node)
    # result tree nodes
    want = {"/champion/fitness": "champion_fitness", "/champion/decision": "champion_decision", "/champion/parameters": "champion_parameters", "/best/fitness": "best_fitness", "/best/decision": "best_decision", "/best/parameters": "best_parameters"}
    n = 0
    for st, t in stores(re.node, lambda t: isinstance(t, ast.Subscript) and isinstance(t.slice, ast.Constant) and t.slice.value in want):
        n += 1
        k = t.slice.value
        ok = norm(st.value) == f"champions['{want[k]}']"
        ctx.check(ok, re.qual + f"#{k}", f"{k} <- {want[k]}" if ok else f"result node {k} is filled from {norm(st.value)}", where=re, node=st)
    ctx.floor(n, 6)


def r5_copies_keep_the_declared_scale(ctx):
    """pygmo evaluates a deep copy of the problem: the copy hooks on the way to ParameterValues must keep every slot (`logarithmic`, `boundaries`), otherwise the copied problem applies raw exponents outside the declared bounds (shared with C06.R3)."""
    from props.C06 import r3_deepcopy_completeness

    r3_deepcopy_completeness(ctx)


def r6_copies_are_private(ctx):
    """A candidate's values are written into a processor that no other candidate can see: update_processor / create_new_processor work on a private deep copy of the whole processor, made BEFORE the values are set (shared with C06.R1)."""
    from props.C06 import r1_fresh_copy_per_run

    r1_fresh_copy_per_run(ctx)


def r7_vector_parameters_are_lists(ctx):
    """The walkers over the decision vector (_set_bound, convert_to_parameters, update_processor) recognise a vector parameter by `isinstance(var.values, list)` / Sequence tests that only agree for lists: ParameterValues therefore stores every non-scalar declaration as a fresh list - convert_values returns its input unchanged only for the scalar kinds (Simple type, the placeholder '_'), decided per path."""
    from sa.paths import enumerate_paths

    f = ctx.func("pyxel.observation.parameter_values:convert_values")
    v = f.params[0]
    n = 0
    for q_ in enumerate_paths(f.node.body):
        if q_.exit != "return" or q_.value is None:
            continue
        n += 1
        scalar = any(pol and ("ParameterType.Simple" in t or t in (f"{v} == '_'", f"'_' == {v}")) for t, pol in q_.cond_texts())
        val = q_.value
        fresh_list = isinstance(val, (ast.ListComp, ast.List)) or (isinstance(val, ast.Call) and call_name(val) == "list")
        ok = fresh_list or (scalar and dotted(val) == v)
        ctx.check(ok, f.qual + "#list", "scalar kinds pass through, every other declaration becomes a list" if ok else f"when {q_.cond_texts()[:3]} convert_values returns `{norm(val)[:50]}`: a vector declared as a tuple stays a tuple, which _set_bound counts as N components but convert_to_parameters / update_processor treat as one (offsets shift, the vector is never applied)", where=f, node=q_.exit_node or f.node)
    ctx.floor(n, 2)


RULES = [r6_copies_are_private, r7_vector_parameters_are_lists, r5_copies_keep_the_declared_scale, r1_slice_walk, r2_log_pairing, r3_per_component_boundaries, r4_single_conversion]
