"""C10 - calibration candidates map to the right parameters, inside their bounds."""

from __future__ import annotations

import ast

from sa.astutil import (
    arg_or_kw,
    call_name,
    calls_in,
    contains,
    enclosing_loop,
    enclosing_tests,
    expand,
    kw,
    local_defs,
    loops_in,
    names_in,
    order_breakers,
    raising_ifs,
    returns_of,
    stmt_calls,
    stores,
)
from sa.index import AnalysisError, dotted, enclosing_stmt, norm, walk_ordered
from sa.poly import to_poly

EXPLANATION = (
    "Sibling slice-walk analysis of the four functions that walk the calibrated variables "
    "(_set_bound, convert_to_parameters, update_processor, the parameter count): per variable the "
    "width is 1 for '_' and len(values) for a list, the offset advances by that width exactly once "
    "per variable, every slice is [a] or [a:a+width]; log10/10** applied exactly under "
    "`logarithmic` to the variable's own slice and to both bounds; boundary columns 0/1 map to "
    "lower/upper; fitness applies convert_to_parameters' result, and champions/best individuals "
    "report convert_to_parameters of the very decision array they report."
)
NOT_DECIDED = ["that pygmo keeps candidates inside the box it is given (trusted)", "numeric value of 10**x"]
ASSUMPTIONS = ["pygmo algorithms respect get_bounds()", "ParameterValues.values is '_' or a list of '_' for calibrated variables (enforced by _set_bound's raise in the constructor)"]

FD = "pyxel.calibration.fitting_datatree:ModelFittingDataTree"
AD = "pyxel.calibration.archipelago_datatree:ArchipelagoDataTree"
PV = "pyxel.observation.parameter_values:ParameterValues"


def _var_loop(ctx, f):
    lps = [l for l in loops_in(f.node) if isinstance(l, ast.For) and dotted(l.iter) == "self._variables"]
    if len(lps) != 1 or not isinstance(lps[0].target, ast.Name):
        return None
    return lps[0]


def _is_list_test(t: ast.expr, v: str) -> bool:
    return norm(t) in (f"isinstance({v}.values, list)", f"isinstance({v}.values, Sequence)", f"isinstance({v}.values, (list, tuple))")


def _is_scalar_test(t: ast.expr, v: str) -> bool:
    return norm(t) == f"{v}.values == '_'"


def _width_defs(ctx, f, lp, v, wname):
    """Every definition of the width variable inside the loop, classified."""
    out = []
    for st, val in local_defs(f, wname):
        if not contains(lp, st) or val is None:
            continue
        ts = enclosing_tests(st, stop=lp)
        kind = None
        if isinstance(val, ast.Constant) and val.value == 1:
            if not ts or any(pol and _is_scalar_test(t, v) for t, pol in ts) or any((not pol) and _is_list_test(t, v) for t, pol in ts):
                kind = "one"
        elif norm(val) == f"len({v}.values)":
            if any(pol and _is_list_test(t, v) for t, pol in ts) or any((not pol) and _is_scalar_test(t, v) for t, pol in ts):
                kind = "len"
        out.append((st, kind, norm(val), [(norm(t), p) for t, p in ts]))
    return out


def _offset_walk(ctx, f, label):
    """Common obligations of a walker: offset starts at 0, advances by the width once per variable."""
    lp = _var_loop(ctx, f)
    c = f"{f.qual}#{label}"
    if lp is None:
        ctx.fail(c + "-loop", "does not iterate self._variables directly (declaration order is the only order)", where=f, node=f.node)
        return None
    v = lp.target.id
    if order_breakers(lp.iter):
        ctx.fail(c + "-loop", f"iterates {norm(lp.iter)}", where=f, node=lp.iter)
    augs = [n for n in walk_ordered(lp) if isinstance(n, ast.AugAssign) and isinstance(n.op, ast.Add) and isinstance(n.target, ast.Name)]
    return lp, v, augs


def r1_slice_walk(ctx):
    """convert_to_parameters, update_processor and the parameter count walk self._variables with width 1 ('_') / len(values) (list), advance the offset by exactly that width once per variable, unconditionally, and address parameter[a] / parameter[a:a+width] of the current offset; _set_bound appends exactly `width` lower and upper bounds per variable in the same order and raises for any other shape of `values`."""
    g_ok = 0
    for name in ("convert_to_parameters", "update_processor"):
        f = ctx.func(f"{FD}.{name}")
        r = _offset_walk(ctx, f, "walk")
        if r is None:
            continue
        lp, v, augs = r
        g = ctx.cfg(f)
        offs = {a.target.id for a in augs}
        if len(offs) != 1:
            ctx.fail(f.qual + "#offset", f"expected one offset variable advanced in the loop, found {sorted(offs)}", where=f, node=lp)
            continue
        off = offs.pop()
        inits = [val for st, val in local_defs(f, off) if not contains(lp, st)]
        ok = len(inits) == 1 and isinstance(inits[0], ast.Constant) and inits[0].value == 0
        ctx.check(ok, f.qual + "#offset-init", f"`{off}` starts at 0" if ok else f"offset `{off}` does not start at 0", where=f, node=f.node)
        an = [n for a in augs for n in g.nodes_of(a)]
        lo, hi = g.count_events_per_iteration(g.node_of(lp), an)
        ctx.check((lo, hi) == (1, 1), f.qual + "#advance-once", "offset advanced exactly once per variable" if (lo, hi) == (1, 1) else f"offset advanced between {lo} and {hi} times per variable (e.g. only for some kinds of variables)", where=f, node=augs[0], facts={"min": lo, "max": hi})
        w = augs[0].value
        okw = isinstance(w, ast.Name)
        ctx.check(okw, f.qual + "#advance", f"advance = width variable `{norm(w)}`" if okw else f"offset advances by {norm(w)} instead of the variable's width", where=f, node=augs[0])
        if not okw:
            continue
        wd = _width_defs(ctx, f, lp, v, w.id)
        kinds = {k for _, k, _, _ in wd}
        bad = [(st, txt, ts) for st, k, txt, ts in wd if k is None]
        ok = not bad and kinds == {"one", "len"}
        ctx.check(ok, f.qual + "#width", "width = 1 for '_' and len(values) for a list" if ok else (f"width is set to {bad[0][1]} under {bad[0][2]}" if bad else f"width definitions found: {sorted(k for k in kinds if k)}"), where=f, node=bad[0][0] if bad else (wd[0][0] if wd else lp))
        # slices
        pname = f.params[1] if name == "update_processor" else None
        subs = [n for n in walk_ordered(lp) if isinstance(n, ast.Subscript) and isinstance(n.value, ast.Name) and n.value.id in ("parameters", "parameter")]
        if not subs:
            ctx.fail(f.qual + "#slices", "no access to the decision/parameter vector inside the walk", where=f, node=lp)
        for sb in subs:
            sl = sb.slice
            if isinstance(sl, ast.Tuple):  # [..., start:stop]
                sl = sl.elts[-1]
            if isinstance(sl, ast.Slice):
                lo_e = expand(lp, sl.lower) if sl.lower is not None else None
                hi_e = expand(lp, sl.upper) if sl.upper is not None else None
                ok = lo_e is not None and hi_e is not None and sl.step is None and dotted(lo_e) == off and (to_poly(hi_e) - to_poly(lo_e)) == to_poly(ast.Name(id=w.id))
                ctx.check(ok, f.qual + "#slice", f"[{off}:{off}+{w.id}]" if ok else f"slice [{norm(lo_e)}:{norm(hi_e)}] is not [{off}:{off}+{w.id}]", where=f, node=sb)
            else:
                ok = dotted(expand(lp, sl)) == off
                ts = enclosing_tests(sb, stop=lp)
                sc = any(pol and _is_scalar_test(t, v) for t, pol in ts)
                ctx.check(ok and sc, f.qual + "#index", f"scalar variable reads [{off}]" if ok and sc else f"scalar access [{norm(sl)}] / not under the scalar test", where=f, node=sb)
        g_ok += 1
    # update_processor: set(key=var.key, value=<that slice>)
    up = ctx.func(f"{FD}.update_processor")
    lp = _var_loop(ctx, up)
    if lp is not None:
        v = lp.target.id
        sets = [c for c in calls_in(lp) if isinstance(c.func, ast.Attribute) and c.func.attr == "set"]
        ok = len(sets) == 2 and all(kw(c, "key") is not None and norm(kw(c, "key")) == f"{v}.key" for c in sets)
        ctx.check(ok, up.qual + "#keys", "each slice is assigned to its own variable's key" if ok else "slices are not assigned to var.key", where=up, node=sets[0] if sets else lp)
        pn = up.params[1]
        for c in sets:
            val = kw(c, "value")
            okv = val is not None and isinstance(val, ast.Subscript) and dotted(val.value) == pn
            ctx.check(okv, up.qual + "#value", f"value = {pn}[...]" if okv else f"value assigned is {norm(val)}", where=up, node=c)
    # parameter count in __init__
    init = ctx.func(f"{FD}.__init__")
    lp = _var_loop(ctx, init)
    if lp is None:
        ctx.fail(init.qual + "#count", "parameter count does not walk self._variables", where=init, node=init.node)
    else:
        v = lp.target.id
        augs = [n for n in walk_ordered(lp) if isinstance(n, ast.AugAssign) and dotted(n.target) == "num_parameters"]
        g = ctx.cfg(init)
        ok = len(augs) == 1 and isinstance(augs[0].value, ast.Name)
        if ok:
            lo, hi = g.count_events_per_iteration(g.node_of(lp), g.nodes_of(augs[0]))
            wd = _width_defs(ctx, init, lp, v, augs[0].value.id)
            ok = (lo, hi) == (1, 1) and {k for _, k, _, _ in wd} == {"one", "len"}
        ctx.check(ok, init.qual + "#count", "num_parameters = sum of widths" if ok else "the parameter count does not add each variable's width once", where=init, node=augs[0] if augs else lp)
    # _set_bound
    sb = ctx.func(f"{FD}._set_bound")
    lp = _var_loop(ctx, sb)
    if lp is None:
        ctx.fail(sb.qual + "#walk-loop", "does not iterate self._variables directly", where=sb, node=sb.node)
        return
    v = lp.target.id
    g = ctx.cfg(sb)
    # branch structure: if scalar / elif vector / else raise
    top = [s for s in lp.body if isinstance(s, ast.If)]
    chain = None
    for s in top:
        if _is_scalar_test(s.test, v):
            chain = s
    ok = chain is not None and len(chain.orelse) == 1 and isinstance(chain.orelse[0], ast.If)
    if not ok:
        ctx.fail(sb.qual + "#branches", "scalar / vector / else-raise structure not found", where=sb, node=lp)
        return
    vec = chain.orelse[0]
    from sa.cfg import ends_in_raise

    ok = f"{v}.values" in norm(vec.test) and "'_'" in norm(vec.test) and ends_in_raise(vec.orelse)
    ctx.check(ok, sb.qual + "#other-shapes", "any other shape of `values` raises (invariant the other walkers rely on)" if ok else "a variable that is neither '_' nor a list of '_' is accepted silently", where=sb, node=vec)
    for label, body in (("scalar", chain.body), ("vector", vec.body)):
        mod = ast.Module(body=body, type_ignores=[])
        apps = {}
        for n in walk_ordered(mod):
            if isinstance(n, ast.AugAssign) and isinstance(n.op, ast.Add) and dotted(n.target) in ("lbd", "ubd"):
                apps.setdefault(dotted(n.target), []).append(n)
        ok = set(apps) == {"lbd", "ubd"} and all(len(x) == 1 for x in apps.values())
        if ok:
            for nm, lst in apps.items():
                n_ = lst[0]
                ok = ok and not enclosing_tests(n_, stop=chain if label == "scalar" else vec)
        ctx.check(ok, sb.qual + f"#{label}-append", "one lower and one upper append per variable, unconditionally" if ok else f"{label} branch does not append to both bound lists exactly once", where=sb, node=body[0])
        if not ok:
            continue
        lo_src, hi_src = norm(apps["lbd"][0].value), norm(apps["ubd"][0].value)
        if label == "scalar":
            ok = lo_src == "[low_val]" and hi_src == "[high_val]"
            ctx.check(ok, sb.qual + "#scalar-values", "appends [low], [high]" if ok else f"scalar bounds appended as {lo_src} / {hi_src}", where=sb, node=apps["lbd"][0])
            un = [s for s in walk_ordered(mod) if isinstance(s, ast.Assign) and isinstance(s.targets[0], ast.Tuple) and norm(s.value) == f"{v}.boundaries"]
            ok = len(un) == 1 and [dotted(x) for x in un[0].targets[0].elts] == ["low_val", "high_val"]
            ctx.check(ok, sb.qual + "#scalar-unpack", "low, high = boundaries" if ok else "boundary pair unpacked in the wrong order", where=sb, node=un[0] if un else body[0])
        else:
            ok = lo_src == "low_values.tolist()" and hi_src == "high_values.tolist()"
            ctx.check(ok, sb.qual + "#vector-values", "appends the per-component low / high arrays" if ok else f"vector bounds appended as {lo_src} / {hi_src}", where=sb, node=apps["lbd"][0])


def r2_log_pairing(ctx):
    """_set_bound applies log10 exactly under `var.logarithmic` to both the lower and the upper bound of that variable; convert_to_parameters applies 10** exactly under `var.logarithmic` to the variable's own slice (same slice on both sides)."""
    sb = ctx.func(f"{FD}._set_bound")
    lp = _var_loop(ctx, sb)
    if lp is None:
        return
    v = lp.target.id
    logs = [i for i in walk_ordered(lp) if isinstance(i, ast.If) and norm(i.test) == f"{v}.logarithmic"]
    ctx.check(len(logs) >= 2, sb.qual + "#log-branches", "log handling present in the scalar and in the vector branch" if len(logs) >= 2 else f"{len(logs)} `if var.logarithmic` blocks (expected one per branch)", where=sb, node=logs[0] if logs else lp)
    for i in logs:
        asg = {dotted(s.targets[0]): s.value for s in i.body if isinstance(s, ast.Assign)}
        pairs = [("low_val", "high_val"), ("low_values", "high_values")]
        ok = False
        for lo, hi in pairs:
            if set(asg) == {lo, hi}:
                ok = all(isinstance(asg[n], ast.Call) and call_name(asg[n]) in ("math.log10", "np.log10", "numpy.log10") and dotted(asg[n].args[0]) == n for n in (lo, hi))
        ctx.check(ok and not i.orelse, sb.qual + "#log10", "log10 of both bounds" if ok else f"logarithmic variable: log10 not applied to both of its bounds ({sorted(asg)})", where=sb, node=i)
    # every appended bound passes, on all paths, through a log10 applied under `var.logarithmic`
    g = ctx.cfg(sb)
    header = g.node_of(lp)
    for n in walk_ordered(lp):
        if isinstance(n, ast.AugAssign) and isinstance(n.op, ast.Add) and dotted(n.target) in ("lbd", "ubd"):
            src_names = names_in(n.value)
            covering = []
            for i in logs:
                for s_ in i.body:
                    if isinstance(s_, ast.Assign) and isinstance(s_.value, ast.Call) and call_name(s_.value).endswith("log10"):
                        tgt = dotted(s_.targets[0])
                        # the log-converted name feeds the appended value
                        from sa.astutil import flow_closure

                        if tgt in flow_closure(lp, n.value) and dotted(s_.value.args[0]) == tgt:
                            covering.append(i)
            an = g.nodes_of(n)
            ok = bool(covering) and all(g.all_paths_pass(header, [a_], [x for i in covering for x in g.nodes_of(i)]) for a_ in an)
            ctx.check(ok, sb.qual + f"#log-path:{dotted(n.target)}@{'vector' if 'values' in norm(n.value) else 'scalar'}", "every path to the append passes the `if var.logarithmic` conversion of that bound" if ok else f"a path appends {norm(n.value)} to {dotted(n.target)} without passing a log10 conversion under `var.logarithmic` (logarithmic variables would get linear bounds)", where=sb, node=n)
    # log10 outside those blocks
    for c in calls_in(lp):
        if call_name(c).endswith("log10") and not any(contains(i, c) for i in logs):
            ctx.fail(sb.qual + "#log10-unconditional", "log10 applied outside `if var.logarithmic`", where=sb, node=c)
    cp = ctx.func(f"{FD}.convert_to_parameters")
    lp = _var_loop(ctx, cp)
    if lp is None:
        return
    v = lp.target.id
    pw = [s for s in walk_ordered(lp) if isinstance(s, ast.Assign) and isinstance(s.targets[0], ast.Subscript) and dotted(s.targets[0].value) == "parameters"]
    ok = len(pw) == 1
    why = f"{len(pw)} writes into the parameter vector"
    if ok:
        s = pw[0]
        ts = enclosing_tests(s, stop=lp)
        ok = len(ts) == 1 and ts[0][1] and norm(ts[0][0]) == f"{v}.logarithmic"
        val = s.value
        pow_ok = isinstance(val, ast.Call) and call_name(val) in ("np.power", "numpy.power") and len(val.args) == 2 and norm(val.args[0]) == "10" and norm(val.args[1]) == norm(s.targets[0])
        pow_ok = pow_ok or (isinstance(val, ast.BinOp) and isinstance(val.op, ast.Pow) and norm(val.left) in ("10", "10.0") and norm(val.right) == norm(s.targets[0]))
        why = "10 ** slice written back to the same slice, only for logarithmic variables" if ok and pow_ok else f"write `{norm(s)[:80]}` under {[(norm(t), p) for t, p in ts]}"
        ok = ok and pow_ok
    ctx.check(ok, cp.qual + "#pow10", why, where=cp, node=pw[0] if pw else lp)
    # the conversion works on a copy of the decision vector and returns it
    d = local_defs(cp, "parameters")
    ok = len(d) == 1 and norm(d[0][1]) in (f"np.array({cp.params[1]})", f"np.array({cp.params[1]}, dtype=float)", f"np.copy({cp.params[1]})")
    rets = [r for r in returns_of(cp) if r.value is not None]
    ok = ok and len(rets) == 1 and dotted(rets[0].value) == "parameters"
    ctx.check(ok, cp.qual + "#copy", "works on and returns a copy of the decision vector" if ok else "conversion does not return a converted copy of the decision vector", where=cp, node=d[0][0] if d else cp.node)


def r3_per_component_boundaries(ctx):
    """2-D boundaries: column 0 -> lower, column 1 -> upper; 1-D boundaries broadcast to len(values) entries; ParameterValues validates the shapes (len(values), 2) / (2,)."""
    sb = ctx.func(f"{FD}._set_bound")
    lp = _var_loop(ctx, sb)
    if lp is None:
        return
    v = lp.target.id
    want = {"low_values": "0", "high_values": "1"}
    n2 = [i for i in walk_ordered(lp) if isinstance(i, ast.If) and norm(i.test) == f"{v}.boundaries.ndim == 2"]
    ok = len(n2) == 1
    if ok:
        asg = {dotted(s.targets[0]): s.value for s in n2[0].body if isinstance(s, (ast.Assign,))}
        ok = set(asg) == set(want) and all(norm(asg[k]) == f"{v}.boundaries[:, {c}]" for k, c in want.items())
    ctx.check(ok, sb.qual + "#columns", "column 0 -> lower bounds, column 1 -> upper bounds" if ok else "boundary columns are mapped to the wrong bound", where=sb, node=n2[0] if n2 else lp)
    n1 = [i for i in walk_ordered(lp) if isinstance(i, ast.If) and norm(i.test) == f"{v}.boundaries.ndim == 1"]
    ok = len(n1) == 1
    if ok:
        asg = {}
        for s in n1[0].body:
            if isinstance(s, (ast.Assign, ast.AnnAssign)):
                t = s.targets[0] if isinstance(s, ast.Assign) else s.target
                asg[norm(t)] = s.value
        un = asg.get("(low_val, high_val)") or asg.get("low_val, high_val")
        ok = un is not None and norm(un) == f"{v}.boundaries"
        for k, src in (("low_values", "low_val"), ("high_values", "high_val")):
            e = asg.get(k)
            ok = ok and e is not None and f"len({v}.values)" in norm(e) and src in names_in(e) and not [x for x in ast.walk(e) if isinstance(x, ast.Subscript)]
    ctx.check(ok, sb.qual + "#broadcast", "shared pair broadcast to len(values) components" if ok else "shared boundaries are not broadcast to one pair per component", where=sb, node=n1[0] if n1 else lp)
    pv = ctx.func(f"{PV}.__init__")
    gs = raising_ifs(pv.node)
    t1 = [i for i in gs if norm(i.test) == "boundaries_array.shape != (2,)"]
    t2 = [i for i in gs if norm(i.test) == "boundaries_array.shape != (len(values), 2)"]
    ok = len(t1) == 1 and len(t2) == 1
    ctx.check(ok, pv.qual + "#shape", "boundary shapes (2,) / (len(values), 2) enforced" if ok else "ParameterValues no longer validates the shape of the boundaries", where=pv, node=(t1 + t2 + [pv.node])[0])
    g = ctx.cfg(pv)
    sts = [st for st, t in stores(pv.node, lambda t: dotted(t) == "self._boundaries")]
    ok = len(sts) == 1 and dotted(sts[0].value) == "boundaries_array"
    ctx.check(ok, pv.qual + "#store", "stores the validated array" if ok else "stores something else than the validated boundaries", where=pv, node=sts[0] if sts else pv.node)


def r4_single_conversion(ctx):
    """fitness hands convert_to_parameters(decision) (not the raw vector) to update_processor; _get_champions and get_best_individuals report convert_to_parameters of the same decision array they report; get_bounds returns the vectors built by _set_bound; the champions re-simulated are champion_parameters."""
    fit = ctx.func(f"{FD}.fitness")
    dv = fit.params[1]
    ups = stmt_calls(fit, ctx.R, {f"{FD}.update_processor"})
    ok = len(ups) == 1
    why = f"{len(ups)} update_processor calls"
    if ok:
        a = kw(ups[0], "parameter") or (ups[0].args[0] if ups[0].args else None)
        ax = expand(fit, a) if a is not None else None
        ok = isinstance(ax, ast.Call) and dotted(ax.func) == "self.convert_to_parameters" and len(ax.args) == 1 and dotted(ax.args[0]) == dv
        why = "update_processor(parameter=convert_to_parameters(decision))" if ok else f"update_processor receives {norm(ax)[:70]}: logarithmic variables would be applied as exponents"
    ctx.check(ok, fit.qual + "#converted", why, where=fit, node=ups[0] if ups else fit.node)
    gc = ctx.func(f"{AD}._get_champions")
    sts = {t.slice.value: st for st, t in stores(gc.node, lambda t: isinstance(t, ast.Subscript) and isinstance(t.slice, ast.Constant))}
    ok = {"champion_decision", "champion_parameters", "champion_fitness"} <= set(sts)
    if ok:
        dec = expand(gc, sts["champion_decision"].value)
        par = sts["champion_parameters"].value
        fitv = expand(gc, sts["champion_fitness"].value)
        conv = [c for c in ast.walk(par) if isinstance(c, ast.Call) and isinstance(c.func, ast.Attribute) and c.func.attr == "convert_to_parameters"]
        ok = "get_champions_x()" in norm(dec) and "get_champions_f()" in norm(fitv) and len(conv) == 1 and norm(conv[0].args[0]) in ("champions['champion_decision']", "champions_1d_decision") and dotted(conv[0].func.value) == "self.problem"
    ctx.check(ok, gc.qual, "champion_parameters = problem.convert_to_parameters(champion_decision)" if ok else "reported champion parameters are not the conversion of the reported champion decision", where=gc, node=sts.get("champion_parameters", gc.node) if isinstance(sts, dict) else gc.node)
    gb = ctx.func(f"{AD}.get_best_individuals")
    sts = {t.slice.value: st for st, t in stores(gb.node, lambda t: isinstance(t, ast.Subscript) and isinstance(t.slice, ast.Constant))}
    ok = {"best_decision", "best_parameters", "best_fitness"} <= set(sts)
    if ok:
        dec = sts["best_decision"].value
        par = expand(gb, sts["best_parameters"].value)
        dec_src = norm(dec.args[0]) if isinstance(dec, ast.Call) and dec.args else None
        conv = [c for c in ast.walk(par) if isinstance(c, ast.Call) and isinstance(c.func, ast.Attribute) and c.func.attr == "convert_to_parameters"]
        dec_x = norm(expand(gb, dec.args[0])) if dec_src is not None else None
        ok = dec_src is not None and len(conv) == 1 and norm(expand(gb, conv[0].args[0])) == dec_x and dec_x == "island.get_population().get_x()"
        fitv = norm(expand(gb, sts["best_fitness"].value))
        ok = ok and "island.get_population().get_f()" in fitv
    ctx.check(ok, gb.qual, "best_parameters = problem.convert_to_parameters(best_decision)" if ok else "reported best parameters are not the conversion of the reported decisions", where=gb, node=sts.get("best_parameters", gb.node) if isinstance(sts, dict) else gb.node)
    gbd = ctx.func(f"{FD}.get_bounds")
    rets = [r for r in returns_of(gbd) if r.value is not None]
    ok = len(rets) == 1 and norm(rets[0].value) == "(self._lower_boundaries, self._upper_boundaries)"
    init = ctx.func(f"{FD}.__init__")
    un = [s for s in walk_ordered(init.node) if isinstance(s, ast.Assign) and norm(s.value) == "self._set_bound()"]
    ok = ok and len(un) == 1 and norm(un[0].targets[0]) in ("(lower_boundaries, upper_boundaries)", "lower_boundaries, upper_boundaries")
    for fld, src in (("self._lower_boundaries", "lower_boundaries"), ("self._upper_boundaries", "upper_boundaries")):
        sts_ = [st for st, t in stores(init.node, lambda t, fld=fld: dotted(t) == fld)]
        ok = ok and len(sts_) == 1 and dotted(sts_[0].value) == src
    sbr = [r for r in returns_of(ctx.func(f"{FD}._set_bound")) if r.value is not None]
    ok = ok and len(sbr) == 1 and norm(sbr[0].value) == "(lbd, ubd)"
    ctx.check(ok, gbd.qual, "get_bounds() = (lower, upper) exactly as built by _set_bound" if ok else "the box handed to the optimiser is not (lower, upper) as built by _set_bound", where=gbd, node=rets[0] if rets else gbd.node)
    re = ctx.func(f"{AD}.run_evolve")
    ap = [c for c in calls_in(re.node) if isinstance(c.func, ast.Attribute) and c.func.attr == "apply_parameters_to_processors"]
    ok = len(ap) == 1 and kw(ap[0], "parameters") is not None and norm(expand(re, kw(ap[0], "parameters"), depth=1)) in ("last_champions['champion_parameters']", "champions.isel(evolution=-1)['champion_parameters']")
    ctx.check(ok, re.qual + "#resimulate", "last champions re-simulated from champion_parameters" if ok else "champions are not re-simulated from the reported champion parameters", where=re, node=ap[0] if ap else re.node)
    app = ctx.func(f"{FD}._apply_parameters")
    ups = stmt_calls(app, ctx.R, {f"{FD}.update_processor"})
    ok = len(ups) == 1 and dotted(kw(ups[0], "parameter")) == app.params[2]
    ctx.check(ok, app.qual, "applies the given (already converted) parameters" if ok else "re-simulation applies different parameters", where=app, node=ups[0] if ups else app.node)
    # result tree nodes
    want = {"/champion/fitness": "champion_fitness", "/champion/decision": "champion_decision", "/champion/parameters": "champion_parameters", "/best/fitness": "best_fitness", "/best/decision": "best_decision", "/best/parameters": "best_parameters"}
    n = 0
    for st, t in stores(re.node, lambda t: isinstance(t, ast.Subscript) and isinstance(t.slice, ast.Constant) and t.slice.value in want):
        n += 1
        k = t.slice.value
        ok = norm(st.value) == f"champions['{want[k]}']"
        ctx.check(ok, re.qual + f"#{k}", f"{k} <- {want[k]}" if ok else f"result node {k} is filled from {norm(st.value)}", where=re, node=st)
    ctx.floor(n, 6)


RULES = [r1_slice_walk, r2_log_pairing, r3_per_component_boundaries, r4_single_conversion]
