"""C07 - parallel execution yields the same results as sequential execution."""

from __future__ import annotations

import ast

from sa.astutil import (
    enclosing_tests,
    arg_or_kw,
    call_name,
    calls_in,
    contains,
    enclosing_loop,
    expand,
    kw,
    local_defs,
    loops_in,
    names_in,
    order_breakers,
    returns_of,
    stmt_calls,
    stores,
)
from sa.effects import Effects
from sa.index import AnalysisError, dotted, enclosing_stmt, norm, walk_local, walk_ordered

EXPLANATION = (
    "Sibling and effect analysis of the parallel paths: for each observation mode the sequential "
    "enumerator and the dask enumerator must be the same combinator over the same ordered step list; "
    "the effects of everything reachable from a dask task (including every model function, reached "
    "through the evaluate_reference hop) must not write process-wide state; the per-run file suffix is "
    "a bijection of the run grid wired down to build_filenames; the metadata run writes into a "
    "temporary directory; islands are appended in seed order through an order-preserving map."
)
NOT_DECIDED = ["value equality of parallel and sequential results", "behaviour of dask schedulers and of pygmo's evolution"]
ASSUMPTIONS = [
    "itertools.product and pd.MultiIndex.from_product enumerate in argument order",
    "Executor.map / builtin map preserve submission order; as_completed does not",
]

M = "pyxel.observation.misc"
OD = "pyxel.observation.observation_dask"
FD = "pyxel.calibration.fitting_datatree"
TASK_ROOTS = {
    f"{OD}:_run_pipelines_tuple_to_array": "function handed to xr.apply_ufunc(..., dask='parallelized')",
    f"{FD}:ModelFittingDataTree.fitness": "evaluated through DaskBFE's da.gufunc",
    f"{FD}:ModelFittingDataTree._apply_parameters": "dask.delayed champion re-simulation",
}


def _kinds(ctx, f) -> set[str]:
    kinds = set()
    for c in [n for n in ast.walk(f.node) if isinstance(n, ast.Call)]:
        ext = ctx.repo.external_name(f.module, c.func) or call_name(c)
        if ext in ("itertools.product",) or ext.endswith("MultiIndex.from_product"):
            kinds.add("PRODUCT")
        if call_name(c) == "zip" and len(c.args) == 1 and isinstance(c.args[0], ast.Starred):
            kinds.add("ZIP")
        if isinstance(c.func, ast.Attribute) and c.func.attr == "iterrows":
            kinds.add("ROWS")
        if call_name(c) == "convert_custom_data":
            kinds.add("ROWS")
        if ext in ("itertools.chain", "itertools.chain.from_iterable"):
            kinds.add("CHAIN")
    # nested step/value loops yielding single-key dicts -> CHAIN
    for lp in loops_in(f.node):
        if isinstance(lp, ast.For) and enclosing_loop(lp) is None:
            for inner in loops_in(lp):
                if inner is lp or not isinstance(inner, ast.For):
                    continue
                if isinstance(lp.target, ast.Name) and dotted(inner.iter) == lp.target.id:
                    ys = [n for n in ast.walk(inner) if isinstance(n, ast.Yield)]
                    if ys:
                        kinds.add("CHAIN")
    return kinds


def r1_sibling_run_space(ctx):
    """For every mode the sequential enumerator and the dask enumerator (create_params) are the same combinator kind (PRODUCT/PRODUCT, ROWS/ROWS, CHAIN/CHAIN) over self.enabled_steps in declaration order."""
    pairs = {
        "ProductMode": ("_product_parameters", "create_params"),
        "SequentialMode": ("_sequential_parameters", "create_params"),
        "CustomMode": ("_custom_parameters", "create_params"),
    }
    for cls, (seq, par) in pairs.items():
        fs = ctx.func(f"{M}:{cls}.{seq}")
        fp = ctx.func(f"{M}:{cls}.{par}")
        ks, kp = _kinds(ctx, fs), _kinds(ctx, fp)
        if not ks or not kp:
            raise AnalysisError(f"{cls}: combinator kind not recognised (sequential {ks}, dask {kp})")
        ok = ks == kp and len(ks) == 1
        ctx.check(
            ok,
            f"{M}:{cls}.create_params",
            f"both enumerate {sorted(ks)[0]}" if ok else f"sequential path enumerates {sorted(ks)} but the dask path enumerates {sorted(kp)}: the two execution modes run different parameter spaces",
            where=fp,
            node=fp.node,
            facts={"sequential": sorted(ks), "dask": sorted(kp)},
        )
        # same ordered source
        defs = local_defs(fp, "all_steps")
        ok = len(defs) == 1 and isinstance(expand(fp, defs[0][1]), ast.DictComp)
        if ok:
            dc = expand(fp, defs[0][1])
            g = dc.generators[0]
            v = g.target.id if isinstance(g.target, ast.Name) else None
            ok = dotted(expand(fp, g.iter)) == "self.enabled_steps" and not g.ifs and norm(dc.key) == f"{v}.key" and norm(dc.value) in (f"list({v})", f"tuple({v})")
        ctx.check(ok, f"{M}:{cls}.create_params#source", "{step.key: list(step) for step in self.enabled_steps}" if ok else "dask parameter grid is not built from the enabled steps in order", where=fp, node=defs[0][0] if defs else fp.node)
        nd = local_defs(fp, "params_names")
        ok = len(nd) == 1 and norm(nd[0][1]) == "[dim_names[key] for key in all_steps]"
        ctx.check(ok, f"{M}:{cls}.create_params#names", "names follow the same key order" if ok else "dimension names do not follow the key order of the values", where=fp, node=nd[0][0] if nd else fp.node)
    fp = ctx.func(f"{M}:ProductMode.create_params")
    fpc = [c for c in calls_in(fp.node) if call_name(c).endswith("from_product")]
    it0 = arg_or_kw(fpc[0], 0, "iterables") if len(fpc) == 1 else None
    ok = it0 is not None and norm(expand(fp, it0, _seen={"all_steps"})) in ("list(all_steps.values())", "all_steps.values()") and kw(fpc[0], "names") is not None and dotted(kw(fpc[0], "names")) == "params_names"
    ctx.check(ok, fp.qual + "#from_product", "from_product(list(all_steps.values()), names=params_names)" if ok else "product grid is not built over the ordered value lists", where=fp, node=fpc[0] if fpc else fp.node)
    ctx.trust("pd.MultiIndex.from_product enumerates in argument order")
    product_grid_labels(ctx)


def product_grid_labels(ctx):
    """ProductMode.create_params returns `pd.Series(list(index), index=index).to_xarray()` for the
    from_product index: values and labels come from one and the same index object (pandas aligns
    them), so the entry labelled with given values holds exactly those values whatever the order of
    the lists.  Any hand-made labelling (levels, sorted uniques, reshape) is reported."""
    fp = ctx.func(f"{M}:ProductMode.create_params")
    rets = [r for r in returns_of(fp) if r.value is not None]
    ok, why = False, "the product grid is not returned"
    if len(rets) == 1:
        v = expand(fp, rets[0].value, _seen={"all_steps", "params_names"})
        why = f"the product grid is {norm(v)[:120]}"
        if isinstance(v, ast.Call) and isinstance(v.func, ast.Attribute) and v.func.attr == "to_xarray" and not v.args and isinstance(v.func.value, ast.Call) and call_name(v.func.value).endswith("Series"):
            sr = v.func.value
            data = sr.args[0] if sr.args else kw(sr, "data")
            idx = kw(sr, "index")
            while isinstance(data, ast.Call) and call_name(data) in ("list", "tuple") and len(data.args) == 1:
                data = data.args[0]
            ok = data is not None and idx is not None and norm(data) == norm(idx) and isinstance(idx, ast.Call) and call_name(idx).endswith("from_product")
            why = "values and labels come from the same from_product index (Series(list(index), index=index).to_xarray())" if ok else f"values {norm(data)[:60]} and labels {norm(idx)[:60]} are not one and the same from_product index"
    ctx.check(ok, fp.qual + "#labels", why if ok else why + ": labels (e.g. sorted index levels) can disagree with the declaration order of the values", where=fp, node=rets[0] if rets else fp.node)


ALLOWED_EFFECTS = {
    f"{FD}:ModelFittingDataTree.fitness#logger.setLevel": "diagnostics only: log level of the 'pyxel' logger, no influence on results",
    "pyxel.models.charge_measurement.nghxrg.nghxrg:nghxrg#logger.setLevel": "diagnostics only",
    "pyxel.models.photon_collection.poppy:optical_psf#logger.setLevel": "diagnostics only",
    "pyxel.models.charge_generation.dark_current:dark_current#warnings.filterwarnings": "inside `with warnings.catch_warnings()`: warning display only",
    "pyxel.models.scene_generation.load_star_map:_load_objects_from_gaia#warnings.filterwarnings": "inside `with warnings.catch_warnings()`: warning display only",
    "pyxel.models.scene_generation.load_star_map:_retrieve_objects_from_gaia#store:Gaia.MAIN_GAIA_TABLE": "constant configuration of the remote catalogue client (same value from every task)",
    "pyxel.models.scene_generation.load_star_map:_retrieve_objects_from_gaia#store:Gaia.ROW_LIMIT": "constant configuration of the remote catalogue client (same value from every task)",
    "pyxel.util.caching:get_cache#global:_global_cache": "lazy singleton of a content-addressed cache (same key => same value)",
    "pyxel.util.image:_load_cropped_and_aligned_image#memoised": "read-only array cache keyed by path + file signature (C20.R1)",
}
GLOBAL_CALLS = {"os.chdir", "os.putenv", "numpy.seterr", "numpy.seterrcall", "warnings.simplefilter", "warnings.filterwarnings", "logging.basicConfig", "matplotlib.use", "locale.setlocale", "sys.setrecursionlimit"}


def _task_reach(ctx):
    roots = list(TASK_ROOTS)
    for q in roots:
        ctx.func(q)
    models = [f.qual for f in ctx.repo.all_functions() if f.module.name.startswith("pyxel.models") and f.cls is None and f.outer is None]
    return ctx.R.reachable_from(roots + models), len(models)


def r2_no_shared_state_in_task(ctx):
    """Nothing reachable from a dask task (task roots + every model function, the evaluate_reference hop being modelled as 'may call any model') writes process-wide state: module globals, attributes of imported modules/classes, process-wide settings, or the state of numpy's global random generator."""
    reach, n_models = _task_reach(ctx)
    eff = Effects(ctx.repo, ctx.R)
    ctx.note(f"task-reachable functions: {len(reach)} (model entry points: {n_models})")
    n = 0
    rng_state_funcs = []
    rng_draw_funcs = []
    for q in sorted(reach):
        f = ctx.repo.funcs[q]
        found: list[tuple[str, ast.AST]] = []
        env = ctx.R.env(f)
        for node in walk_local(f.node):
            if isinstance(node, ast.Global):
                for nm in node.names:
                    found.append((f"global:{nm}", node))
            if isinstance(node, ast.Call):
                ext = ctx.repo.external_name(f.module, node.func) or ""
                if ext in GLOBAL_CALLS:
                    found.append((ext, node))
                if isinstance(node.func, ast.Attribute) and node.func.attr == "setLevel":
                    found.append(("logger.setLevel", node))
                if isinstance(node.func, ast.Attribute) and node.func.attr in ("cache_clear",):
                    found.append(("cache_clear", node))
            if isinstance(node, (ast.Assign, ast.AugAssign)):
                for t in node.targets if isinstance(node, ast.Assign) else [node.target]:
                    if not isinstance(t, (ast.Attribute, ast.Subscript)):
                        continue
                    b = t
                    while isinstance(b, (ast.Attribute, ast.Subscript)):
                        b = b.value
                    if isinstance(b, ast.Name) and (b.id in f.module.imports or b.id in f.module.globals_) and b.id not in env and b.id not in f.params and not local_defs(f, b.id):
                        found.append((f"store:{dotted(t) or norm(t)}", node))
        for d in f.decorators:
            if d.split("(")[0].split(".")[-1] in ("lru_cache", "cache"):
                found.append(("memoised", f.node))
        seen = set()
        for what, node in found:
            c = f"{q}#{what}"
            if c in seen:
                continue
            seen.add(c)
            n += 1
            ok = c in ALLOWED_EFFECTS
            ctx.check(ok, c, ALLOWED_EFFECTS.get(c, "") if ok else f"process-wide state `{what}` is written by code that runs inside parallel tasks (interleaving-dependent)", where=f, node=node)
        d = eff.direct(f)
        if d["state"]:
            rng_state_funcs.append((f, d["state"][0][0]))
        if d["draw_interp"]:
            rng_draw_funcs.append(q)
    for f, node in rng_state_funcs:
        ctx.fail(
            f"{f.qual}#process-wide-rng-state",
            f"saves/seeds/restores numpy's process-wide generator inside concurrently running tasks ({len(rng_draw_funcs)} task-reachable functions draw from that shared generator): under a thread scheduler the runs' random streams interleave",
            where=f,
            node=node,
            facts={"drawing_functions": len(rng_draw_funcs), "examples": rng_draw_funcs[:5]},
        )
    ctx.floor(n, 6)


def r3_one_suffix_per_run(ctx):
    """The per-run file suffix array is arange(params.size).reshape(params.shape) on the params' own dims, chunked by 1, handed as the second vectorised argument, and wired unchanged down to Outputs.build_filenames, which embeds it in every file name."""
    f = ctx.func(f"{OD}:run_pipelines_with_dask")
    au = [c for c in calls_in(f.node) if call_name(c).endswith("apply_ufunc")]
    if len(au) != 1:
        raise AnalysisError("run_pipelines_with_dask: apply_ufunc call not found")
    au = au[0]
    ok = len(au.args) == 3 and dotted(au.args[0]) == "_run_pipelines_tuple_to_array"
    ctx.check(ok, f.qual + "#apply_ufunc", "apply_ufunc(task, params, suffixes, ...)" if ok else "task function / vectorised arguments changed", where=f, node=au)
    if not ok:
        return
    p_arg, s_arg = au.args[1], au.args[2]
    if isinstance(p_arg, ast.Name):  # a named intermediate for `<grid>.chunk(1)`
        d1 = local_defs(f, p_arg.id)
        if len(d1) == 1 and d1[0][1] is not None:
            p_arg = d1[0][1]
    pv = None
    if isinstance(p_arg, ast.Call) and isinstance(p_arg.func, ast.Attribute) and p_arg.func.attr == "chunk" and norm(p_arg.args[0] if p_arg.args else None) == "1":
        pv = dotted(p_arg.func.value)
    ctx.check(pv is not None, f.qual + "#params-chunk", "one chunk (= one task) per run" if pv else f"parameter grid passed as {norm(p_arg)[:60]}", where=f, node=p_arg)
    sdefs = [val for st, val in local_defs(f, dotted(s_arg) or "") if val is not None and not (isinstance(val, ast.Constant) and val.value is None)]
    ok = len(sdefs) == 1
    why = "suffix array not found"
    if ok:
        txt = norm(expand(f, sdefs[0], _seen={pv} if pv else None))
        want = f"np.arange({pv}.size).reshape({pv}.shape)"
        ok = want in txt and f"dims={pv}.dims" in txt and ".chunk(1)" in txt
        why = "arange(size).reshape(shape) on the params' dims, chunk(1): a bijection run <-> suffix" if ok else f"suffix array is {txt[:120]}"
    ctx.check(ok, f.qual + "#suffix-bijection", why, where=f, node=sdefs[0] if sdefs else au)
    ic = kw(au, "input_core_dims")
    ok = ic is not None and norm(ic) == "[[], []]" and kw(au, "vectorize") is not None and norm(kw(au, "vectorize")) == "True"
    ctx.check(ok, f.qual + "#vectorize", "both arguments are looped element-wise together" if ok else "parameters and suffixes are no longer looped element-wise together", where=f, node=au)
    # wiring down
    hops = [
        (f"{OD}:_run_pipelines_tuple_to_array", f"{OD}:_run_pipelines_array_to_datatree", "output_filename_suffix", "output_filename_suffixes"),
        (f"{OD}:_run_pipelines_array_to_datatree", "pyxel.exposure.exposure:run_pipeline", "output_filename_suffix", "output_filename_suffix"),
        ("pyxel.exposure.exposure:run_pipeline", "pyxel.outputs.outputs:Outputs.build_filenames", "filename_suffix", "output_filename_suffix"),
    ]
    for src, dst, pname, want in hops:
        fs = ctx.func(src)
        cs = stmt_calls(fs, ctx.R, {dst})
        ok = bool(cs) and all(kw(c, pname) is not None and dotted(kw(c, pname)) == want for c in cs)
        ctx.check(ok, f"{src}->{dst.split(':')[1]}#{pname}", f"{pname}={want}" if ok else f"the run's suffix is not forwarded ({pname} != {want})", where=fs, node=cs[0] if cs else fs.node)
    t = ctx.func(f"{OD}:_run_pipelines_tuple_to_array")
    ok = t.params[:2] == ["params_tuple", "output_filename_suffixes"]
    ctx.check(ok, t.qual + "#positional", "positional order (params, suffix) matches the apply_ufunc arguments" if ok else f"task's positional parameters are {t.params[:2]}", where=t, node=t.node.args)
    bf = ctx.func("pyxel.outputs.outputs:Outputs.build_filenames")
    from sa.astutil import accumulator_comp, enclosing_tests

    rets_ = [r for r in returns_of(bf) if r.value is not None]
    acc_name = dotted(rets_[0].value) if len(rets_) == 1 else None
    comp = accumulator_comp(bf.node, acc_name) if acc_name else None
    ok = isinstance(comp, ast.ListComp)
    paths = []
    if ok:
        elt = expand(bf, comp.elt)
        loopvars = {n.id for g_ in comp.generators[1:] for n in ast.walk(g_.target) if isinstance(n, ast.Name)}
        ext_var = norm(comp.generators[-1].target)

        def _embeds(e) -> bool:
            nm = names_in(e)
            return "filename_suffix" in nm and ext_var in nm and len(nm & loopvars) >= 2

        if isinstance(elt, ast.IfExp) and "filename_suffix" in names_in(elt.test):
            none_first = norm(elt.test) == "filename_suffix is None"
            given = elt.orelse if none_first else elt.body
            ok = _embeds(given) and norm(elt.test) in ("filename_suffix is None", "filename_suffix is not None")
        else:
            ok = _embeds(elt)
    ctx.check(ok, bf.qual + "#suffix", "every name carries bucket, suffix and extension when a suffix is given" if ok else "build_filenames does not embed the suffix in every name", where=bf, node=paths[0] if paths else bf.node)


def r4_task_independence(ctx):
    """Each task derives its own processor copy from the shared original (Processor.replace); the metadata (first) run writes through a temporary ObservationOutputs inside `with TemporaryDirectory()`, never the user's folder."""
    t = ctx.func(f"{OD}:_run_pipelines_array_to_datatree")
    rp = stmt_calls(t, ctx.R, {"pyxel.pipelines.processor:Processor.replace"})
    ok = len(rp) == 1 and dotted(rp[0].func.value) == "processor"
    ctx.check(ok, t.qual + "#replace", "new_processor = processor.replace(dct) inside the task" if ok else "the task does not derive its own processor copy", where=t, node=rp[0] if rp else t.node)
    f = ctx.func(f"{OD}:run_pipelines_with_dask")
    first = stmt_calls(f, ctx.R, {f"{OD}:_run_pipelines_array_to_datatree"})
    if len(first) != 1:
        raise AnalysisError("run_pipelines_with_dask: metadata run not found")
    first = first[0]
    withs = [w for w in walk_ordered(f.node) if isinstance(w, ast.With) and any(isinstance(i.context_expr, ast.Call) and call_name(i.context_expr).endswith("TemporaryDirectory") for i in w.items)]
    ok = bool(withs) and contains(withs[0], first)
    ctx.check(ok, f.qual + "#tempdir", "metadata run happens inside `with TemporaryDirectory()`" if ok else "metadata run is not confined to a temporary directory", where=f, node=first)
    o = kw(first, "outputs")
    ok = False
    why = f"metadata run uses outputs={norm(o)}"
    if o is not None and isinstance(o, ast.Name) and withs:
        tv = withs[0].items[0].optional_vars
        tv = tv.id if isinstance(tv, ast.Name) else None
        defs = [val for st, val in local_defs(f, o.id)]
        cons = [d for d in defs if isinstance(d, ast.Call)]
        none = [d for d in defs if isinstance(d, ast.Constant) and d.value is None]
        ok = len(cons) == 1 and len(cons) + len(none) == len(defs) and call_name(cons[0]).endswith("ObservationOutputs") and kw(cons[0], "output_folder") is not None and dotted(kw(cons[0], "output_folder")) == tv
        why = "temporary ObservationOutputs(output_folder=<temp dir>)" if ok else why
    ctx.check(ok, f.qual + "#temp-outputs", why, where=f, node=first)
    pa = kw(first, "processor")
    ok = pa is not None and dotted(pa) == "processor"
    ctx.check(ok, f.qual + "#first-processor", "metadata run starts from the shared original processor" if ok else "metadata run does not use the original processor", where=f, node=first)


def _creates_island_from_seed(ctx, f, e) -> bool:
    """``e`` names a function of the package (nested function or method) that takes the seed as its
    parameter and whose every return is ``pg.island(..., seed=<that parameter>)``."""
    if dotted(e) == "create_island":
        return True
    try:
        fv = ctx.R._func_value(f, e, ctx.R.env(f)) if isinstance(e, (ast.Name, ast.Attribute)) else None
    except Exception:
        fv = None
    if fv is None:
        return False
    ps = [p_ for p_ in fv.params if p_ not in ("self", "cls")]
    rets = [r for r in returns_of(fv) if r.value is not None]
    return len(ps) == 1 and bool(rets) and all(isinstance(r.value, ast.Call) and call_name(r.value).endswith("island") and kw(r.value, "seed") is not None and dotted(kw(r.value, "seed")) == ps[0] for r in rets)


def r5_island_order(ctx):
    """Islands are appended in the order of `seeds`: both branches iterate an order-preserving map(create_island, seeds) and push_back inside that loop; no as_completed / submit."""
    b = ctx.func("pyxel.calibration.archipelago_datatree:ArchipelagoDataTree._build")
    bad = [c for c in calls_in(b.node) if call_name(c).split(".")[-1] in ("as_completed", "submit", "imap_unordered", "wait")]
    ctx.check(not bad, b.qual + "#completion-order", "no completion-order construct" if not bad else f"islands are collected in completion order ({call_name(bad[0])})", where=b, node=bad[0] if bad else b.node)
    pbs = [c for c in calls_in(b.node) if isinstance(c.func, ast.Attribute) and c.func.attr == "push_back"]
    if not pbs:
        ctx.fail(b.qual + "#push_back", "no island is added to the archipelago", where=b, node=b.node)
        return
    for pb in pbs:
        lp = enclosing_loop(pb)
        ok = isinstance(lp, ast.For) and isinstance(lp.target, ast.Name) and pb.args and dotted(pb.args[0]) == lp.target.id
        why = "push_back(island) in iteration order"
        if ok:
            it = expand(b, lp.iter)
            core = it
            while isinstance(core, ast.Call) and call_name(core) in ("tqdm", "list", "tuple") and core.args:
                core = core.args[0]
            cands = [core]
            if isinstance(core, ast.Name):
                from sa.cfg import defs_reaching

                g = ctx.cfg(b)
                cands = []
                for hn in g.nodes_of(lp):
                    for d in defs_reaching(g, core.id, hn):
                        if d is hn:
                            continue
                        cands.append(getattr(d.ast, "value", None) if d is not g.entry else None)
            okm = bool(cands) and all(
                isinstance(cd, ast.Call) and call_name(cd).split(".")[-1] == "map" and len(cd.args) == 2 and _creates_island_from_seed(ctx, b, cd.args[0]) and dotted(expand(b, cd.args[1])) == "seeds"
                for cd in cands
            ) and not order_breakers(it)
            ok = okm
            why = "iterates map(create_island, seeds) (order-preserving)" if ok else f"islands iterate {norm(it)[:60]} defined by {[norm(c_)[:50] if c_ is not None else None for c_ in cands]}"
        else:
            why = "push_back is not inside a loop over the created islands"
        ctx.check(ok, b.qual + "#order", why, where=b, node=pb)
    ctx.floor(len(pbs), 2)
    ctx.trust("Executor.map / builtin map preserve submission order")
    # seeds list identical for both branches: a single definition site group before the branches
    sd = local_defs(b, "seeds")
    ok = len(sd) == 2 and all(not contains(lp_, st) for st, _ in sd for lp_ in loops_in(b.node))
    ctx.check(ok, b.qual + "#seeds", "one seeds list, defined before the parallel/sequential split" if ok else "seeds are defined differently per branch", where=b, node=sd[0][0] if sd else b.node)
    # DaskBFE keeps candidate order
    bfe = ctx.func("pyxel.calibration.user_defined:DaskBFE.__call__")
    rets = [r for r in returns_of(bfe) if r.value is not None]
    ok = len(rets) == 1 and norm(expand(bfe, rets[0].value, depth=2)).endswith(".ravel()") and not order_breakers(expand(bfe, rets[0].value))
    ctx.check(ok, bfe.qual + "#order", "fitness values returned in candidate order (ravel of the row-wise gufunc result)" if ok else "batch fitness values are reordered", where=bfe, node=rets[0] if rets else bfe.node)


def r6_names_values_same_order(ctx):
    """The dask task pairs `dimension_names` keys with the components of each parameter tuple positionally, so both must follow the enabled steps' declaration order: parameter types are recorded per enabled step in order, the short-name mapping preserves that order for every parameter (colliding names included), and run_pipelines hands exactly that mapping to the dask path."""
    from props.C05 import dim_names_order

    f = ctx.func("pyxel.observation.observation:_get_short_dimension_names_new")
    dim_names_order(ctx, f)
    gt = ctx.func("pyxel.observation.observation:Observation._get_parameter_types")
    lps = [l for l in loops_in(gt.node) if isinstance(l, ast.For)]
    ok = len(lps) == 1 and dotted(lps[0].iter) == "self.parameter_mode.enabled_steps" and isinstance(lps[0].target, ast.Name)
    if ok:
        v = lps[0].target.id
        ups = [c for c in calls_in(lps[0]) if isinstance(c.func, ast.Attribute) and c.func.attr == "update" and c.args and isinstance(c.args[0], ast.Dict)]
        sts = [st for st, t in stores(lps[0], lambda t: isinstance(t, ast.Subscript))]
        ok = (len(ups) == 1 and norm(ups[0].args[0].keys[0]) == f"{v}.key") or (len(sts) == 1 and norm(sts[0].targets[0].slice) == f"{v}.key")
    ctx.check(ok, gt.qual, "one entry per enabled step, inserted in declaration order" if ok else "parameter types are not recorded per enabled step in declaration order", where=gt, node=lps[0] if lps else gt.node)
    rp = ctx.func("pyxel.observation.observation:Observation.run_pipelines")
    dn = local_defs(rp, "dim_names")
    ok = len(dn) == 1 and norm(expand(rp, dn[0][1])) == "_get_short_dimension_names_new(self._get_parameter_types())"
    cs = stmt_calls(rp, ctx.R, {f"{OD}:run_pipelines_with_dask"})
    ok = ok and len(cs) == 1 and dotted(kw(cs[0], "dim_names")) == "dim_names" and dotted(kw(cs[0], "parameter_mode")) == "self.parameter_mode"
    ctx.check(ok, rp.qual + "#dim-names", "the dask path receives the ordered name mapping of the same parameter mode" if ok else "the dask path does not receive _get_short_dimension_names_new(types) of the same parameter mode", where=rp, node=cs[0] if cs else rp.node)
    d = ctx.func(f"{OD}:run_pipelines_with_dask")
    cp = [c for c in calls_in(d.node) if isinstance(c.func, ast.Attribute) and c.func.attr == "create_params"]
    ok = len(cp) == 1 and dotted(cp[0].func.value) == "parameter_mode" and dotted(kw(cp[0], "dim_names")) == "dim_names"
    ctx.check(ok, d.qual + "#create-params", "values come from parameter_mode.create_params(dim_names=dim_names)" if ok else "parameter values are not produced by create_params of the same mode/mapping", where=d, node=cp[0] if cp else d.node)
    au = [c for c in calls_in(d.node) if call_name(c).endswith("apply_ufunc")]
    kwd = expand(d, kw(au[0], "kwargs")) if au and kw(au[0], "kwargs") is not None else None
    ok = isinstance(kwd, ast.Dict) and any(isinstance(k, ast.Constant) and k.value == "dimension_names" and dotted(v) == "dim_names" for k, v in zip(kwd.keys, kwd.values))
    ctx.check(ok, d.qual + "#task-names", "the tasks receive that same mapping as dimension_names" if ok else "tasks do not receive the ordered name mapping", where=d, node=au[0] if au else d.node)


def r7_every_task_runs_its_own_pipeline(ctx):
    """Per path (sa/paths.py): the dask task _run_pipelines_tuple_to_array returns only arrays obtained from ITS OWN call of _run_pipelines_array_to_datatree - no path hands back a result computed elsewhere (e.g. the metadata run, which wrote its files into a temporary folder), so every parameter combination writes its files and is computed under the same conditions as in the sequential path."""
    from sa.paths import enumerate_paths

    t = ctx.func(f"{OD}:_run_pipelines_tuple_to_array")
    n = 0
    for q in enumerate_paths(t.node.body):
        if q.exit != "return":
            continue
        n += 1
        own = q.called("_run_pipelines_array_to_datatree")
        ok = len(own) == 1
        if ok:
            c = own[0][1]
            ok = dotted(kw(c, "params_tuple")) == t.params[0] and dotted(kw(c, "output_filename_suffix")) == t.params[1]
        ctx.check(ok, t.qual + f"#own-run:{n}", "the returned arrays come from this task's own pipeline run (its parameters, its suffix)" if ok else f"on the path {q.cond_texts()} the task returns {norm(q.value)[:60] if q.value is not None else None} without running the pipeline for its own parameters / suffix: that combination writes no file and is not computed like its sequential counterpart", where=t, node=q.exit_node or t.node)
    ctx.floor(n, 1)


def r8_evolved_algorithm_comes_back(ctx):
    """DaskIsland.run_evolve returns the algorithm AND the population obtained from the worker's result (the algorithm carries its random stream and self-adapted state from one evolution to the next); handing back the input algorithm makes the outcome depend on whether the worker shares memory with the caller (threads) or not (processes)."""
    from sa.astutil import flow_exprs

    ev = ctx.func("pyxel.calibration.user_defined:AlgoSerializable.evolve")
    rets = [r for r in returns_of(ev) if r.value is not None]
    ok = len(rets) == 1
    if ok:
        v = expand(ev, rets[0].value)
        ok = isinstance(v, ast.Tuple) and len(v.elts) == 2 and dotted(v.elts[0]) == "self._algo" and isinstance(v.elts[1], ast.Call) and norm(v.elts[1].func) == "self._algo.evolve"
    ctx.check(ok, ev.qual, "the worker returns (algorithm, evolved population)" if ok else "the worker does not send the evolved algorithm back with the population", where=ev, node=rets[0] if rets else ev.node)
    re_ = ctx.func("pyxel.calibration.user_defined:DaskIsland.run_evolve")
    rets = [r for r in returns_of(re_) if r.value is not None]
    ok = len(rets) == 1 and isinstance(rets[0].value, ast.Tuple) and len(rets[0].value.elts) == 2
    why = "run_evolve does not return (algorithm, population)"
    if ok:
        for i, what in ((0, "algorithm"), (1, "population")):
            names, exprs = flow_exprs(re_, rets[0].value.elts[i])
            from_worker = any(isinstance(e, ast.Call) and isinstance(e.func, ast.Attribute) and e.func.attr == "compute" for x in exprs for e in ast.walk(x))
            direct_param = dotted(rets[0].value.elts[i]) in re_.params
            if not from_worker or direct_param:
                ok = False
                why = f"the returned {what} is {norm(rets[0].value.elts[i])}: not what the worker computed (state evolved in another process is lost)"
    ctx.check(ok, re_.qual, "algorithm and population both come from the worker's result" if ok else why, where=re_, node=rets[0] if rets else re_.node)


def r9_files_attributed_one_to_one(ctx):
    """Files written by a parallel observation correspond one-to-one to the parameter combinations: the run number reaches the file name injectively (shared with C19.R3)."""
    from props.C19 import r3_attribution

    r3_attribution(ctx)


def r10_parallel_rows_read_their_own_columns(ctx):
    """Custom mode on the dask path hands every parameter the same table columns as the sequential path: the column cursor of convert_custom_data (shared with C05.R9)."""
    from props.C05 import r9_dask_column_cursor

    r9_dask_column_cursor(ctx)


def r11_task_results_fit_declared_types(ctx):
    """xr.apply_ufunc(dask="parallelized") converts whatever a task returns to the dtype declared in `output_dtypes`, which run_pipelines_with_dask takes from the FIRST (metadata) run only: a task must therefore check (np.can_cast / dtype comparison ending in raise) or widen its arrays before handing them back, otherwise a run whose bucket has a wider type than the first run's (e.g. a sweep of adc_bit_resolution 8 -> 16) is silently wrapped - parallel differs from sequential."""
    from sa.astutil import flow_exprs

    t = ctx.func(f"{OD}:_run_pipelines_tuple_to_array")
    rp = ctx.func(f"{OD}:run_pipelines_with_dask")
    au = [c for c in calls_in(rp.node) if call_name(c).endswith("apply_ufunc")]
    declared = bool(au) and kw(au[0], "output_dtypes") is not None
    if not declared:
        ctx.ok(t.qual + "#declared-dtype", "no output dtype is declared: nothing is converted", where=rp, node=rp.node)
        return
    src = expand(rp, kw(au[0], "output_dtypes"))
    from_first = any("first" in norm(x) or "metadata" in norm(x) for x in flow_exprs(rp, src)[1])
    checks = [n for n in ast.walk(t.node) if (isinstance(n, ast.Call) and call_name(n).split(".")[-1] in ("can_cast", "result_type", "promote_types", "astype")) or (isinstance(n, ast.Compare) and any(isinstance(x, ast.Attribute) and x.attr == "dtype" for x in ast.walk(n)))]
    ok = bool(checks) or not from_first
    ctx.check(ok, t.qual + "#declared-dtype", "task results are checked against / converted to the declared output types" if ok else "the output dtypes given to apply_ufunc come from the first run only and the task hands back its arrays unchecked: a later run whose bucket has a wider type (adc_bit_resolution swept 8 -> 16: uint16 into uint8) is silently wrapped on the dask path, sequential execution keeps the values", where=t, node=t.node)


def r12_both_paths_start_from_a_private_copy(ctx):
    """Sequential and parallel runs agree only if BOTH start from a private deep copy of the whole processor (detector memory such as trapped charge included) made before the run's values are set: create_new_processor / update_processor (shared with C06.R1; the dask side is R4)."""
    from props.C06 import r1_fresh_copy_per_run

    r1_fresh_copy_per_run(ctx)


def r13_swept_readout_reaches_both_paths(ctx):
    """A swept `observation.readout.times` must reach the run on BOTH paths: the dask task and the sequential `_run_single_pipeline` each derive the run's readout from the run's parameters (`readout.replace(times=value)` under the key test, anything else under `observation.readout` refused) and hand THAT readout to run_pipeline - a path that passes the observation's own readout unchanged runs every combination with the same times."""
    sites = {
        "pyxel.observation.observation_dask:_run_pipelines_array_to_datatree": "dask",
        "pyxel.observation.observation:Observation._run_single_pipeline": "sequential",
    }
    for q, label in sites.items():
        f = ctx.func(q)
        runs = stmt_calls(f, ctx.R, {"pyxel.exposure.exposure:run_pipeline"})
        if len(runs) != 1:
            raise AnalysisError(f"{q}: run_pipeline call not found")
        ro = kw(runs[0], "readout")
        name = dotted(ro) if ro is not None else None
        # every value the handed-over readout may derive from (through any chain of local names)
        from sa.astutil import enclosing_stmt as _est, flow_exprs as _fx

        defs = _fx(f, ro)[1] if name and "." not in name else []
        reps = [v for v in defs if isinstance(v, ast.Call) and isinstance(v.func, ast.Attribute) and v.func.attr == "replace" and kw(v, "times") is not None]
        ok = bool(reps)
        if ok:
            st_ = _est(reps[0])
            from sa.paths import canon_test as _ct

            ts = [(norm(expand(f, t2)), p2) for t2, p2 in (_ct(t, pol) for t, pol in enclosing_tests(st_, rejections=True))]
            ok = any(pol and "observation.readout" in t for t, pol in ts)
        ctx.check(ok, f"{q}#readout-sweep", f"{label} path: the run's readout is derived from a swept observation.readout.times" if ok else f"{label} path: run_pipeline receives `{norm(ro) if ro is not None else None}`, which is never derived from the run's parameters: a swept `observation.readout.times` is ignored on this path (all combinations run with the same times) while the other path applies it", where=f, node=runs[0])


RULES = [r13_swept_readout_reaches_both_paths, r12_both_paths_start_from_a_private_copy, r11_task_results_fit_declared_types, r10_parallel_rows_read_their_own_columns, r9_files_attributed_one_to_one, r7_every_task_runs_its_own_pipeline, r8_evolved_algorithm_comes_back, r6_names_values_same_order, r1_sibling_run_space, r2_no_shared_state_in_task, r3_one_suffix_per_run, r4_task_independence, r5_island_order]
