"""C12 - a configuration file means what it says, and nonsense is refused."""

from __future__ import annotations

import ast
from fractions import Fraction

from sa.astutil import (
    raise_conditions,
    arg_or_kw,
    call_name,
    calls_in,
    contains,
    enclosing_tests,
    expand,
    kw,
    local_defs,
    names_in,
    raising_ifs,
    returns_of,
    stores,
)
from sa.guards import Interval, reject_to_accept
from sa.index import AnalysisError, ClassInfo, FuncInfo, dotted, enclosing_stmt, norm, walk_ordered

EXPLANATION = (
    "Guard-interval and wiring analysis of configuration loading: the exactly-one checks for modes "
    "and detectors exist in Configuration.__post_init__ and in _build_configuration and their key "
    "ladders cover every counted key with the matching builder; for every detector field the range "
    "guard of the constructor and of the property setter normalise to the same accepted interval "
    "(closedness included), setters validate before they store, the documented ranges of the "
    "property statement are pinned; every to_* builder forwards the whole mapping by keyword or "
    "forwards each key it reads under the like-named parameter."
)
NOT_DECIDED = ["that running the YAML and the Python construction gives the same results", "the numbers Python's eval returns for a range expression (R7 decides only the scope it is evaluated in and that the result is passed on whole and in order)"]
ASSUMPTIONS = ["`Cls(**mapping)` binds by name and raises TypeError for unknown keys"]

CF = "pyxel.configuration.configuration"
CLASSES = [
    "pyxel.detectors.geometry:Geometry",
    "pyxel.detectors.characteristics:Characteristics",
    "pyxel.detectors.apd.apd_characteristics:APDCharacteristics",
    "pyxel.detectors.environment:Environment",
]
MODES = {"exposure": "to_exposure", "observation": "to_observation", "calibration": "to_calibration"}
DETECTORS = {"ccd_detector": "to_ccd", "cmos_detector": "to_cmos", "mkid_detector": "to_mkid_array", "apd_detector": "to_apd"}


def r1_exactly_one(ctx):
    """Configuration.__post_init__ and _build_configuration both count the 3 running modes and the 4 detectors and raise unless the count is 1; the elif ladders of _build_configuration cover every counted key, reading and storing under that same key and calling the matching builder."""
    ci = ctx.cls(f"{CF}:Configuration")
    fields = set(ci.const_ann)
    ok = set(MODES) | set(DETECTORS) | {"pipeline"} <= fields
    ctx.check(ok, ci.qual + "#fields", "dataclass has one slot per mode and detector" if ok else f"Configuration fields are {sorted(fields)}", where=ci, node=ci.node)
    pi = ctx.func(f"{CF}:Configuration.__post_init__")
    for label, names in (("modes", MODES), ("detectors", DETECTORS)):
        found = False
        for r_, conds in raise_conditions(pi):
            for t, pol in conds:
                # raised exactly when the count differs from one (canonical form: `count == 1` is False)
                if isinstance(t, ast.Compare) and len(t.ops) == 1 and isinstance(t.ops[0], ast.Eq) and norm(t.comparators[0]) == "1" and not pol:
                    cnt = expand(pi, t.left)
                    if isinstance(cnt, ast.Name):
                        # a counter name re-used for both checks: the closest definition in front of this raise
                        from sa.astutil import precedes as _prec

                        prior = [(s_, v_) for s_, v_ in local_defs(pi, cnt.id) if v_ is not None and _prec(pi.node, s_, r_)]
                        if prior:
                            cnt = expand(pi, prior[-1][1])
                    if isinstance(cnt, ast.Call) and call_name(cnt) == "sum":
                        attrs = {a.attr for a in ast.walk(cnt) if isinstance(a, ast.Attribute) and dotted(a.value) == "self"}
                        if attrs == set(names) and "is not None" in norm(cnt):
                            found = True
        ctx.check(found, pi.qual + f"#{label}", f"raises unless exactly one of {sorted(names)} is set" if found else f"no exactly-one check over {sorted(names)}", where=pi, node=pi.node)
    bc = ctx.func(f"{CF}:_build_configuration")
    g = ctx.cfg(bc)
    p = bc.params[0]
    for label, names in (("modes", MODES), ("detectors", DETECTORS)):
        found = None
        for gd in raising_ifs(bc.node):
            t = gd.test
            if isinstance(t, ast.Compare) and isinstance(t.ops[0], ast.NotEq) and norm(t.comparators[0]) == "1":
                cnt = expand(bc, t.left)
                if isinstance(cnt, ast.Call) and call_name(cnt) == "sum" and cnt.args and isinstance(cnt.args[0], ast.GeneratorExp):
                    ge = cnt.args[0]
                    try:
                        keys = set(ast.literal_eval(ge.generators[0].iter))
                    except Exception:
                        keys = set()
                    if keys == set(names) and norm(ge.elt) == f"{ge.generators[0].target.id} in {p}":
                        found = gd
                elif isinstance(cnt, ast.Call) and call_name(cnt) == "sum" and cnt.args and isinstance(cnt.args[0], (ast.Tuple, ast.List)):
                    # canonical form of a count over a literal table: sum(('a' in dct, 'b' in dct, ..))
                    elts = cnt.args[0].elts
                    if all(isinstance(x, ast.Compare) and len(x.ops) == 1 and isinstance(x.ops[0], ast.In) and isinstance(x.left, ast.Constant) and dotted(x.comparators[0]) == p for x in elts) and {x.left.value for x in elts} == set(names) and len(elts) == len(names):
                        found = gd
        ok = found is not None and g.node_of(found) in g.dominators("n").get(g.exit_return, set())
        ctx.check(ok, bc.qual + f"#count-{label}", f"raises unless exactly one of {sorted(names)} is present, on every path" if ok else f"no dominating exactly-one check over the keys {sorted(names)}", where=bc, node=found.test if found else bc.node)
        # ladder
        arms = {}
        for iff in [n for n in walk_ordered(bc.node) if isinstance(n, ast.If)]:
            t = iff.test
            if isinstance(t, ast.Compare) and isinstance(t.ops[0], ast.In) and isinstance(t.left, ast.Constant) and dotted(t.comparators[0]) == p and t.left.value in names:
                arms[t.left.value] = iff
        for k, builder in names.items():
            iff = arms.get(k)
            if iff is None:
                ctx.fail(bc.qual + f"#arm:{k}", f"no branch builds '{k}'", where=bc, node=bc.node)
                continue
            sts = [s for s in iff.body if isinstance(s, ast.Assign) and isinstance(s.targets[0], ast.Subscript)]
            ok = len(sts) == 1
            why = "branch does not store the built object"
            if ok:
                s = sts[0]
                key = s.targets[0].slice
                v = s.value
                ok = isinstance(key, ast.Constant) and key.value == k and isinstance(v, ast.Call) and call_name(v) == builder and len(v.args) == 1 and norm(v.args[0]) == f"{p}['{k}']"
                why = f"'{k}' -> {builder}({p}['{k}']) stored under '{k}'" if ok else f"branch for '{k}' does `{norm(s)[:80]}`"
            ctx.check(ok, bc.qual + f"#arm:{k}", why, where=bc, node=sts[0] if sts else iff)
    cons = [c for c in calls_in(bc.node) if call_name(c) == "Configuration"]
    ok = len(cons) == 1 and dotted(kw(cons[0], "pipeline")) == "pipeline" and sorted(norm(k.value) for k in cons[0].keywords if k.arg is None) == ["detector", "running_mode"]
    ctx.check(ok, bc.qual + "#construct", "Configuration(pipeline=pipeline, **running_mode, **detector)" if ok else "Configuration is not built from the pipeline plus the single mode and detector by keyword", where=bc, node=cons[0] if cons else bc.node)
    pl = local_defs(bc, "pipeline")
    ok = len(pl) == 1 and norm(pl[0][1]) == f"to_pipeline({p}['pipeline'])"
    ctx.check(ok, bc.qual + "#pipeline", "pipeline built from the 'pipeline' entry" if ok else "pipeline is not built from the 'pipeline' entry", where=bc, node=pl[0][0] if pl else bc.node)


def _guards_on(ctx, f: FuncInfo, var: str, _depth: int = 0):
    """(constraints, unparsed guard tests, guard If nodes) of raising ifs in f that test `var`.

    Calls of repository helpers that receive `var` as an argument are inlined (two levels)."""
    cons = []
    unparsed = []
    nodes = []
    if _depth < 2:
        for cs in ctx.R.call_sites(f):
            if not isinstance(cs.node, ast.Call) or cs.indirect:
                continue
            for cal in cs.callees:
                if not isinstance(cal, FuncInfo) or cal is f:
                    continue
                for pname in cal.params:
                    a = cs.arg_for(cal, pname)
                    if a is not None and dotted(a) == var:
                        c2, u2, n2 = _guards_on(ctx, cal, pname, _depth + 1)
                        if c2 or u2:
                            # the call statement stands for the guards it performs
                            st_ = enclosing_stmt(cs.node)
                            ts_ = enclosing_tests(cs.node)
                            extra_applies = tuple(norm(t) for t, pol in ts_ if pol)
                            for c_ in c2:
                                cons.append(c_)
                                nodes.append(_CallGuard(st_, getattr(c_, "_applies", ())))
                            unparsed += u2
                            WRAPPED.setdefault((f.qual, var), []).extend(WRAPPED.get((cal.qual, pname), []))
    for gd in raising_ifs(f.node):
        t = gd.test
        if var not in names_in(t):
            continue
        r = reject_to_accept(t, var)
        if r is None:
            # only a None/type wrapper, or a relation between several parameters: no range constraint
            has_order = any(isinstance(c, ast.Compare) and any(isinstance(o, (ast.Lt, ast.LtE, ast.Gt, ast.GtE)) for o in c.ops) and var in names_in(c) and len(names_in(c) & set(f.params)) == 1 for c in ast.walk(t))
            if has_order:
                unparsed.append(gd)
            continue
        c, applies = r
        if isinstance(c, tuple) and c[0] == "type":
            TYPE_GUARDS.setdefault((f.qual, var), []).append(gd)
            continue
        # enclosing non-raising ifs that only test the kind of the value act as wrappers too
        for t_, pol in enclosing_tests(gd):
            if pol and norm(t_).startswith(f"isinstance({var}, "):
                applies = applies + ("isinstance:" + norm(t_),)
        if any(a.startswith("isinstance") for a in applies):
            WRAPPED.setdefault((f.qual, var), []).append((gd, applies))
        if "truthy" in applies and isinstance(c, Interval) and not _contains_zero(c):
            # `if x and not (lo <= x <= hi)`: the falsy value 0 skips the check although 0 is outside [lo, hi]
            HOLES.setdefault((f.qual, var), []).append((gd, c))
        cons.append(c)
        nodes.append(gd)
    return cons, unparsed, nodes


class _CallGuard:
    """Stands for `helper(value)` whose body holds the guard (so dominance can be checked on the call)."""

    def __init__(self, stmt, applies):
        self.test = stmt
        self.stmt = stmt


def _contains_zero(i: Interval) -> bool:
    lo_ok = i.lo is None or i.lo < 0 or (i.lo == 0 and i.lo_closed)
    hi_ok = i.hi is None or i.hi > 0 or (i.hi == 0 and i.hi_closed)
    return lo_ok and hi_ok


HOLES: dict = {}
WRAPPED: dict = {}
TYPE_GUARDS: dict = {}


def _fmt(cs) -> str:
    return ", ".join(sorted(str(c) if isinstance(c, Interval) else f"{c[0]}=={c[1]}" for c in cs)) or "no guard"


def _nan_parity(ctx, cq, name, init, cvar, c_nodes, st, svar, s_nodes):
    """A value that is unordered with every number (NaN) lies outside every range: where the reviewed
    guards refuse it (the `not (lo <= x <= hi)` form does, `x < lo or x > hi` does not) they must keep
    refusing it, in the constructor and in the setter alike."""
    from sa.guards import refuses_unordered

    for site, fn, var, nodes in (("constructor", init, cvar, c_nodes), ("setter", st, svar, s_nodes)):
        verdicts = [refuses_unordered(g_.test, var) for g_ in nodes if not isinstance(g_, _CallGuard)]
        refused = any(v is True for v in verdicts)
        key = (cq.split(":")[1], name)
        if key in NAN_NOT_APPLICABLE or not nodes:
            continue
        ctx.check(refused, f"{cq}.{name}#not-a-number:{site}", "NaN is refused (the guard negates an acceptance test, which NaN fails)" if refused else f"the {site} of {name} does not refuse NaN: its range test is written as rejections (`x < lo or x > hi`) that are all false for NaN, so a NaN configured / assigned / swept there is stored", where=fn, node=(nodes[0].test if nodes and not isinstance(nodes[0], _CallGuard) else fn.node))


NAN_NOT_APPLICABLE = {
    ("Geometry", "row"): "an array size is an integer: NaN is not an int (range(row) / np.zeros fail on it)",
    ("Geometry", "col"): "same",
}


def r2_ctor_setter_parity(ctx):
    """For every field of Geometry, Characteristics, APDCharacteristics and Environment that has a range/length guard in the constructor or in its property setter, both guards exist and accept the same region (closedness included); in the setter every guard dominates the store, so a rejected assignment leaves the old value."""
    n = 0
    for cq in CLASSES:
        ci = ctx.cls(cq)
        init = ci.methods.get("__init__")
        if init is None:
            raise AnalysisError(f"{cq}.__init__ not found")
        for name, st in sorted(ci.setters.items()):
            if name not in init.params:
                continue
            val = st.params[1]
            c_cons, c_unp, c_nodes = _guards_on(ctx, init, name)
            s_cons, s_unp, s_nodes = _guards_on(ctx, st, val)
            for u in c_unp + s_unp:
                raise AnalysisError(f"{cq}.{name}: guard outside the interval grammar: {norm(u.test)[:80]}")
            if not c_cons and not s_cons:
                continue
            n += 1
            _nan_parity(ctx, cq, name, init, name, c_nodes if any(isinstance(c_, Interval) for c_ in c_cons) else [], st, val, s_nodes if any(isinstance(c_, Interval) for c_ in s_cons) else [])
            same = set(c_cons) == set(s_cons)
            ctx.check(
                same,
                f"{cq}.{name}",
                f"constructor and setter both accept {_fmt(s_cons)}" if same else f"constructor accepts {_fmt(c_cons)} but the setter accepts {_fmt(s_cons)}: the limit is not enforced on " + ("attribute assignment / parameter sweeps" if len(s_cons) < len(c_cons) or not s_cons else "construction / YAML loading"),
                where=st if (not s_cons or len(s_cons) < len(c_cons)) else init,
                node=(s_nodes[0].test if s_nodes else st.node),
                facts={"constructor": _fmt(c_cons), "setter": _fmt(s_cons)},
            )
            # the value that is validated and stored is the value given: the setter's parameter is not replaced by a
            # truncated / rounded / clipped version of itself before the guard (the constructor validates it as written)
            for rst, rv in local_defs(st, val):
                if rv is None:
                    continue
                keeps = isinstance(rv, ast.Call) and call_name(rv) in ("float", "tuple", "list", "np.asarray", "np.array", "np.float64") and len(rv.args) == 1 and dotted(rv.args[0]) == val and not rv.keywords
                ctx.check(keeps, f"{cq}.{name}#as-given", f"`{norm(rst)[:50]}` keeps the value" if keeps else f"the setter replaces the given value by `{norm(rv)[:50]}` before validating / storing it: a value the constructor refuses (e.g. 64.5 bits) is accepted after truncation, or another value than the one assigned is stored", where=st, node=rst)
            # validate-then-store in the setter
            g = ctx.cfg(st)
            sts = [s_ for s_, t in stores(st.node, lambda t: isinstance(t, ast.Attribute) and dotted(t.value) == "self")]
            from sa.index import ancestors as _anc

            def _outermost(iff):
                top = iff
                for a_ in _anc(iff):
                    if a_ is st.node:
                        break
                    if isinstance(a_, ast.If):
                        top = a_
                # climb to the head of an if/elif chain
                changed = True
                while changed:
                    changed = False
                    par = getattr(top, "_parent", None)
                    if isinstance(par, ast.If) and top in par.orelse and par is not st.node:
                        top = par
                        changed = True
                return top

            gn = [g.node_of(_outermost(x.stmt)) if isinstance(x, _CallGuard) else g.node_of(_outermost(x)) for x in s_nodes]
            # a range check that only applies to some kinds of value needs a type guard for the rest
            wr = WRAPPED.get((st.qual, val), [])
            if wr:
                has_type_guard = bool(TYPE_GUARDS.get((st.qual, val))) or any("isinstance" in norm(i.test) and "not isinstance" in norm(i.test) for i in raising_ifs(st.node))
                if not has_type_guard:
                    from sa.astutil import raise_conditions

                    # `if isinstance(v, A): <range check> elif isinstance(v, B): pass else: raise` (also as a lowered match)
                    has_type_guard = any(any((not pol) and norm(t).startswith(f"isinstance({val}, ") for t, pol in conds) and not any(pol and norm(t).startswith(f"isinstance({val}, ") for t, pol in conds) for _, conds in raise_conditions(st))
                ctx.check(has_type_guard, f"{cq}.{name}#all-kinds", "values of other kinds are rejected by a type guard" if has_type_guard else f"the setter's range check only applies under {sorted({a for _, ap in wr for a in ap})}: other numeric kinds (e.g. numpy scalars) are stored unchecked", where=st, node=getattr(wr[0][0], "test", st.node))
            for s_ in sts:
                ok = all(g.must_precede([gnode], sn) for gnode in gn for sn in g.nodes_of(s_))
                ctx.check(ok, f"{cq}.{name}#validate-first", "all guards dominate the store" if ok else f"`{norm(s_)[:60]}` can execute before a guard: a rejected assignment leaves a changed object", where=st, node=s_)
    ctx.floor(n, 17)


SPEC = {
    ("pyxel.detectors.characteristics:Characteristics", "quantum_efficiency"): Interval(Fraction(0), True, Fraction(1), True),
    ("pyxel.detectors.apd.apd_characteristics:APDCharacteristics", "quantum_efficiency"): Interval(Fraction(0), True, Fraction(1), True),
    ("pyxel.detectors.environment:Environment", "temperature"): Interval(Fraction(0), False, Fraction(1000), True),
    ("pyxel.detectors.geometry:Geometry", "row"): Interval(Fraction(0), False, None, False),
    ("pyxel.detectors.geometry:Geometry", "col"): Interval(Fraction(0), False, None, False),
    ("pyxel.detectors.characteristics:Characteristics", "adc_bit_resolution"): Interval(Fraction(4), True, Fraction(64), True),
    ("pyxel.detectors.apd.apd_characteristics:APDCharacteristics", "adc_bit_resolution"): Interval(Fraction(4), True, Fraction(64), True),
}


def r3_documented_ranges(ctx):
    """The ranges named in the property (quantum efficiency in [0,1], temperature in (0,1000], row/col > 0, ADC resolution in [4,64]) are exactly what constructor and setter accept."""
    for (cq, name), want in SPEC.items():
        ci = ctx.cls(cq)
        init = ci.methods["__init__"]
        st = ci.setters.get(name)
        if st is None:
            ctx.fail(f"{cq}.{name}#setter", "no property setter (attribute assignment unvalidated)", where=ci, node=ci.node)
            continue
        for f, var, side in ((init, name, "constructor"), (st, st.params[1], "setter")):
            cons, _, nodes = _guards_on(ctx, f, var)
            iv = [c for c in cons if isinstance(c, Interval)]
            ok = iv == [want]
            ctx.check(ok, f"{cq}.{name}#{side}", f"{side} accepts {want}" if ok else f"{side} accepts {_fmt(iv)} instead of the documented {want}", where=f, node=nodes[0].test if nodes else f.node)
            for gd_, c_ in HOLES.get((f.qual, var), []):
                ctx.fail(f"{cq}.{name}#{side}-zero", f"{side}: the range check is skipped for the falsy value 0 (`{norm(gd_.test)[:70]}`), and 0 is outside the documented {want}: 0 is accepted", where=f, node=gd_.test)
    # subclasses must not override validated setters / constructors without the guards
    geo = ctx.cls("pyxel.detectors.geometry:Geometry")
    for sub in ctx.repo.subclasses(geo):
        bad = [s for s in sub.setters if s in geo.setters]
        ctx.check(not bad, sub.qual + "#setters", "inherits Geometry's validated setters" if not bad else f"overrides validated setters {bad}", where=sub, node=sub.node)
        init = sub.methods.get("__init__")
        if init is not None:
            sup = [c for c in calls_in(init.node) if isinstance(c.func, ast.Attribute) and c.func.attr == "__init__" and isinstance(c.func.value, ast.Call) and call_name(c.func.value) == "super"]
            ok = len(sup) == 1 and all(dotted(kw(sup[0], k)) == k for k in ("row", "col"))
            ctx.check(ok, sub.qual + "#super-init", "forwards row/col to Geometry.__init__ (validated there)" if ok else "does not forward row/col to the validating base constructor", where=init, node=sup[0] if sup else init.node)


def _dct_reads(e: ast.AST, p: str) -> list[tuple[str, ast.AST]]:
    out = []
    for n in ast.walk(e):
        if isinstance(n, ast.Subscript) and dotted(n.value) == p and isinstance(n.slice, ast.Constant):
            out.append((n.slice.value, n))
        if isinstance(n, ast.Call) and isinstance(n.func, ast.Attribute) and n.func.attr in ("get", "pop") and dotted(n.func.value) == p and n.args and isinstance(n.args[0], ast.Constant):
            out.append((n.args[0].value, n))
    return out


def r5_builders_not_crosswired(ctx):
    """Every to_* builder either forwards the whole mapping (Cls(**dct) / Cls.from_dict(dct)) - rewriting an entry only from that same entry - or forwards each key it reads under the parameter of the same name."""
    m = ctx.repo.module(CF)
    n = 0
    for f in sorted((x for x in m.functions.values() if x.name.startswith("to_")), key=lambda x: x.line):
        if not f.params:
            continue
        p = f.params[0]
        n += 1
        c = f.qual
        rets = [r for r in returns_of(f) if r.value is not None and not (isinstance(r.value, ast.Constant) and r.value.value is None)]
        if not rets:
            ctx.fail(c, "builder returns nothing", where=f, node=f.node)
            continue
        ok_all = True
        for r in rets:
            v = r.value
            if not isinstance(v, ast.Call):
                ctx.fail(c + "#return", f"returns {norm(v)[:60]}", where=f, node=r)
                ok_all = False
                continue
            star = [k for k in v.keywords if k.arg is None]

            def _whole(e) -> bool:
                # the parameter itself, or `{} if p is None else p` / `p if p is not None else {}` / `p or {}`
                if dotted(e) == p:
                    return True
                if isinstance(e, ast.IfExp):
                    t = norm(e.test)
                    a_, b_ = e.body, e.orelse
                    if t == f"{p} is None" and norm(a_) in ("{}", "dict()") and dotted(b_) == p:
                        return True
                    if t in (f"{p} is not None", p) and norm(b_) in ("{}", "dict()") and dotted(a_) == p:
                        return True
                if isinstance(e, ast.BoolOp) and isinstance(e.op, ast.Or) and len(e.values) == 2 and dotted(e.values[0]) == p and norm(e.values[1]) in ("{}", "dict()"):
                    return True
                return False

            if (len(star) == 1 and _whole(star[0].value) and not v.args and len(v.keywords) == 1) or (isinstance(v.func, ast.Attribute) and v.func.attr == "from_dict" and len(v.args) == 1 and dotted(v.args[0]) == p):
                continue  # whole mapping forwarded
            # hand-picking (a keyword mapping built key by key, `kw = {...}; kw["k"] = ..; Cls(**kw)`, is read as its display)
            from sa.astutil import dict_display

            picked = []
            for k in v.keywords:
                if k.arg is None:
                    dd = dict_display(f, k.value.id) if isinstance(k.value, ast.Name) and k.value.id != p else None
                    if dd is not None and all(kk is not None for kk in dd.keys):
                        picked += [ast.keyword(arg=kk.value, value=vv) for kk, vv in zip(dd.keys, dd.values)]
                    else:
                        picked.append(k)
                else:
                    picked.append(k)
            for k in picked:
                if k.arg is None:
                    ctx.fail(c + "#kw", f"mixes ** forwarding with hand-picked keywords: {norm(v)[:80]}", where=f, node=r)
                    ok_all = False
                    continue
                reads = _dct_reads(expand(f, k.value), p)
                bad = [key for key, _ in reads if key != k.arg]
                if bad or not reads:
                    ctx.fail(c + f"#kw:{k.arg}", f"parameter {k.arg} is filled from entry {bad or norm(k.value)[:40]}", where=f, node=r)
                    ok_all = False
            if v.args:
                ctx.fail(c + "#positional", f"positional construction {norm(v)[:70]}", where=f, node=r)
                ok_all = False
        # in-place rewrites of entries
        for node in walk_ordered(f.node):
            key = val = None
            if isinstance(node, ast.Call) and isinstance(node.func, ast.Attribute) and node.func.attr == "update" and dotted(node.func.value) == p and node.args and isinstance(node.args[0], ast.Dict):
                for k_, v_ in zip(node.args[0].keys, node.args[0].values):
                    if isinstance(k_, ast.Constant):
                        key, val = k_.value, v_
                        reads = _dct_reads(expand(f, val), p)
                        bad = [x for x, _ in reads if x != key]
                        if bad:
                            ctx.fail(c + f"#rewrite:{key}", f"entry '{key}' is rebuilt from entry {bad}", where=f, node=node)
                            ok_all = False
            if isinstance(node, ast.Assign) and isinstance(node.targets[0], ast.Subscript) and dotted(node.targets[0].value) == p and isinstance(node.targets[0].slice, ast.Constant):
                key = node.targets[0].slice.value
                reads = _dct_reads(expand(f, node.value), p)
                bad = [x for x, _ in reads if x != key]
                if bad:
                    ctx.fail(c + f"#rewrite:{key}", f"entry '{key}' is rebuilt from entry {bad}", where=f, node=node)
                    ok_all = False
        if ok_all:
            ctx.ok(c, "keys reach the like-named parameters", where=f, node=rets[0])
    ctx.floor(n, 25)
    # detector builders use the matching sub-builders
    table = {"to_ccd": ("CCD", "ccd"), "to_cmos": ("CMOS", "cmos"), "to_mkid_array": ("MKID", "mkid"), "to_apd": ("APD", "apd")}
    for fn, (cls, pre) in table.items():
        f = ctx.func(f"{CF}:{fn}")
        rets = [r for r in returns_of(f) if r.value is not None]
        ok = len(rets) == 1 and isinstance(rets[0].value, ast.Call) and call_name(rets[0].value) == cls
        if ok:
            v = rets[0].value
            want = {"geometry": f"to_{pre}_geometry", "environment": "to_environment", "characteristics": f"to_{pre}_characteristics"}
            for k, b in want.items():
                a = kw(v, k)
                a = expand(f, a) if isinstance(a, ast.Name) else a  # a named intermediate
                ok = ok and isinstance(a, ast.Call) and call_name(a) == b
        ctx.check(ok, f.qual + "#sub-builders", f"{cls} built from its own geometry/environment/characteristics builders" if ok else f"{fn} uses another detector type's builders", where=f, node=rets[0] if rets else f.node)


def r6_settings_survive_derived_copies(ctx):
    """A setting written in the file must still hold in the objects that actually run: Readout.replace (the dask path's way of deriving a run's readout) carries every constructor setting (same obligations as C06.R5)."""
    from props.C06 import r5_readout_replace_complete

    r5_readout_replace_complete(ctx)


def r7_range_expressions(ctx):
    """eval_range: a sequence is returned as list(values) (order kept), a number as [number], the placeholder '_' as ['_']; a string mentioning numpy is evaluated with only `numpy` in scope and converted element by element in order; ParameterValues iterates eval_range(self.values) in order and Readout evaluates its times through eval_range."""
    f = ctx.func("pyxel.evaluator:eval_range")
    v = f.params[0]
    from sa.astutil import result_sites

    sites = result_sites(f)  # `values_lst = E ... return values_lst` and `return E` are the same sites
    defs = {norm(val): [(norm(t), pol) for t, pol in enclosing_tests(s_)] for s_, val in sites}
    ok = f"list({v})" in defs and any(("isinstance" in t and "Sequence" in t and pol) for t, pol in defs.get(f"list({v})", []))
    ctx.check(ok, f.qual + "#sequence", "a sequence is returned as list(values)" if ok else "a literal list of values is not returned as given", where=f, node=f.node)
    ok = f"[{v}]" in defs
    ctx.check(ok, f.qual + "#number", "a number becomes a one-element list" if ok else "a single number is not wrapped as [number]", where=f, node=f.node)
    ok = "['_']" in defs
    ctx.check(ok, f.qual + "#placeholder", "'_' stays the placeholder" if ok else "the placeholder '_' is evaluated", where=f, node=f.node)
    evs = [c for c in calls_in(f.node) if call_name(c) == "eval"]
    ok = len(evs) == 2
    for c in evs:
        loc = expand(f, c.args[2]) if len(c.args) > 2 else None
        ok = ok and loc is not None and (norm(loc) in ("{}",) or (isinstance(loc, ast.Dict) and [getattr(k, "value", None) for k in loc.keys] == ["numpy"]))
    ctx.check(ok, f.qual + "#eval-scope", "expressions are evaluated with an empty scope or only `numpy`" if ok else "range expressions are evaluated with a wider scope", where=f, node=evs[0] if evs else f.node)
    exp = [norm(expand(f, val)) for s_, val in sites]
    ok = f"list(eval({v}, {{}}, {{}}))" in exp
    ctx.check(ok, f.qual + "#plain-expression", "a plain expression becomes list(eval(text)) in order" if ok else "a plain list expression is not returned as list(<evaluated text>)", where=f, node=f.node)
    comps = [val for s_, val in sites if isinstance(val, ast.ListComp)]
    from sa.astutil import local_defs as _ld

    def _converter(fn_):
        # float / int, or a local every definition of which is float / int (`converter = float` ... `converter = int`)
        if not isinstance(fn_, ast.Name):
            return False
        if fn_.id in ("float", "int"):
            return True
        ds = [d for _s, d in _ld(f, fn_.id)]
        ds = [d for d in ds if d is not None]
        return bool(ds) and all(isinstance(d, ast.Name) and d.id in ("float", "int") for d in ds)

    def _np_iter(it):
        e = expand(f, it)
        return isinstance(e, ast.Call) and call_name(e) == "eval" and len(e.args) > 2 and "numpy" in norm(expand(f, e.args[2]))

    ok = 1 <= len(comps) <= 2 and all(len(c.generators) == 1 and not c.generators[0].ifs and _np_iter(c.generators[0].iter) and isinstance(c.elt, ast.Call) and len(c.elt.args) == 1 and not c.elt.keywords and norm(c.elt.args[0]) == norm(c.generators[0].target) and _converter(c.elt.func) for c in comps)
    ctx.check(ok, f.qual + "#numpy-order", "numpy results are converted element by element, in order, unfiltered" if ok else "numpy range results are filtered or reordered", where=f, node=comps[0] if comps else f.node)
    # every way out hands back one of those result sites unchanged
    rets = [r for r in returns_of(f) if r.value is not None]
    ok = bool(rets) and all(isinstance(r.value, ast.Name) or any(r is s_ for s_, _ in sites) for r in rets)
    ctx.check(ok, f.qual + "#return", "returns the list" if ok else "does not return the evaluated list", where=f, node=rets[0] if rets else f.node)
    it = ctx.func("pyxel.observation.parameter_values:ParameterValues.__iter__")
    txt = norm(it.node)
    ok = "eval_range(self.values)" in txt and ("yield from values" in txt or "yield from eval_range(self.values)" in txt)
    ctx.check(ok, it.qual, "iterates eval_range(self.values) in order" if ok else "ParameterValues does not iterate eval_range(self.values)", where=it, node=it.node)
    ro = ctx.func("pyxel.exposure.readout:Readout.__init__")
    ok = "np.array(eval_range(times), dtype=float)" in norm(ro.node)
    ctx.check(ok, ro.qual + "#times", "readout times = eval_range(times) as floats" if ok else "readout times are not evaluated through eval_range", where=ro, node=ro.node)


def _as_written(e: ast.expr, p: str) -> bool:
    """``e`` is the constructor argument ``p`` itself, up to value-preserving packaging."""
    if dotted(e) == p:
        return True
    if isinstance(e, ast.Constant) and e.value is None:
        return True
    if isinstance(e, ast.Call) and call_name(e) in ("float", "int", "tuple", "list", "np.asarray", "np.array", "np.float64", "str", "bool") and len(e.args) == 1 and not e.keywords:
        return _as_written(e.args[0], p)
    if isinstance(e, (ast.Tuple, ast.List)):
        return all(isinstance(x, ast.Subscript) and dotted(x.value) == p and isinstance(x.slice, ast.Constant) and x.slice.value == i for i, x in enumerate(e.elts)) and bool(e.elts)
    if isinstance(e, ast.IfExp):
        return _as_written(e.body, p) and _as_written(e.orelse, p)
    return False


def r8_stored_as_written(ctx):
    """"Every setting equals the value written in the file": in the constructors of the setting classes a parameter `p` that is stored into `self._p` is stored as given on every path (itself, float(p), its components in order) - never sorted, clipped, rounded, swapped or replaced by a default."""
    from sa.paths import enumerate_paths

    n = 0
    for cq in CLASSES:
        ci = ctx.cls(cq)
        init = ci.methods.get("__init__")
        if init is None:
            continue
        params = set(init.params[1:])
        for q in enumerate_paths(init.node.body, max_paths=4096):
            if q.exit == "raise":
                continue
            for e in q.effects:
                if e.kind != "store" or not e.target.startswith("self._"):
                    continue
                p = e.target[len("self._"):]
                if p not in params or e.value is None:
                    continue
                used = names_in(e.value) & params
                if (used and used != {p}) or (not used and not isinstance(e.value, ast.Constant)):
                    continue  # a derived quantity (e.g. the APD gain / bias / voltage triple): not a plain setting
                n += 1
                ok = _as_written(e.value, p)
                ctx.check(ok, f"{cq}.{p}#as-written", f"self._{p} = {p} as given" if ok else f"the constructor stores self._{p} = {norm(e.value)[:70]}: not the value written in the configuration", where=init, node=e.node)
    ctx.floor(n, 15)


def r9_derived_settings_are_current(ctx):
    """"Every setting equals the value written / assigned": a setting derived from others on read (APD node capacitance, charge-to-volt conversion, ...) is either recomputed on every read, or - when its getter memoises it (`if self._x is None: self._x = f(...)`) - reset by EVERY setter that stores a field the derivation reads (directly or through other getters); otherwise a swept / assigned value leaves the derived setting at its old value."""
    from sa.astutil import enclosing_tests, stores

    n = 0
    for cq in CLASSES:
        ci = ctx.cls(cq)

        def fields_read(fn, seen=None):
            seen = seen if seen is not None else set()
            out = set()
            for a in ast.walk(fn.node):
                if isinstance(a, ast.Attribute) and isinstance(a.value, ast.Name) and a.value.id == "self" and isinstance(a.ctx, ast.Load):
                    if a.attr.startswith("_"):
                        out.add(a.attr)
                    elif a.attr in ci.getters and a.attr not in seen:
                        seen.add(a.attr)
                        out |= fields_read(ci.getters[a.attr], seen)
            return out

        for name, g in sorted(ci.getters.items()):
            for st, t in stores(g.node, lambda t: isinstance(t, ast.Attribute) and isinstance(t.value, ast.Name) and t.value.id == "self"):
                fld = t.attr
                memo = [(norm(tt), pol) for tt, pol in enclosing_tests(st) if f"self.{fld}" in norm(tt)]
                n += 1
                if not memo:
                    ctx.ok(f"{cq}.{name}#derived", f"self.{fld} is recomputed on every read", where=g, node=st)
                    continue
                deps = fields_read(g) - {fld}
                stale = []
                for sname, sfn in sorted(ci.setters.items()):
                    stored = {tt.attr for _, tt in stores(sfn.node, lambda tt: isinstance(tt, ast.Attribute) and isinstance(tt.value, ast.Name) and tt.value.id == "self")}
                    if stored & deps and fld not in stored:
                        stale.append((sname, sorted(stored & deps)))
                ok = not stale
                ctx.check(ok, f"{cq}.{name}#derived", f"memoised self.{fld} is reset by every setter of what it derives from" if ok else f"`{name}` is memoised in self.{fld} (recomputed only when {memo}), but the setter of `{stale[0][0]}` changes {stale[0][1]} without resetting it: after assigning / sweeping {stale[0][0]} the derived setting keeps its old value", where=g, node=st)
    ctx.floor(n, 2)


RULES = [r9_derived_settings_are_current, r8_stored_as_written, r7_range_expressions, r6_settings_survive_derived_copies, r1_exactly_one, r2_ctor_setter_parity, r3_documented_ranges, r5_builders_not_crosswired]
