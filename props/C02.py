"""C02 - readout clock and per-step bucket lifecycle."""

from __future__ import annotations

import ast

from sa.astutil import after_block, precedes  # statement order (never line numbers)

from sa.astutil import (
    knows,
    only_knows,
    loop_exits,
    arg_or_kw,
    call_name,
    calls_in,
    contains,
    enclosing_loop,
    enclosing_tests,
    expand,
    kw,
    loops_in,
    names_in,
    order_breakers,
    raising_ifs,
    returns_of,
    stmt_calls,
    stores,
    strip_order_preserving,
)
from sa.index import AnalysisError, dotted, enclosing_stmt, norm, walk_ordered
from sa.poly import to_poly

EXPLANATION = (
    "Path/ordering analysis of the step loop in exposure.run_pipeline (schedule validated and "
    "detector reset before the first model, clock stores and empty(not non_destructive) dominate "
    "the single Processor.run_pipeline call of each iteration), wiring of the readout keywords, "
    "what Detector.empty and each bucket's empty() reset, and the clock algebra (steps = diff "
    "with the start time prepended, absolute time, first/last flags)."
)
NOT_DECIDED = ["numeric value of the time steps", "times loaded from files / numpy expression strings"]
ASSUMPTIONS = ["np.diff(concatenate(([s], t)))[i] = t[i] - t[i-1] with t[-1] = s"]

RP = "pyxel.detectors.readout_properties:ReadoutProperties"
RO = "pyxel.exposure.readout:Readout"
DET = "pyxel.detectors.detector:Detector"
RUN = "pyxel.exposure.exposure:run_pipeline"
PROC_RUN = "pyxel.pipelines.processor:Processor.run_pipeline"


def _cmp(test, ops):
    return isinstance(test, ast.Compare) and len(test.ops) == 1 and isinstance(test.ops[0], ops)


def _classify_guard(f, test: ast.expr, start_syms: set[str]) -> str | None:
    """Which schedule guard a raising test implements (None = unrelated)."""
    t = test
    txt = norm(t)
    if _cmp(t, (ast.NotEq,)) and ".ndim" in norm(t.left) and norm(t.comparators[0]) == "1":
        return "ndim"
    if _cmp(t, (ast.Eq,)) and norm(t.left).endswith("[0]") and norm(t.comparators[0]) in ("0", "0.0"):
        return "nonzero"
    if _cmp(t, (ast.LtE,)) and norm(t.left).endswith("[0]") and norm(t.comparators[0]) in ("0", "0.0"):
        return "nonzero"
    if _cmp(t, (ast.GtE,)) and norm(t.left) in start_syms and norm(t.comparators[0]).endswith("[0]"):
        return "after-start"
    if _cmp(t, (ast.LtE,)) and norm(t.comparators[0]) in start_syms and norm(t.left).endswith("[0]"):
        return "after-start"
    if _cmp(t, (ast.Gt, ast.Lt)) and ("[0]" in txt) and any(s in txt for s in start_syms):
        return "after-start-weak"
    # monotonicity: not np.all(np.diff(x) > 0)   |   np.any(np.diff(x) <= 0)
    if "diff(" in txt:
        if isinstance(t, ast.UnaryOp) and isinstance(t.op, ast.Not) and isinstance(t.operand, ast.Call) and call_name(t.operand).endswith("all"):
            inner = t.operand.args[0] if t.operand.args else None
            if _cmp(inner, (ast.Gt,)) and norm(inner.comparators[0]) in ("0", "0.0") and "diff(" in norm(inner.left):
                return "increasing"
            return "increasing-weak"
        if isinstance(t, ast.Call) and call_name(t).endswith("any"):
            inner = t.args[0] if t.args else None
            if _cmp(inner, (ast.LtE,)) and norm(inner.comparators[0]) in ("0", "0.0") and "diff(" in norm(inner.left):
                return "increasing"
            return "increasing-weak"
        return "increasing-weak"
    return None


def _schedule_guards(ctx, f, store_text: str, need: list[str], start_syms: set[str], label: str):
    g = ctx.cfg(f)
    dom = g.dominators("n")
    sts = [st for st, t in stores(f.node, lambda t: dotted(t) == store_text)]
    if not sts:
        raise AnalysisError(f"{f.qual}: no store to {store_text}")
    # the store that survives to normal return = last one that is not inside a raising branch
    found: dict[str, ast.If] = {}
    for iff in raising_ifs(f.node):
        k = _classify_guard(f, expand(f, iff.test), start_syms)
        if k:
            found.setdefault(k, iff)
    exit_doms = dom.get(g.exit_return, set())
    for k in need:
        c = f"{f.qual}#guard:{k}"
        if k not in found:
            weak = found.get(k + "-weak")
            ctx.fail(
                c,
                f"{label}: no guard rejecting schedules that violate '{k}'"
                + (f" (found weaker test `{norm(weak.test)}`)" if weak else ""),
                where=f,
                node=weak.test if weak else f.node,
            )
            continue
        iff = found[k]
        n = g.node_of(iff)
        ok = n in exit_doms
        ctx.check(
            ok,
            c,
            f"`{norm(iff.test)}` raises and dominates normal return" if ok else f"guard `{norm(iff.test)}` can be bypassed on a path to normal return",
            where=f,
            node=iff.test,
        )


def r1_reject_before_model(ctx):
    """Invalid schedules raise in ReadoutProperties.__init__ (1-D, non-zero first, first > start, strictly increasing) on every path to normal return; set_readout constructs it; set_readout dominates the first Processor.run_pipeline call. Readout.__init__ carries the same guards."""
    rp = ctx.func(f"{RP}.__init__")
    _schedule_guards(ctx, rp, "self._times", ["ndim", "nonzero", "after-start", "increasing"], {"start_time"}, "ReadoutProperties")
    ro = ctx.func(f"{RO}.__init__")
    _schedule_guards(ctx, ro, "self._times", ["nonzero", "after-start", "increasing"], {"start_time"}, "Readout")
    # "runs once per readout time" for a schedule given as a file: every value of the table is a readout time,
    # in file order - the whole table flattened, no column / row selection
    tf = [(st, v) for st, v in [(st_, getattr(st_, "value", None)) for st_, _ in stores(ro.node, lambda t: dotted(t) == "self._times")] if v is not None and "load_table" in norm(expand(ro, v))]
    if tf:
        v = expand(ro, tf[0][1])
        sel = [x for x in ast.walk(v) if isinstance(x, ast.Subscript) or (isinstance(x, ast.Attribute) and x.attr in ("iloc", "loc", "iat", "at", "columns", "index", "head", "tail", "squeeze", "T"))]
        chain = v
        whole = True
        while not (isinstance(chain, ast.Call) and call_name(chain).split(".")[-1] == "load_table"):
            if isinstance(chain, ast.Call) and isinstance(chain.func, ast.Attribute) and chain.func.attr in ("to_numpy", "flatten", "ravel", "astype", "reshape") :
                if chain.func.attr == "reshape" and norm(chain) .replace(" ", "").split("reshape")[-1] not in ("(-1)", "((-1,))", "(-1,)"):
                    whole = False
                chain = chain.func.value
            elif isinstance(chain, ast.Call) and call_name(chain) in ("np.asarray", "np.array", "np.ravel", "numpy.asarray", "numpy.array", "numpy.ravel") and chain.args:
                chain = chain.args[0]
            elif isinstance(chain, ast.Attribute) and chain.attr == "values":
                chain = chain.value
            else:
                whole = False
                break
        ok = whole and not sel
        ctx.check(ok, f"{RO}.__init__#times-from-file", "all values of the schedule file, flattened in file order" if ok else f"the schedule read from a file is `{norm(v)[:80]}`: only a part of the table (a column / row / element) becomes readout times, the other values are dropped", where=ro, node=tf[0][0])
    # set_readout constructs ReadoutProperties
    sr = ctx.func(f"{DET}.set_readout")
    cons = stmt_calls(sr, ctx.R, {RP}) or [c for c in calls_in(sr.node) if call_name(c).endswith("ReadoutProperties")]
    ok = len(cons) == 1
    ctx.check(ok, f"{DET}.set_readout#construct", "constructs one ReadoutProperties" if ok else "set_readout does not construct ReadoutProperties (validation skipped)", where=sr, node=cons[0] if cons else sr.node)
    if ok:
        st = enclosing_stmt(cons[0])
        sok = isinstance(st, (ast.Assign, ast.AnnAssign)) and any(dotted(t) == "self._readout_properties" for t in (st.targets if isinstance(st, ast.Assign) else [st.target]))
        ctx.check(sok, f"{DET}.set_readout#store", "stored in self._readout_properties" if sok else "the validated ReadoutProperties is not stored", where=sr, node=st)
        from sa.paths import enumerate_paths

        bare = [q for q in enumerate_paths(sr.node.body) if q.exit in ("fall", "return") and not [e_ for e_ in q.stores("self._readout_properties") if e_.target == "self._readout_properties"]]
        ctx.check(not bare, f"{DET}.set_readout#every-call", "every call that returns has installed a freshly validated ReadoutProperties" if not bare else f"set_readout returns without installing the given schedule when {bare[0].cond_texts()} (the previous run's schedule and readout mode stay in force)", where=sr, node=bare[0].exit_node if bare and bare[0].exit_node is not None else sr.node)
        for p in ("times", "start_time", "non_destructive"):
            v = kw(cons[0], p)
            vok = v is not None and dotted(v) == p
            ctx.check(vok, f"{DET}.set_readout#kw:{p}", f"{p}={p}" if vok else f"ReadoutProperties receives {p}={norm(v)}", where=sr, node=cons[0])
    f = ctx.func(RUN)
    g = ctx.cfg(f)
    sets = stmt_calls(f, ctx.R, {f"{DET}.set_readout"})
    runs = stmt_calls(f, ctx.R, {PROC_RUN})
    if not runs:
        ctx.fail(RUN + "#spine", "run_pipeline never calls Processor.run_pipeline", where=f, node=f.node)
        return
    if not sets:
        ctx.fail(RUN + "#set_readout", "detector.set_readout is never called: schedule is not validated/installed", where=f, node=f.node)
        return
    set_nodes = [n for n in g.nodes if n.ast is not None and n.kind == "stmt" and any(contains(n.ast, c) for c in sets)]
    for rc in runs:
        rn = [n for n in g.nodes if n.ast is not None and n.kind == "stmt" and contains(n.ast, rc)]
        ok = all(g.must_precede(set_nodes, n) for n in rn)
        ctx.check(ok, RUN + "#set_readout-first", "set_readout dominates the model run" if ok else "a path reaches Processor.run_pipeline without set_readout", where=f, node=rc)


def r2_keyword_wiring(ctx):
    """set_readout(times=readout.times, start_time=readout.start_time, non_destructive=readout.non_destructive); fields, getters, setters and Detector's delegating properties are wired to the like-named field."""
    f = ctx.func(RUN)
    sets = stmt_calls(f, ctx.R, {f"{DET}.set_readout"})
    for cl in sets:
        for i, p in enumerate(("times", "start_time", "non_destructive")):
            v = arg_or_kw(cl, i, p)
            ok = v is not None and dotted(expand(f, v)) == f"readout.{p}"
            ctx.check(ok, RUN + f"#set_readout:{p}", f"{p}=readout.{p}" if ok else f"set_readout gets {p}={norm(v)} (expected readout.{p}; default would be used)" , where=f, node=cl)
    rp = ctx.cls(RP)
    init = rp.methods["__init__"]
    want = {"_start_time": "start_time", "_non_destructive": "non_destructive"}
    for fld, p in want.items():
        sts = [st for st, _ in stores(init.node, lambda t, fld=fld: dotted(t) == f"self.{fld}")]
        ok = len(sts) == 1 and dotted(sts[0].value) == p
        ctx.check(ok, f"{RP}.__init__#{fld}", f"self.{fld} = {p}" if ok else f"self.{fld} is not set from parameter {p}", where=init, node=sts[0] if sts else init.node)
    # _times derived from `times` only, _steps from calculate_steps(times=<that>, start_time=start_time)
    sts = [st for st, _ in stores(init.node, lambda t: dotted(t) == "self._times")]
    if sts:
        v = expand(init, sts[0].value)
        used = names_in(v) & set(init.params)
        ok = used == {"times"} and not order_breakers(v)
        ctx.check(ok, f"{RP}.__init__#_times", "self._times derives from `times` only, unsliced" if ok else f"self._times = {norm(v)}", where=init, node=sts[0])
    sts = [st for st, _ in stores(init.node, lambda t: dotted(t) == "self._steps")]
    if sts:
        v = expand(init, sts[0].value)
        ok = False
        why = f"self._steps = {norm(v)}"
        if isinstance(v, ast.Call) and call_name(v).endswith("calculate_steps"):
            a_t = arg_or_kw(v, 0, "times")
            a_s = arg_or_kw(v, 1, "start_time")
            ok = a_t is not None and names_in(a_t) & set(init.params) == {"times"} and not order_breakers(a_t) and a_s is not None and dotted(a_s) == "start_time"
            why = "steps = calculate_steps(times, start_time)" if ok else f"calculate_steps called with times={norm(a_t)}, start_time={norm(a_s)}"
        ctx.check(ok, f"{RP}.__init__#_steps", why, where=init, node=sts[0])
    n = 0
    for name in ("times", "steps", "num_steps", "start_time", "non_destructive", "time", "time_step", "pipeline_count"):
        gt = rp.getters.get(name)
        if gt is None:
            raise AnalysisError(f"ReadoutProperties.{name} not found")
        rets = [r for r in returns_of(gt) if r.value is not None]
        ok = len(rets) == 1 and dotted(rets[0].value) == f"self._{name}"
        ctx.check(ok, f"{RP}.{name}", f"returns self._{name}" if ok else f"getter {name} returns {norm(rets[0].value) if rets else None}", where=gt, node=rets[0] if rets else gt.node)
        n += 1
    for name in ("time", "time_step", "pipeline_count"):
        st = rp.setters.get(name)
        if st is None:
            raise AnalysisError(f"ReadoutProperties.{name} setter not found")
        p = st.params[1]
        sts = [s for s, t in stores(st.node, lambda t: isinstance(t, ast.Attribute))]
        ok = len(sts) == 1 and dotted(sts[0].targets[0] if isinstance(sts[0], ast.Assign) else sts[0].target) == f"self._{name}" and dotted(sts[0].value) == p
        ctx.check(ok, f"{RP}.{name}#setter", f"self._{name} = {p}" if ok else f"setter {name} stores {norm(sts[0]) if sts else None}", where=st, node=sts[0] if sts else st.node)
        n += 1
    det = ctx.cls(DET)
    deleg = {"time": "time", "time_step": "time_step", "pipeline_count": "pipeline_count", "absolute_time": "absolute_time", "start_time": "start_time", "num_steps": "num_steps", "is_first_readout": "is_first_readout", "non_destructive_readout": "non_destructive"}
    for name, tgt in deleg.items():
        gt = det.getters.get(name)
        if gt is None:
            raise AnalysisError(f"Detector.{name} not found")
        rets = [r for r in returns_of(gt) if r.value is not None]
        ok = len(rets) == 1 and dotted(rets[0].value) in (f"self.readout_properties.{tgt}", f"self._readout_properties.{tgt}")
        ctx.check(ok, f"{DET}.{name}", f"delegates to readout_properties.{tgt}" if ok else f"Detector.{name} returns {norm(rets[0].value) if rets else None}", where=gt, node=rets[0] if rets else gt.node)
        n += 1
    gt = det.getters["readout_properties"]
    rets = [r for r in returns_of(gt) if r.value is not None]
    ok = len(rets) == 1 and dotted(rets[0].value) == "self._readout_properties"
    ctx.check(ok, f"{DET}.readout_properties", "returns self._readout_properties" if ok else "readout_properties getter returns something else", where=gt, node=rets[0] if rets else gt.node)
    ctx.floor(n, 19)


def _is_reset_true(call: ast.Call) -> bool:
    a = arg_or_kw(call, 0, "reset")
    return a is None or (isinstance(a, ast.Constant) and a.value is True)


def _step_loop(ctx, f):
    runs = stmt_calls(f, ctx.R, {PROC_RUN})
    if len(runs) != 1:
        return None, runs
    lp = enclosing_loop(runs[0])
    return lp, runs


def r3_initial_reset(ctx):
    """A full reset detector.empty() (reset true) dominates the step loop, so contents left by an earlier run never reach step 0."""
    f = ctx.func(RUN)
    g = ctx.cfg(f)
    lp, runs = _step_loop(ctx, f)
    if lp is None:
        ctx.fail(RUN + "#loop", f"expected exactly one Processor.run_pipeline call in a loop, found {len(runs)}", where=f, node=runs[1] if len(runs) > 1 else f.node)
        return
    empties = [c for c in stmt_calls(f, ctx.R, {f"{DET}.empty"}) if not contains(lp, c)]
    full = [c for c in empties if _is_reset_true(c) and not enclosing_tests(c)]
    header = g.node_of(lp)
    nodes = [n for n in g.nodes if n.ast is not None and n.kind == "stmt" and any(contains(n.ast, c) for c in full)]
    ok = bool(nodes) and g.must_precede(nodes, header)
    ctx.check(
        ok,
        RUN + "#initial-empty",
        "detector.empty() (full reset) dominates the step loop" if ok else "no unconditional full detector.empty() before the first step: prior detector contents leak into step 0",
        where=f,
        node=full[0] if full else (empties[0] if empties else lp),
    )
    # the receiver is the detector that runs
    for c in full:
        recv = dotted(expand(f, c.func.value)) if isinstance(c.func, ast.Attribute) else None
        ctx.check(recv == "processor.detector", RUN + "#initial-empty-recv", "empties processor.detector" if recv == "processor.detector" else f"empties {recv}", where=f, node=c)


def r4_step_loop(ctx):
    """The loop iterates enumerate(zip(rp.times, rp.steps)) unsliced; per iteration the stores time<-t_i, time_step<-step_i, pipeline_count<-i and detector.empty(not non_destructive) all dominate the single Processor.run_pipeline call."""
    f = ctx.func(RUN)
    g = ctx.cfg(f)
    lp, runs = _step_loop(ctx, f)
    if lp is None:
        return
    if not isinstance(lp, ast.For):
        raise AnalysisError("step loop is not a for-loop (unknown construct)")
    if enclosing_loop(lp) is not None:
        ctx.fail(RUN + "#nested", "step loop nested in another loop", where=f, node=lp)
    it = expand(f, lp.iter)
    c = RUN + "#iter"
    shape_ok = isinstance(it, ast.Call) and call_name(it) == "enumerate" and it.args and isinstance(it.args[0], ast.Call) and call_name(it.args[0]) == "zip" and len(it.args[0].args) == 2
    start_kw = kw(it, "start") if isinstance(it, ast.Call) else None
    if len(getattr(it, "args", [])) > 1:
        start_kw = it.args[1]
    if not shape_ok:
        ctx.fail(c, f"step loop iterates {norm(it)}; expected enumerate(zip(times, steps))", where=f, node=lp.iter)
        return
    a, b = it.args[0].args
    rp = "processor.detector.readout_properties"
    ok = dotted(a) == f"{rp}.times" and dotted(b) == f"{rp}.steps" and start_kw is None
    ctx.check(ok, c, "enumerate(zip(rp.times, rp.steps)) from index 0, unsliced" if ok else f"step loop iterates enumerate(zip({norm(a)}, {norm(b)})" + (f", start={norm(start_kw)})" if start_kw is not None else ")"), where=f, node=lp.iter)
    tg = lp.target
    if not (isinstance(tg, ast.Tuple) and len(tg.elts) == 2 and isinstance(tg.elts[0], ast.Name) and isinstance(tg.elts[1], ast.Tuple) and len(tg.elts[1].elts) == 2 and all(isinstance(x, ast.Name) for x in tg.elts[1].elts)):
        raise AnalysisError("step loop target is not `i, (time, step)` (unknown construct)")
    vi, vt, vs = tg.elts[0].id, tg.elts[1].elts[0].id, tg.elts[1].elts[1].id
    for v in (vi, vt, vs):
        for st, t in stores(lp, lambda t, v=v: isinstance(t, ast.Name) and t.id == v):
            if st is not lp:
                ctx.fail(RUN + f"#loopvar:{v}", f"loop variable {v} is overwritten inside the step", where=f, node=st)
    header = g.node_of(lp)
    run_call = runs[0]
    run_nodes = [n for n in g.nodes if n.ast is not None and n.kind == "stmt" and contains(n.ast, run_call)]
    lo, hi = g.count_events_per_iteration(header, run_nodes)
    ctx.check((lo, hi) == (1, 1), RUN + "#once", "Processor.run_pipeline runs exactly once per readout time" if (lo, hi) == (1, 1) else f"Processor.run_pipeline runs between {lo} and {hi} times per readout time", where=f, node=run_call, facts={"min": lo, "max": hi})
    for n in loop_exits(lp):
        if isinstance(n, (ast.Break, ast.Return)) or (isinstance(n, ast.Continue) and precedes(lp, n, run_call)):
            ctx.fail(RUN + "#exit", f"{type(n).__name__.lower()} inside the step loop skips readout steps", where=f, node=n)
    recv = dotted(expand(f, run_call.func.value)) if isinstance(run_call.func, ast.Attribute) else None
    ctx.check(recv == "processor", RUN + "#run-recv", "runs the processor whose detector was prepared" if recv == "processor" else f"runs {recv}.run_pipeline", where=f, node=run_call)

    body = g.loop_body_nodes(header) | {header}

    def dominated_by(store_nodes):
        # every path header -> run node passes a store node
        return all(g.all_paths_pass(header, [rn], store_nodes) for rn in run_nodes) and bool(store_nodes)

    wants = {"time": vt, "time_step": vs, "pipeline_count": vi}
    for attr, var in wants.items():
        sts = []
        for st, t in stores(lp, lambda t, attr=attr: isinstance(t, ast.Attribute) and t.attr == attr):
            base = dotted(expand(f, t.value))
            if base in ("processor.detector.readout_properties", "processor.detector"):
                sts.append(st)
        good = [st for st in sts if isinstance(st, (ast.Assign, ast.AnnAssign)) and dotted(expand(lp, st.value)) == var]
        bad = [st for st in sts if st not in good]
        nodes = [n for st in good for n in g.nodes_of(st)]
        ok = dominated_by(nodes) and not bad
        if bad:
            why = f"clock field {attr} is set from {norm(bad[0].value) if hasattr(bad[0], 'value') else norm(bad[0])} instead of loop variable {var}"
        elif not good:
            why = f"clock field {attr} is never set from loop variable {var} inside the step"
        elif not ok:
            why = f"a path reaches the model run without setting {attr}"
        else:
            why = f"readout_properties.{attr} = {var} dominates the model run"
        ctx.check(ok, RUN + f"#clock:{attr}", why, where=f, node=(bad or good or [lp])[0])
        # no later overwrite before run on some path is covered by `bad`
    _step_empty_checks(ctx, f, lp, g, header, run_nodes, run_call, RUN)


def _step_empty_checks(ctx, f, lp, g, header, run_nodes, run_call, QUAL):
    def dominated_by(store_nodes):
        return all(g.all_paths_pass(header, [rn], store_nodes) for rn in run_nodes) and bool(store_nodes)

    empties = [c for c in stmt_calls(f, ctx.R, {f"{DET}.empty"}) if contains(lp, c)]
    if not empties:
        ctx.fail(QUAL + "#step-empty", "no detector.empty(...) inside the step: buckets are never emptied between steps", where=f, node=lp)
        return
    ND = ("processor.detector.non_destructive_readout", "processor.detector.readout_properties.non_destructive", "readout.non_destructive", "detector.non_destructive_readout", "detector.readout_properties.non_destructive")

    def _nd_polarity(conds):
        """How the enclosing decisions fix `non_destructive` where the call sits (None = they do not)."""
        for t, pol in conds:
            if dotted(expand(f, t)) in ND or dotted(t) in ND:
                return pol
        return None

    for c in empties:
        arg = arg_or_kw(c, 0, "reset")
        argx = expand(f, arg) if arg is not None else None
        pol_ok = isinstance(argx, ast.UnaryOp) and isinstance(argx.op, ast.Not) and dotted(argx.operand) in ND
        if not pol_ok and isinstance(argx, ast.Constant) and isinstance(argx.value, bool):
            # `if non_destructive: empty(False) else: empty(True)`: the constant must be the negation of
            # what the enclosing decision says about non_destructive
            nd = _nd_polarity(enclosing_tests(c, stop=lp))
            pol_ok = nd is not None and argx.value == (not nd)
        if not pol_ok and isinstance(argx, ast.Name):
            # `if non_destructive: flag = False else: flag = True; empty(flag)`: decided per path
            from sa.paths import enumerate_paths

            verdicts = []
            for q_ in enumerate_paths(lp.body):
                for fn_, c_, _ in q_.called("empty"):
                    if getattr(c_, "_src", c_) is not c and norm(getattr(c_, "_src", c_)) != norm(c):
                        continue
                    a_ = arg_or_kw(c_, 0, "reset")
                    nd = _nd_polarity(q_.conds)
                    verdicts.append(isinstance(a_, ast.Constant) and isinstance(a_.value, bool) and nd is not None and a_.value == (not nd))
            pol_ok = bool(verdicts) and all(verdicts)
        ctx.check(
            pol_ok,
            QUAL + "#step-empty-polarity",
            "pixel reset flag = not non_destructive" if pol_ok else f"detector.empty is called with reset={norm(argx)}; expected `not detector.non_destructive_readout`",
            where=f,
            node=c,
        )
        recv = dotted(expand(f, c.func.value)) if isinstance(c.func, ast.Attribute) else None
        ctx.check(recv in ("processor.detector", "detector"), QUAL + "#step-empty-recv", "empties processor.detector" if recv in ("processor.detector", "detector") else f"empties {recv}", where=f, node=c)
    en = [n for n in g.nodes if n.ast is not None and n.kind == "stmt" and any(contains(n.ast, c) for c in empties)]
    ok = dominated_by(en)
    ctx.check(ok, QUAL + "#step-empty-first", "detector.empty(...) dominates the model run in every step" if ok else "a path reaches the model run without emptying the buckets", where=f, node=empties[0])
    lo, hi = g.count_events_per_iteration(header, en)
    ctx.check(hi <= 1, QUAL + "#step-empty-once", f"one empty per step (max {hi})", where=f, node=empties[0])
    # nothing empties after the run inside the step (would wipe results before extraction)
    order_ = {id(n_): i_ for i_, n_ in enumerate(walk_ordered(lp))}  # statement order, not line numbers (inlined code keeps its own)
    for c in empties:
        if order_.get(id(c), -1) > order_.get(id(run_call), 10**9):
            ctx.fail(QUAL + "#step-empty-after", "detector.empty is called after the model run inside the step", where=f, node=c)


def _unconditional_once(ctx, f, call: ast.Call) -> bool:
    g = ctx.cfg(f)
    nodes = [n for n in g.nodes if n.ast is not None and n.kind == "stmt" and contains(n.ast, call)]
    lo, hi = g.count_events(g.entry, [g.exit_return], nodes)
    return (lo, hi) == (1, 1)


def r5_what_empty_empties(ctx):
    """Detector.empty(reset): scene replaced by a fresh Scene, photon/charge/signal/image emptied unconditionally, pixel emptied exactly under `reset`; each bucket's empty() really resets its storage; MKID.empty forwards reset to super()."""
    f = ctx.func(f"{DET}.empty")
    c = f"{DET}.empty"
    # decided per path (sa/paths.py; loops over literal bucket tuples are unrolled, getattr(self, "x") is self.x)
    from sa.paths import enumerate_paths

    epaths = [q for q in enumerate_paths(f.node.body) if q.exit in ("fall", "return")]
    rp = f.params[1] if len(f.params) > 1 else "reset"

    def emptied(q, b):
        return [c_ for fn_, c_, _ in q.calls if fn_ in (f"self.{b}.empty", f"self._{b}.empty")]

    for b in ("photon", "charge", "signal", "image"):
        counts = [len(emptied(q, b)) for q in epaths]
        ok = bool(counts) and all(n_ == 1 for n_ in counts)
        ctx.check(ok, c + f"#{b}", f"{b}.empty() exactly once on every path" if ok else f"{b} bucket is not emptied unconditionally (calls per path: {counts})", where=f, node=f.node)
    ok = bool(epaths)
    why = f"pixel.empty() exactly when `{rp}` holds"
    for q in epaths:
        n_ = len(emptied(q, "pixel"))
        r_ = q.holds(rp)
        want = 1 if r_ is True else 0 if r_ is False else None
        if want is None or n_ != want:
            ok = False
            why = f"pixel.empty() is called {n_} time(s) on the path {q.cond_texts()} (expected: once exactly when `{rp}` holds)"
    ctx.check(ok, c + "#pixel", why, where=f, node=f.node)
    # scene
    sc = [st for st, t in stores(f.node, lambda t: dotted(t) in ("self.scene", "self._scene"))]
    sc_calls = [cl for cl in calls_in(f.node) if dotted(cl.func) in ("self.scene.empty", "self._scene.empty")]
    ok = False
    if sc:
        v = sc[0].value
        ok = isinstance(v, ast.Call) and call_name(v).endswith("Scene") and not v.args and not enclosing_tests(sc[0])
    elif sc_calls:
        ok = _unconditional_once(ctx, f, sc_calls[0])
    ctx.check(ok, c + "#scene", "scene replaced by a fresh Scene()" if ok else "scene is not reset unconditionally", where=f, node=(sc or sc_calls or [f.node])[0])
    # bucket-level empties
    specs = {
        "pyxel.data_structure.array:ArrayBase.empty": "none",
        "pyxel.data_structure.photon:Photon.empty": "none",
        "pyxel.data_structure.pixel:Pixel.empty": "zeros",
    }
    for q, kind in specs.items():
        e = ctx.func(q)
        sts = [st for st, t in stores(e.node, lambda t: dotted(t) == "self._array")]
        ok = len(sts) == 1 and not enclosing_tests(sts[0])
        if ok:
            v = sts[0].value
            if kind == "none":
                ok = isinstance(v, ast.Constant) and v.value is None
            else:
                sh = arg_or_kw(v, 0, "shape") if isinstance(v, ast.Call) else None
                ok = isinstance(v, ast.Call) and call_name(v) in ("np.zeros", "numpy.zeros") and sh is not None and dotted(sh) in ("self._shape", "self.shape")
        ctx.check(ok, q, f"self._array reset to {kind}" if ok else f"{q} does not reset self._array to {kind}", where=e, node=sts[0] if sts else e.node)
    # which empty() each bucket class resolves to
    for clsq, want in (
        ("pyxel.data_structure.signal:Signal", "pyxel.data_structure.array:ArrayBase.empty"),
        ("pyxel.data_structure.image:Image", "pyxel.data_structure.array:ArrayBase.empty"),
        ("pyxel.data_structure.pixel:Pixel", "pyxel.data_structure.pixel:Pixel.empty"),
        ("pyxel.data_structure.photon:Photon", "pyxel.data_structure.photon:Photon.empty"),
    ):
        m = ctx.repo.find_member(ctx.cls(clsq), "empty")
        ok = m is not None and m.qual == want
        ctx.check(ok, clsq + ".empty", f"resolves to {want}" if ok else f"{clsq}.empty resolves to {getattr(m, 'qual', None)} (unchecked override)", where=ctx.cls(clsq), node=m.node if m else None)
    ce = ctx.func("pyxel.data_structure.charge:Charge.empty")
    st_arr = [st for st, t in stores(ce.node, lambda t: dotted(t) == "self._array")]
    ok = len(st_arr) == 1 and not enclosing_tests(st_arr[0]) and isinstance(st_arr[0].value, ast.Call) and call_name(st_arr[0].value) in ("np.zeros_like", "np.zeros", "numpy.zeros_like")
    where_node = st_arr[0] if st_arr else ce.node
    if not st_arr:
        # in-place zeroing is an equally valid reset for THIS property (aliasing is C03's concern)
        inplace = [c for c in calls_in(ce.node) if dotted(c.func) == "self._array.fill" and c.args and norm(c.args[0]) in ("0", "0.0")]
        inplace_st = [st for st, t in stores(ce.node, lambda t: isinstance(t, ast.Subscript) and dotted(t.value) == "self._array") if isinstance(st, ast.Assign) and norm(st.value) in ("0", "0.0")]
        cand = inplace + inplace_st
        ok = len(cand) == 1 and not enclosing_tests(cand[0])
        where_node = cand[0] if cand else ce.node
    ctx.check(ok, ce.qual + "#array", "charge array reset to zeros" if ok else "Charge.empty does not zero the charge array unconditionally", where=ce, node=where_node)
    st_fr = [st for st, t in stores(ce.node, lambda t: dotted(t) == "self._frame")]
    ok = len(st_fr) == 1
    if ok:
        ts = enclosing_tests(st_fr[0])
        ok = "EMPTY_FRAME" in norm(st_fr[0].value) and (not ts or only_knows(ts, "not self._frame.empty"))
    ctx.check(ok, ce.qual + "#frame", "cluster table reset whenever it is non-empty" if ok else "Charge.empty does not reset the cluster table", where=ce, node=st_fr[0] if st_fr else ce.node)
    # MKID override
    me = ctx.func("pyxel.detectors.mkid.mkid:MKID.empty")
    sup = [cl for cl in calls_in(me.node) if isinstance(cl.func, ast.Attribute) and cl.func.attr == "empty" and isinstance(cl.func.value, ast.Call) and call_name(cl.func.value) == "super"]
    ok = len(sup) == 1 and _unconditional_once(ctx, me, sup[0]) and arg_or_kw(sup[0], 0, "reset") is not None and dotted(arg_or_kw(sup[0], 0, "reset")) == me.params[1]
    ctx.check(ok, me.qual, "forwards reset to Detector.empty unconditionally" if ok else "MKID.empty does not forward `reset` to Detector.empty", where=me, node=sup[0] if sup else me.node)
    # every Detector subclass overriding empty must forward as well
    for sub in ctx.repo.subclasses(ctx.cls(DET)):
        if "empty" in sub.methods and sub.qual != "pyxel.detectors.mkid.mkid:MKID":
            ctx.fail(sub.qual + ".empty", "unreviewed override of Detector.empty", where=sub, node=sub.methods["empty"].node)


def _sym(s: str) -> str:
    s = s.replace("self.readout_properties.", "").replace("self.", "")
    return s.lstrip("_")


def r6_clock_algebra(ctx):
    """steps = diff of the times with the start time prepended; absolute_time = start_time + time; first <=> count == 0; last <=> count == num_steps - 1 (ReadoutProperties and Detector agree)."""
    cs = ctx.func("pyxel.exposure.readout:calculate_steps")
    rets = [r for r in returns_of(cs) if r.value is not None]
    ok = False
    why = "unrecognised expression"
    if len(rets) == 1:
        v = expand(cs, rets[0].value)
        why = f"calculate_steps returns {norm(v)}"
        if isinstance(v, ast.Call) and call_name(v) in ("np.diff", "numpy.diff") and v.args:
            inner = v.args[0]
            n_kw = kw(v, "n")
            prepend = kw(v, "prepend")
            if isinstance(inner, ast.Call) and call_name(inner) in ("np.concatenate", "numpy.concatenate", "np.hstack", "np.append", "np.insert") and inner.args:
                seq = inner.args[0]
                if call_name(inner) == "np.append":
                    seq = ast.Tuple(elts=list(inner.args[:2]))
                if isinstance(seq, (ast.Tuple, ast.List)) and len(seq.elts) == 2:
                    first, second = seq.elts
                    ok = names_in(first) & {"start_time", "times"} == {"start_time"} and dotted(second) == "times" and n_kw is None and not order_breakers(first)
                    # the prepended element must be start_time itself (possibly wrapped)
                    core = first
                    while isinstance(core, ast.Call) and core.args:
                        core = core.args[0]
                    if isinstance(core, (ast.List, ast.Tuple)) and len(core.elts) == 1:
                        core = core.elts[0]
                    ok = ok and dotted(core) == "start_time"
            elif prepend is not None and dotted(inner) == "times":
                ok = dotted(prepend) == "start_time" and n_kw is None
            if ok:
                why = "np.diff over [start_time] ++ times"
    ctx.check(ok, cs.qual, why, where=cs, node=rets[0] if rets else cs.node)
    ctx.trust("np.diff(concatenate(([s], t)))[i] = t[i] - t[i-1] with t[-1] = s")
    rp = ctx.cls(RP)
    at = rp.getters["absolute_time"]
    rets = [r for r in returns_of(at) if r.value is not None]
    ok = len(rets) == 1 and to_poly(rets[0].value, _sym) == to_poly(ast.parse("start_time + time", mode="eval").body)
    ctx.check(ok, at.qual, "absolute_time = start_time + time" if ok else f"absolute_time returns {norm(rets[0].value) if rets else None}", where=at, node=rets[0] if rets else at.node)
    ns = rp.methods["__init__"]
    sts = [st for st, t in stores(ns.node, lambda t: dotted(t) == "self._num_steps")]
    ok = len(sts) == 1 and norm(sts[0].value) in ("len(self._steps)", "len(self._times)", "len(steps)", "len(times_1d)")
    ctx.check(ok, f"{RP}.__init__#_num_steps", "num_steps = number of readout times" if ok else f"num_steps = {norm(sts[0].value) if sts else None}", where=ns, node=sts[0] if sts else ns.node)

    def flag(fn, want_src):
        rets = [r for r in returns_of(fn) if r.value is not None]
        if len(rets) != 1:
            return False, "no single return"
        v = rets[0].value
        while isinstance(v, ast.Call) and call_name(v) == "bool" and v.args:
            v = v.args[0]
        if dotted(v) in ("self.readout_properties.is_first_readout", "self.readout_properties.is_last_readout"):
            return dotted(v).endswith(fn.name), f"delegates to {dotted(v)}"
        if not (isinstance(v, ast.Compare) and len(v.ops) == 1 and isinstance(v.ops[0], ast.Eq)):
            return False, f"returns {norm(v)}"
        diff = to_poly(v.left, _sym) - to_poly(v.comparators[0], _sym)
        want = to_poly(ast.parse(want_src, mode="eval").body)
        return (diff == want or diff == -want), f"returns {norm(v)}"

    for cq in (RP, DET):
        ci = ctx.cls(cq)
        for name, want in (("is_first_readout", "pipeline_count"), ("is_last_readout", "pipeline_count - (num_steps - 1)")):
            fn = ci.getters.get(name)
            if fn is None:
                raise AnalysisError(f"{cq}.{name} not found")
            ok, why = flag(fn, want)
            ctx.check(ok, fn.qual, why if ok else f"{name}: {why}; expected pipeline_count == {'0' if 'first' in name else 'num_steps - 1'}", where=fn, node=fn.node.body[-1])


def r7_legacy_runner_agrees(ctx):
    """The deprecated exposure runner (pyxel.exposure_mode / observation_mode / legacy calibration) is a sibling of run_pipeline: inside its step loop detector.empty(reset) gets `not non_destructive`, dominates the model run and happens once per step."""
    q = "pyxel.exposure.exposure:_run_exposure_pipeline_deprecated"
    if not ctx.repo.has_func(q):
        ctx.note("deprecated exposure runner removed")
        ctx.ok(q, "no legacy runner", where=ctx.func(RUN), node=ctx.func(RUN).node)
        return
    f = ctx.func(q)
    g = ctx.cfg(f)
    lp, runs = _step_loop(ctx, f)
    if lp is None or not isinstance(lp, ast.For):
        raise AnalysisError("legacy runner: step loop not recognised")
    header = g.node_of(lp)
    run_call = runs[0]
    run_nodes = [n for n in g.nodes if n.ast is not None and n.kind == "stmt" and contains(n.ast, run_call)]
    _step_empty_checks(ctx, f, lp, g, header, run_nodes, run_call, q)


RULES = [r7_legacy_runner_agrees, r1_reject_before_model, r2_keyword_wiring, r3_initial_reset, r4_step_loop, r5_what_empty_empties, r6_clock_algebra]
