"""C03 - the returned result is a faithful, complete record of every step."""

from __future__ import annotations

import ast

from sa.astutil import after_block, precedes  # statement order (never line numbers)

from sa.astutil import (
    arg_or_kw,
    call_name,
    calls_in,
    contains,
    enclosing_loop,
    enclosing_tests,
    expand,
    kw,
    local_defs,
    loops_in,
    names_in,
    returns_of,
    stmt_calls,
    stores,
)
from sa.index import AnalysisError, dotted, enclosing_stmt, norm, walk_ordered

EXPLANATION = (
    "Wiring/ordering analysis of the result path: one _extract_datatree_2d per step after the "
    "model run and merged inside the loop, bucket name = dataset key = detector attribute, time "
    "label = detector.absolute_time, row/column coordinates of every to_xarray, no float cast on "
    "the image path plus the dtype restore, scene/data passed through untouched, both layouts "
    "store the same tree, and the debug block of ModelGroup.run only writes detector.intermediate."
)
NOT_DECIDED = ["equality of stored numbers with detector state (xarray merge semantics)", "which buckets debug records (np.allclose on runtime values)"]
ASSUMPTIONS = ["xarray.merge of datasets with distinct time labels keeps one slice per label"]

RUN = "pyxel.exposure.exposure:run_pipeline"
EXT = "pyxel.exposure.exposure:_extract_datatree_2d"
PROC_RUN = "pyxel.pipelines.processor:Processor.run_pipeline"
BUCKETS = ("photon", "charge", "pixel", "signal", "image")


def _nodes_for(g, call):
    return [n for n in g.nodes if n.ast is not None and n.kind == "stmt" and contains(n.ast, call)]


def r1_per_step_extraction(ctx):
    """_extract_datatree_2d(detector) runs exactly once per step after the model run, and its result is merged into the accumulator inside the loop (first step: taken as is; later steps: merged with what was accumulated)."""
    f = ctx.func(RUN)
    g = ctx.cfg(f)
    runs = stmt_calls(f, ctx.R, {PROC_RUN})
    exts = stmt_calls(f, ctx.R, {EXT})
    if len(runs) != 1:
        raise AnalysisError("run_pipeline: expected one Processor.run_pipeline call (see C02)")
    lp = enclosing_loop(runs[0])
    if lp is None:
        raise AnalysisError("run_pipeline: model run not in a loop")
    if len(exts) != 1:
        ctx.fail(RUN + "#extract", f"{len(exts)} calls of _extract_datatree_2d (expected one, inside the step loop)", where=f, node=exts[1] if len(exts) > 1 else lp)
        return
    ext = exts[0]
    inside = contains(lp, ext)
    ctx.check(inside, RUN + "#extract-in-loop", "extraction happens inside the step loop" if inside else "extraction hoisted out of the step loop: only the last step is recorded", where=f, node=ext)
    if not inside:
        return
    header = g.node_of(lp)
    en = _nodes_for(g, ext)
    rn = _nodes_for(g, runs[0])
    lo, hi = g.count_events_per_iteration(header, en)
    ctx.check((lo, hi) == (1, 1), RUN + "#extract-once", "one extraction per step" if (lo, hi) == (1, 1) else f"extraction happens between {lo} and {hi} times per step", where=f, node=ext, facts={"min": lo, "max": hi})
    after = all(g.all_paths_pass(header, [e], rn) for e in en)
    ctx.check(after, RUN + "#extract-after-run", "the model run dominates the extraction within a step" if after else "a path extracts the buckets before/without the model run", where=f, node=ext)
    a = arg_or_kw(ext, 0, "detector")
    ok = a is not None and dotted(expand(f, a)) == "processor.detector"
    ctx.check(ok, RUN + "#extract-arg", "extracts from processor.detector" if ok else f"extracts from {norm(a)}", where=f, node=ext)
    st = enclosing_stmt(ext)
    if not (isinstance(st, (ast.Assign, ast.AnnAssign)) and isinstance((st.targets[0] if isinstance(st, ast.Assign) else st.target), ast.Name)):
        raise AnalysisError("extraction result is not bound to a name (unknown construct)")
    part = (st.targets[0] if isinstance(st, ast.Assign) else st.target).id
    # accumulator: name stored under "/bucket" or "/" after the loop
    acc_names = set()
    for s, t in stores(f.node, lambda t: isinstance(t, ast.Subscript) and isinstance(t.slice, ast.Constant) and t.slice.value in ("/bucket", "/")):
        if isinstance(s, ast.Assign) and isinstance(s.value, ast.Name):
            acc_names.add(s.value.id)
    if len(acc_names) != 1:
        ctx.fail(RUN + "#layout", f"flat and hierarchical layouts store different objects {sorted(acc_names)}", where=f, node=f.node)
        return
    acc = acc_names.pop()
    merges = [s for s, t in stores(lp, lambda t: isinstance(t, ast.Name) and t.id == acc)]
    if not merges:
        ctx.fail(RUN + "#merge", f"step result is never merged into `{acc}` inside the loop", where=f, node=lp)
        return
    mnodes = [n for s in merges for n in g.nodes_of(s)]
    ok = all(g.all_paths_pass(e, [header], mnodes) for e in en)
    ctx.check(ok, RUN + "#merge-every-step", "every step's extraction reaches the accumulator" if ok else "a path through the step drops the extracted slice", where=f, node=merges[0])
    for s in merges:
        v = expand(f, s.value, _seen={part, acc})
        used = names_in(v)
        tests = enclosing_tests(s, stop=lp)
        first_only = any(pol and norm(t) in (f"{acc}.is_empty", f"not {acc}", f"{acc} is None", f"len({acc}) == 0") for t, pol in tests) or any((not pol) and norm(t) in (f"not {acc}.is_empty", acc) for t, pol in tests)
        if part not in used:
            ctx.fail(RUN + "#merge-value", f"`{acc}` is overwritten without the step result: {norm(s)[:100]}", where=f, node=s)
        elif first_only:
            ok = dotted(v) == part
            ctx.check(ok, RUN + "#merge-first", "first step: accumulator = step result" if ok else f"first step stores {norm(v)[:80]}", where=f, node=s)
        else:
            bodies = [v] + [f.nested[n.id].node for n in ast.walk(v) if isinstance(n, ast.Name) and n.id in f.nested]  # a named local function handed to map_over_datasets
            bodies += [f.module.functions[n.id].node for n in ast.walk(v) if isinstance(n, ast.Name) and n.id not in f.nested and n.id in f.module.functions]  # ... or a module-level one
            has_merge = any(isinstance(c, ast.Call) and any(k in call_name(c) for k in ("merge", "concat", "combine")) for b in bodies for c in ast.walk(b))
            ok = acc in used and has_merge
            ctx.check(ok, RUN + "#merge-later", "later steps: merge(accumulated, step result)" if ok else f"later steps overwrite the accumulated slices: {norm(s)[:100]}", where=f, node=s)
            # the combinator aligns by the slices' OWN labels: no option that overrides the labels / values of later
            # slices by those of the first (join / compat = "override", "left", "right", "inner" drop or relabel data)
            for b in bodies:
                for c in ast.walk(b):
                    if isinstance(c, ast.Call) and any(k in call_name(c) for k in ("merge", "concat", "combine")):
                        badk = [(k.arg, k.value.value) for k in c.keywords if k.arg in ("join", "compat", "combine_attrs", "fill_value") and isinstance(k.value, ast.Constant) and ((k.arg == "join" and k.value.value not in ("outer", "exact")) or (k.arg == "compat" and k.value.value in ("override",)))]
                        ctx.check(not badk, RUN + "#merge-by-own-labels", "slices are combined by their own labels (outer / exact alignment)" if not badk else f"the per-step slices are combined with {badk[0][0]}={badk[0][1]!r}: the labels (time, wavelength, ...) of later slices are replaced by / restricted to those of the first instead of being kept", where=f, node=c)


def _eval_key_test(test: ast.expr, var: str, value: str):
    """Evaluate a skip predicate over a literal key (small safe evaluator)."""
    if isinstance(test, ast.BoolOp):
        vals = [_eval_key_test(v, var, value) for v in test.values]
        return any(vals) if isinstance(test.op, ast.Or) else all(vals)
    if isinstance(test, ast.UnaryOp) and isinstance(test.op, ast.Not):
        return not _eval_key_test(test.operand, var, value)
    if isinstance(test, ast.Call) and isinstance(test.func, ast.Attribute) and dotted(test.func.value) == var and test.func.attr in ("startswith", "endswith") and len(test.args) == 1:
        a = ast.literal_eval(test.args[0])
        return getattr(value, test.func.attr)(a)
    if isinstance(test, ast.Compare) and len(test.ops) == 1 and dotted(test.left) == var:
        rhs = ast.literal_eval(test.comparators[0])
        op = test.ops[0]
        if isinstance(op, ast.Eq):
            return value == rhs
        if isinstance(op, ast.NotEq):
            return value != rhs
        if isinstance(op, ast.In):
            return value in rhs
        if isinstance(op, ast.NotIn):
            return value not in rhs
    raise AnalysisError(f"skip predicate outside the evaluator's grammar: {norm(test)}")


def r2_bucket_wiring(ctx):
    """In _extract_datatree_2d the dataset key, the detector attribute read and the loop variable are the same name; exactly photon/charge/pixel/signal/image are stored, scene/data skipped."""
    f = ctx.func(EXT)
    det = f.params[0]
    sts = [(s, t) for s, t in stores(f.node, lambda t: isinstance(t, ast.Subscript)) if isinstance(s, ast.Assign)]
    ds_stores = []
    for s, t in sts:
        v = expand(f, s.value)
        if "to_xarray" in norm(v):
            ds_stores.append((s, t, v))
    if not ds_stores:
        ctx.fail(EXT + "#per-bucket", "the per-step dataset is not built bucket by bucket from each container's own to_xarray() (e.g. Detector.to_xarray() skips an all-zero charge bucket and uninitialised buckets): a step can lose its slice of a bucket", where=f, node=f.node)
        return
    stored_keys: set[str] = set()
    for s, t, v in ds_stores:
        lp = enclosing_loop(s)
        if isinstance(t.slice, ast.Constant):
            key = t.slice.value
            keys = [key]
            var = None
        elif lp is not None and isinstance(lp, ast.For) and isinstance(lp.target, ast.Name) and dotted(t.slice) == lp.target.id:
            var = lp.target.id
            try:
                keys = list(ast.literal_eval(expand(f, lp.iter)))
            except Exception:
                # a literal table filtered by a constant predicate: folded by sa/minieval.py (nothing is run)
                from sa.minieval import Interp

                try:
                    keys = list(Interp().expr(expand(f, lp.iter, depth=6), {}))
                    assert all(isinstance(k, str) for k in keys)
                except Exception:
                    raise AnalysisError("_extract_datatree_2d: key tuple is not a literal")
        else:
            ctx.fail(EXT + "#wiring", f"dataset key `{norm(t.slice)}` is not the bucket name that is read", where=f, node=s)
            continue
        # which getattr feeds the value
        gets = [c for c in ast.walk(v) if isinstance(c, ast.Call) and call_name(c) == "getattr"]
        attrs = [c for c in ast.walk(v) if isinstance(c, ast.Attribute) and dotted(c.value) == det]
        if var is not None:
            ok = len(gets) == 1 and dotted(gets[0].args[0]) == det and dotted(gets[0].args[1]) == var and not attrs
            ctx.check(ok, EXT + "#wiring", f"dataset[{var}] = getattr({det}, {var}).to_xarray()" if ok else f"dataset[{var}] is filled from {norm(v)[:90]}", where=f, node=s)
            # skips
            for k in keys:
                skipped = False
                for n in walk_ordered(lp):
                    if isinstance(n, ast.Continue) and precedes(lp, n, s):
                        ts = enclosing_tests(n, stop=lp)
                        if all(_eval_key_test(t_, var, k) == pol for t_, pol in ts):
                            skipped = True
                if not skipped:
                    stored_keys.add(k)
        else:
            ok = any(a.attr == key for a in attrs) and all(a.attr == key for a in attrs if a.attr in BUCKETS)
            ctx.check(ok, EXT + f"#wiring:{key}", f"dataset[{key!r}] from detector.{key}" if ok else f"dataset[{key!r}] is filled from {norm(v)[:90]}", where=f, node=s)
            stored_keys.add(key)
        # to_xarray without dtype (R4 uses this too)
    ok = stored_keys == set(BUCKETS)
    ctx.check(ok, EXT + "#keys", "stores exactly photon, charge, pixel, signal, image" if ok else f"stored buckets {sorted(stored_keys)} != {sorted(BUCKETS)}", where=f, node=ds_stores[0][0], facts={"stored": sorted(stored_keys)})


def _coord_check(ctx, fn, region, rows_sym, cols_sym, label):
    """In `region` the DataArray with dims='y' is range(rows), dims='x' is range(cols)."""
    found = {}
    for c in calls_in(region):
        if call_name(c).endswith("DataArray"):
            d = kw(c, "dims")
            if isinstance(d, ast.Constant) and d.value in ("y", "x") and c.args:
                found[d.value] = (c, expand(fn, c.args[0]))
    for axis, syms in (("y", rows_sym), ("x", cols_sym)):
        if axis not in found:
            ctx.fail(f"{fn.qual}#{label}:{axis}", f"no '{axis}' index coordinate is attached", where=fn, node=region)
            continue
        c, a = found[axis]

        def _peel(e):
            """X.shape of a shape-preserving copy of X is X.shape: np.array(X) / np.asarray(X) / X.copy() / X.astype(..)."""
            if isinstance(e, ast.Subscript) and isinstance(e.value, ast.Attribute) and e.value.attr == "shape":
                base = e.value.value
                while True:
                    if isinstance(base, ast.Call) and call_name(base) in ("np.array", "np.asarray", "numpy.array", "numpy.asarray", "np.copy") and base.args:
                        base = base.args[0]
                    elif isinstance(base, ast.Call) and isinstance(base.func, ast.Attribute) and base.func.attr in ("copy", "astype"):
                        base = base.func.value
                    else:
                        break
                return f"{norm(base)}.shape[{norm(e.slice)}]"
            return norm(e)

        ok = isinstance(a, ast.Call) and call_name(a) in ("range", "np.arange") and len(a.args) == 1 and (norm(a.args[0]) in syms or _peel(a.args[0]) in syms)
        # ... on every slice: the index coordinate is attached unconditionally (labels a stored array brought along are
        # replaced), not only "when missing"
        from sa.index import ancestors as _anc5

        region_stmts = {id(x) for x in ast.walk(region)}
        conds = [x for x in _anc5(c) if isinstance(x, (ast.If, ast.IfExp, ast.Try, ast.While)) and id(x) in region_stmts and not (isinstance(x, ast.If) and "isinstance(self._array" in norm(x.test)) and x is not region]
        if ok and conds:
            ctx.fail(f"{fn.qual}#{label}:{axis}", f"the '{axis}' index coordinate is attached only under `{norm(getattr(conds[0], 'test', conds[0]))[:60]}`: a stored array that carries its own '{axis}' labels keeps them, and the other buckets are re-indexed onto those labels", where=fn, node=c)
            continue
        ctx.check(ok, f"{fn.qual}#{label}:{axis}", f"{axis} = range({norm(a.args[0]) if ok else ''})" if ok else f"'{axis}' coordinate is {norm(a)} (expected range over {sorted(syms)[0]})", where=fn, node=c)


def r3_labels(ctx):
    """The time label of a step's slice is detector.absolute_time read in the same call; every container's to_xarray labels rows with range(num_rows) on 'y' and columns with range(num_cols) on 'x'."""
    # the label is the absolute time itself: start_time + time, not a rounded / quantised value (C02.R6)
    from props.C02 import r6_clock_algebra

    r6_clock_algebra(ctx)
    f = ctx.func(EXT)
    det = f.params[0]
    rets = [r for r in returns_of(f) if r.value is not None]
    if len(rets) != 1:
        raise AnalysisError("_extract_datatree_2d: expected one return")
    v = expand(f, rets[0].value)
    ac = [c for c in ast.walk(v) if isinstance(c, ast.Call) and isinstance(c.func, ast.Attribute) and c.func.attr == "assign_coords"]
    ex = [c for c in ast.walk(v) if isinstance(c, ast.Call) and isinstance(c.func, ast.Attribute) and c.func.attr == "expand_dims"]
    ok = False
    why = "no assign_coords(time=...) on the returned dataset"
    if ac:
        t = kw(ac[0], "time")
        if t is None and ac[0].args and isinstance(ac[0].args[0], ast.Dict):
            for k, val in zip(ac[0].args[0].keys, ac[0].args[0].values):
                if isinstance(k, ast.Constant) and k.value == "time":
                    t = val
        why = f"time coordinate is {norm(t)[:80]}"
        core = t
        if isinstance(core, ast.Call) and call_name(core).endswith("DataArray") and core.args:
            dims = kw(core, "dims")
            dims_ok = dims is not None and norm(dims) in ("'time'", "['time']", "('time',)")
            core = core.args[0]
        else:
            dims_ok = True
        if isinstance(core, (ast.List, ast.Tuple)) and len(core.elts) == 1:
            core = core.elts[0]
            ok = dotted(core) in (f"{det}.absolute_time", f"{det}.readout_properties.absolute_time") and dims_ok
    ctx.check(ok, EXT + "#time-label", "time = [detector.absolute_time]" if ok else why + " (expected [detector.absolute_time])", where=f, node=rets[0])
    ok = bool(ex) and "time" in norm(ex[0])
    ctx.check(ok, EXT + "#time-dim", "expand_dims('time')" if ok else "no 'time' dimension added", where=f, node=rets[0])
    # containers
    ab = ctx.func("pyxel.data_structure.array:ArrayBase.to_xarray")
    _coord_check(ctx, ab, ab.node, {"self.shape[0]", "self._shape[0]", "self._num_rows"}, {"self.shape[1]", "self._shape[1]", "self._num_cols"}, "coords")
    ch = ctx.func("pyxel.data_structure.charge:Charge.to_xarray")
    _coord_check(ctx, ch, ch.node, {"self._array.shape[0]", "self.array.shape[0]", "self._geo.row", "self.shape[0]", "data_2d.shape[0]"}, {"self._array.shape[1]", "self.array.shape[1]", "self._geo.col", "self.shape[1]", "data_2d.shape[1]"}, "coords")
    ph = ctx.func("pyxel.data_structure.photon:Photon.to_xarray")
    ifs = [n for n in walk_ordered(ph.node) if isinstance(n, ast.If) and "isinstance(self._array, np.ndarray)" in norm(n.test)]
    if len(ifs) != 1:
        raise AnalysisError("Photon.to_xarray: 2-D/3-D branch not recognised")
    from sa.astutil import branch_blocks

    t_blk, f_blk = branch_blocks(ifs[0])
    b2 = ast.Module(body=t_blk, type_ignores=[])
    b3 = ast.Module(body=f_blk, type_ignores=[])
    _coord_check(ctx, ph, b2, {"self.shape[0]", "self._num_rows"}, {"self.shape[1]", "self._num_cols"}, "coords2d")
    _coord_check(ctx, ph, b3, {"self._num_rows", "self.shape[0]"}, {"self._num_cols", "self.shape[1]"}, "coords3d")
    # final DataArray: dims ['y','x'] with coords y->rows var, x->cols var
    for fn in (ab, ch, ph):
        for c in calls_in(fn.node):
            if call_name(c).endswith("DataArray") and kw(c, "coords") is not None and isinstance(kw(c, "coords"), ast.Dict):
                d = kw(c, "dims")
                dims_ok = d is not None and norm(d) in ("['y', 'x']", "('y', 'x')")
                co = kw(c, "coords")
                m = {k.value: v for k, v in zip(co.keys, co.values) if isinstance(k, ast.Constant)}
                ok = dims_ok
                for axis in ("y", "x"):
                    val = m.get(axis)
                    if val is None:
                        ok = False
                        continue
                    vx = expand(fn, val)
                    dd = kw(vx, "dims") if isinstance(vx, ast.Call) else None
                    if not (isinstance(dd, ast.Constant) and dd.value == axis):
                        ok = False
                ctx.check(ok, f"{fn.qual}#dims", "dims ['y','x'] with y->row index, x->column index" if ok else f"axis/coordinate mix-up in {norm(c)[:100]}", where=fn, node=c)


def _tuple_unpack_expand(fn):
    pass


def r4_image_dtype(ctx):
    """No float cast on the image path (to_xarray() called without dtype, np.array(self.array, dtype=<param default None>)); after a merge the image variable is cast back to detector.image.dtype."""
    f = ctx.func(EXT)
    for c in calls_in(f.node):
        if isinstance(c.func, ast.Attribute) and c.func.attr == "to_xarray":
            ok = not c.args and not c.keywords
            ctx.check(ok, EXT + "#no-dtype", "to_xarray() without a dtype" if ok else f"bucket converted with a forced dtype: {norm(c)}", where=f, node=c)
    # astype/float casts on the dataset path
    for c in calls_in(f.node):
        if isinstance(c.func, ast.Attribute) and c.func.attr == "astype":
            ctx.fail(EXT + "#astype", f"dataset cast inside extraction: {norm(c)[:80]}", where=f, node=c)
    ab = ctx.func("pyxel.data_structure.array:ArrayBase.to_xarray")
    p = "dtype"
    dflt = ab.param_default(p)
    ok = p in ab.params and isinstance(dflt, ast.Constant) and dflt.value is None
    ctx.check(ok, ab.qual + "#default", "dtype parameter defaults to None" if ok else "to_xarray forces a dtype by default", where=ab, node=ab.node.args)
    arr = [c for c in calls_in(ab.node) if call_name(c) in ("np.array", "np.asarray", "numpy.array")]
    ok = len(arr) == 1 and norm(arr[0].args[0]) in ("self.array", "self._array") and (kw(arr[0], "dtype") is None or dotted(kw(arr[0], "dtype")) == p) and len(arr[0].args) == 1
    ctx.check(ok, ab.qual + "#copy", "np.array(self.array, dtype=dtype)" if ok else f"array converted as {norm(arr[0]) if arr else '?'}", where=ab, node=arr[0] if arr else ab.node)
    for c in calls_in(ab.node):
        if isinstance(c.func, ast.Attribute) and c.func.attr == "astype":
            ctx.fail(ab.qual + "#astype", f"cast in to_xarray: {norm(c)[:80]}", where=ab, node=c)
    # Image class keeps ArrayBase.to_xarray
    m = ctx.repo.find_member(ctx.cls("pyxel.data_structure.image:Image"), "to_xarray")
    ok = m is not None and m.qual == ab.qual
    ctx.check(ok, "pyxel.data_structure.image:Image.to_xarray", "Image uses ArrayBase.to_xarray" if ok else f"Image overrides to_xarray ({getattr(m, 'qual', None)})", where=ctx.cls("pyxel.data_structure.image:Image"))
    # restore block
    r = ctx.func(RUN)
    g = ctx.cfg(r)
    runs = stmt_calls(r, ctx.R, {PROC_RUN})
    lp = enclosing_loop(runs[0]) if runs else None
    if lp is None:
        raise AnalysisError("run_pipeline: step loop not found")
    merges = []
    for s, t in stores(lp, lambda t: isinstance(t, ast.Name)):
        if isinstance(s, (ast.Assign, ast.AnnAssign)) and s.value is not None and any(isinstance(c, ast.Call) and any(k in call_name(c) for k in ("merge", "concat")) for c in ast.walk(s.value)):
            merges.append(s)
    if not merges:
        ctx.note("no merge statement in the step loop (C03.R1 reports this)")
        return
    restores = []
    for s, t in stores(lp, lambda t: isinstance(t, ast.Subscript) and isinstance(t.slice, ast.Constant) and t.slice.value == "image"):
        if isinstance(s, ast.Assign) and any(isinstance(c, ast.Call) and isinstance(c.func, ast.Attribute) and c.func.attr == "astype" for c in ast.walk(s.value)):
            restores.append(s)
    if not restores:
        ctx.fail(RUN + "#dtype-restore", "merged image is never cast back to the detector's image dtype (merge promotes integers to float when slices are missing)", where=r, node=merges[0])
        return
    for s in restores:
        c = [c for c in ast.walk(s.value) if isinstance(c, ast.Call) and isinstance(c.func, ast.Attribute) and c.func.attr == "astype"][0]
        a = arg_or_kw(c, 0, "dtype")
        ok = a is not None and dotted(expand(r, a)) == "processor.detector.image.dtype"
        ctx.check(ok, RUN + "#dtype-restore-target", "cast target = detector.image.dtype" if ok else f"image is cast to {norm(expand(r, a)) if a is not None else None}", where=r, node=s)
        ts = enclosing_tests(s, stop=lp)
        # the guarding test must be the dtype inequality (or no guard at all)
        inner = [t for t, pol in ts if "dtype" in norm(expand(r, t))]
        for t in inner:
            tx = expand(r, t)
            okg = isinstance(tx, ast.Compare) and isinstance(tx.ops[0], ast.NotEq) and {norm(tx.left), norm(tx.comparators[0])} >= {"processor.detector.image.dtype"}
            ctx.check(okg, RUN + "#dtype-restore-guard", "restore guarded by dtype inequality" if okg else f"restore guarded by {norm(tx)}", where=r, node=t)
        # the restore (or its guard) must be reached from every merge
        tops = []
        for s2 in restores:
            node = s2
            for t, pol in enclosing_tests(s2, stop=lp):
                pass
            # outermost dtype-guard If enclosing the restore
            from sa.index import ancestors

            top = s2
            for a_ in ancestors(s2):
                if a_ is lp:
                    break
                if isinstance(a_, ast.If) and "dtype" in norm(expand(r, a_.test)):
                    top = a_
            tops.append(top)
        tn = [n for t in tops for n in g.nodes_of(t)]
        header = g.node_of(lp)
        for mg in merges:
            okp = all(g.all_paths_pass(mn, [header], tn) for mn in g.nodes_of(mg))
            ctx.check(okp, RUN + "#dtype-restore-reached", "every merge is followed by the dtype restore" if okp else "a path leaves the step after a merge without restoring the image dtype", where=r, node=mg)


def stmt_calls_in(ctx, f, loop) -> bool:
    """The loop runs the pipeline (contains the Processor.run_pipeline call)."""
    return any(contains(loop, c) for c in stmt_calls(f, ctx.R, {"pyxel.pipelines.processor:Processor.run_pipeline"}))


def r5_pass_through(ctx):
    """dct['/scene'] <- detector.scene.data and dct['/data'] <- detector.data untransformed on every path; flat and hierarchical layouts store the same accumulator; the function returns DataTree.from_dict(dct)."""
    f = ctx.func(RUN)
    g = ctx.cfg(f)
    want = {"/scene": "processor.detector.scene.data", "/data": "processor.detector.data"}
    for key, src in want.items():
        sts = [s for s, t in stores(f.node, lambda t, key=key: isinstance(t, ast.Subscript) and isinstance(t.slice, ast.Constant) and t.slice.value == key)]
        if len(sts) != 1:
            ctx.fail(RUN + f"#{key}", f"{len(sts)} stores of result node {key!r} (expected one)", where=f, node=sts[0] if sts else f.node)
            continue
        s = sts[0]
        v = dotted(expand(f, s.value))
        ok = v == src
        ctx.check(ok, RUN + f"#{key}", f"{key} <- {src}" if ok else f"result node {key!r} is {norm(expand(f, s.value))[:80]} instead of {src}", where=f, node=s)
        # ... and it is READ after the last step: models (load_detector) may rebind the container,
        # so an alias taken before the step loop is the stale object
        steps = [l for l in loops_in(f.node) if isinstance(l, ast.For) and stmt_calls_in(ctx, f, l)]
        if steps and isinstance(s.value, ast.Name):
            late = True
            for st_, val_ in local_defs(f, s.value.id):
                if val_ is not None and (contains(steps[0], st_) or precedes(f, st_, steps[0])) and "detector" in norm(val_):
                    late = False
            ctx.check(late, RUN + f"#{key}-fresh", "read from the detector after the last step" if late else f"result node {key!r} is an alias (`{s.value.id}`) taken before / inside the step loop: a container replaced by a model (e.g. load_detector) is missing from the result", where=f, node=s)
        nodes = g.nodes_of(s)
        lo, hi = g.count_events(g.entry, [g.exit_return], nodes)
        ctx.check(lo >= 1, RUN + f"#{key}-always", "stored on every path" if lo >= 1 else f"result node {key!r} is missing on some path", where=f, node=s)
    lay = [(s, t) for s, t in stores(f.node, lambda t: isinstance(t, ast.Subscript) and isinstance(t.slice, ast.Constant) and t.slice.value in ("/bucket", "/"))]
    vals = {norm(s.value) for s, _ in lay}
    keys = {t.slice.value for _, t in lay}
    ok = keys == {"/bucket", "/"} and len(vals) == 1
    ctx.check(ok, RUN + "#layouts", "both layouts store the same tree" if ok else f"layouts {sorted(keys)} store {sorted(vals)}", where=f, node=lay[0][0] if lay else f.node)
    rets = [r for r in returns_of(f) if r.value is not None]
    ok = len(rets) == 1
    if ok:
        v = expand(f, rets[0].value)
        ok = isinstance(v, ast.Call) and call_name(v).endswith("DataTree.from_dict") and v.args and dotted(v.args[0]) == dotted(lay[0][1].value) if lay else False
    ctx.check(ok, RUN + "#return", "returns DataTree.from_dict(dct)" if ok else "the returned object is not built from the result dictionary", where=f, node=rets[0] if rets else f.node)
    # nothing deletes/overwrites dct entries afterwards
    for n in walk_ordered(f.node):
        if isinstance(n, ast.Delete):
            ctx.fail(RUN + "#delete", f"result entries deleted: {norm(n)}", where=f, node=n)
        if isinstance(n, ast.Call) and isinstance(n.func, ast.Attribute) and n.func.attr in ("pop", "clear") and lay and dotted(n.func.value) == dotted(lay[0][1].value):
            ctx.fail(RUN + "#delete", f"result entries removed: {norm(n)}", where=f, node=n)


ALLOWED_DET = {"absolute_time", "pipeline_count", "to_xarray", "intermediate", "_intermediate", "time", "current_running_model_name"}


def r6_debug_observation_only(ctx):
    """The `if debug:` block of ModelGroup.run touches the detector only through absolute_time, pipeline_count, to_xarray and (_)intermediate, stores nothing on self, never leaves the loop; the to_xarray methods store nothing on self."""
    f = ctx.func("pyxel.pipelines.model_group:ModelGroup.run")
    det = f.params[1]
    dbg = f.params[2]
    blocks = [n for n in walk_ordered(f.node) if isinstance(n, ast.If) and dbg in names_in(n.test)]
    if not blocks:
        ctx.note("ModelGroup.run has no debug block")
        ctx.ok(f.qual + "#debug", "no debug block", where=f, node=f.node)
        return
    n_ok = 0
    for b in blocks:
        for n in walk_ordered(b):
            if n is b.test:
                continue
            d = dotted(n) if isinstance(n, ast.Attribute) else None
            if d and d.startswith(det + "."):
                par = getattr(n, "_parent", None)
                if isinstance(par, ast.Attribute) and dotted(par) and dotted(par).startswith(d + "."):
                    continue  # inner part of a longer chain, judged at the outermost node
                second = d.split(".")[1]
                ok = second in ALLOWED_DET
                if ok:
                    n_ok += 1
                else:
                    ctx.fail(f.qual + "#debug-touch", f"debug block touches detector.{second} ({d})", where=f, node=enclosing_stmt(n))
            if isinstance(n, (ast.Assign, ast.AugAssign, ast.AnnAssign)):
                tg = n.targets if isinstance(n, ast.Assign) else [n.target]
                for t in tg:
                    base = t
                    while isinstance(base, (ast.Attribute, ast.Subscript)):
                        base = base.value
                    if isinstance(t, (ast.Attribute, ast.Subscript)) and isinstance(base, ast.Name):
                        if base.id == "self":
                            ctx.fail(f.qual + "#debug-store", f"debug block stores on self: {norm(t)}", where=f, node=n)
                        elif base.id == det:
                            dd = dotted(t) or norm(t)
                            if not (dd.startswith(f"{det}.intermediate") or dd.startswith(f"{det}._intermediate")):
                                ctx.fail(f.qual + "#debug-store", f"debug block writes {norm(t)[:60]}", where=f, node=n)
                        elif base.id not in {x for x in _locals_defined_in(b)}:
                            ctx.fail(f.qual + "#debug-store", f"debug block writes into non-local object {norm(t)[:60]}", where=f, node=n)
            if isinstance(n, (ast.Break, ast.Return, ast.Raise)) or (isinstance(n, ast.Continue) and enclosing_loop(n) is enclosing_loop(b)):
                ctx.fail(f.qual + "#debug-exit", f"debug block leaves the model loop ({type(n).__name__.lower()})", where=f, node=n)
            if isinstance(n, ast.Call) and isinstance(n.func, ast.Attribute) and n.func.attr in ("empty", "update", "set_readout", "run", "run_pipeline") and dotted(n.func.value) and dotted(n.func.value).split(".")[0] in (det, "self"):
                ctx.fail(f.qual + "#debug-call", f"debug block calls {norm(n.func)}", where=f, node=n)
    ctx.ok(f.qual + "#debug", f"{n_ok} detector accesses in the debug block, all read-only/intermediate", where=f, node=blocks[0], facts={"accesses": n_ok})
    # "after each model, the buckets that THIS model changed": the reference snapshot every bucket is
    # compared with is refreshed once per model (inside the model loop), from the state after that model
    snaps = []
    for st_, t in stores(f.node, lambda t: isinstance(t, ast.Subscript) and (dotted(t.value) or "").startswith(det + ".") and "intermediate" in (dotted(t.value) or "")):
        key = expand(f, t.slice)
        if isinstance(key, ast.Constant) and key.value == "last":
            snaps.append(st_)
    model_loops = [l for l in loops_in(f.node) if isinstance(l, ast.For) and enclosing_loop(l) is None]
    if snaps and model_loops:
        ml = model_loops[0]
        inside = [s_ for s_ in snaps if contains(ml, s_)]
        outside = [s_ for s_ in snaps if not contains(ml, s_)]
        g6 = ctx.cfg(f)
        ok = len(inside) >= 1 and not outside
        if ok:
            dbg_paths_ok = True
            # every iteration with debug on passes through a refresh
            for b in blocks:
                if contains(ml, b):
                    lo, hi = g6.count_events_per_iteration(g6.node_of(ml), [n_ for s_ in inside for n_ in g6.nodes_of(s_)])
                    dbg_paths_ok = hi == 1
            ok = dbg_paths_ok and all(contains(b, s_) for s_ in inside for b in blocks[:1])
        ctx.check(ok, f.qual + "#snapshot-per-model", "the comparison snapshot is refreshed once per model" if ok else "the snapshot the buckets are compared with is not refreshed after every model (a later model of the group is credited with the changes of an earlier one)", where=f, node=(outside or inside or [f.node])[0])
    elif blocks:
        ctx.fail(f.qual + "#snapshot-per-model", "no per-model reference snapshot found in the debug capture", where=f, node=blocks[0])
    # "the buckets that THIS model changed": the reference is the snapshot taken after the previous model - also across
    # readouts (in non-destructive mode the pixels survive the step boundary); an all-zero reference is used only when no
    # snapshot exists at all
    for b in blocks:
        for st_ in walk_ordered(b):
            v_ = getattr(st_, "value", None) if isinstance(st_, (ast.Assign, ast.AnnAssign)) else None
            if isinstance(v_, ast.Call) and call_name(v_).split(".")[-1] in ("zeros_like", "zeros", "full_like"):
                ts = [(norm(expand(f, t)), pol) for t, pol in enclosing_tests(st_, stop=b)]
                okz = len(ts) == 1 and ts[0][1] and ts[0][0].replace(" ", "") in (f"'last'notin{det}.intermediate", f"'last'notin{det}._intermediate")
                ctx.check(okz, f.qual + "#zero-reference", "an all-zero reference only when no snapshot exists yet" if okz else f"the all-zero comparison reference is used under {ts}: buckets that survive a step boundary (pixels of a non-destructive readout) are recorded as changed by a model that never touched them", where=f, node=st_)
    for q in ("pyxel.detectors.detector:Detector.to_xarray", "pyxel.data_structure.array:ArrayBase.to_xarray", "pyxel.data_structure.photon:Photon.to_xarray", "pyxel.data_structure.charge:Charge.to_xarray"):
        fn = ctx.func(q)
        bad = []
        for s, t in stores(fn.node, lambda t: isinstance(t, (ast.Attribute, ast.Subscript))):
            base = t
            while isinstance(base, (ast.Attribute, ast.Subscript)):
                base = base.value
            if isinstance(base, ast.Name) and base.id == "self":
                bad.append(s)
        for c in calls_in(fn.node):
            if isinstance(c.func, ast.Attribute) and c.func.attr in ("empty", "update") and (dotted(c.func.value) or "").startswith("self"):
                bad.append(c)
        ctx.check(not bad, q + "#readonly", "stores nothing on self" if not bad else f"to_xarray mutates its object: {norm(bad[0])[:80]}", where=fn, node=bad[0] if bad else fn.node)


    # the properties those snapshots read must be observations too: a getter that memoises (stores
    # anything but the reviewed recomputation) makes the result depend on WHEN the snapshot was taken
    from sa.paths import enumerate_paths

    REVIEWED_GETTER_STORES = {("pyxel.data_structure.charge:Charge", "array"): {"self._array"}}
    n_get = 0
    for cq in ("pyxel.data_structure.array:ArrayBase", "pyxel.data_structure.photon:Photon", "pyxel.data_structure.charge:Charge"):
        ci = ctx.cls(cq)
        tx = ci.methods.get("to_xarray")
        if tx is None:
            continue
        read = {n.attr for n in ast.walk(tx.node) if isinstance(n, ast.Attribute) and isinstance(n.value, ast.Name) and n.value.id == "self"}
        for name in sorted(read):
            gt = ci.getters.get(name)
            if gt is None:
                continue
            n_get += 1
            allowed = REVIEWED_GETTER_STORES.get((cq, name), set())
            bad = []
            for s_, t in stores(gt.node, lambda t: isinstance(t, (ast.Attribute, ast.Subscript))):
                base = t
                while isinstance(base, (ast.Attribute, ast.Subscript)):
                    base = base.value
                if isinstance(base, ast.Name) and base.id == "self" and (dotted(t) or norm(t)) not in allowed:
                    bad.append(s_)
            ctx.check(not bad, f"{gt.qual}#observation", "the getter read by the snapshot keeps no memo" if not bad else f"the getter read by the debug snapshot stores {norm(bad[0])[:70]}: what later reads return depends on whether a snapshot was taken", where=gt, node=bad[0] if bad else gt.node)
            if allowed and not bad:
                # the reviewed recomputation happens whenever there are clusters - not only the first time
                for q_ in enumerate_paths(gt.node.body):
                    if q_.exit not in ("fall", "return"):
                        continue
                    st_ = q_.stores("self._array")
                    extra = [(t_, p_) for t_, p_ in q_.cond_texts() if t_ != "self._frame.empty"]
                    if not st_ and extra:
                        ctx.fail(f"{gt.qual}#always-recomputed", f"the cluster table is not converted again when {extra} (stale pixels after an in-place change of the table)", where=gt, node=q_.exit_node or gt.node)
                        break
                else:
                    ctx.ok(f"{gt.qual}#always-recomputed", "the conversion runs whenever the cluster table is not empty", where=gt, node=gt.node)
    ctx.floor(n_get, 3)


def _locals_defined_in(block: ast.AST) -> set[str]:
    out = set()
    for n in walk_ordered(block):
        if isinstance(n, (ast.Assign, ast.AnnAssign)):
            tg = n.targets if isinstance(n, ast.Assign) else [n.target]
            for t in tg:
                if isinstance(t, ast.Name):
                    out.add(t.id)
        elif isinstance(n, ast.For):
            for t in ast.walk(n.target):
                if isinstance(t, ast.Name):
                    out.add(t.id)
    return out


def _is_copying(e: ast.expr) -> bool:
    """Expression that allocates a new array: np.array(x) / x.astype(...) / x.copy() / np.copy(x)."""
    if isinstance(e, ast.Call):
        n = call_name(e)
        if n in ("np.array", "numpy.array", "np.copy", "numpy.copy"):
            c = kw(e, "copy")
            return c is None or (isinstance(c, ast.Constant) and c.value is True)
        if isinstance(e.func, ast.Attribute) and e.func.attr in ("astype", "copy"):
            c = kw(e, "copy")
            return c is None or (isinstance(c, ast.Constant) and c.value is True)
    return False


def r7_slices_do_not_alias(ctx):
    """A stored slice must not share memory with storage the next step mutates: each container's to_xarray either copies the array (np.array / astype / copy) or the container's empty() rebinds _array to a freshly allocated array (never zeroes it in place)."""
    specs = [
        ("pyxel.data_structure.array:ArrayBase", "pyxel.data_structure.array:ArrayBase.to_xarray", None),
        ("pyxel.data_structure.charge:Charge", "pyxel.data_structure.charge:Charge.to_xarray", None),
        ("pyxel.data_structure.photon:Photon", "pyxel.data_structure.photon:Photon.to_xarray", None),
    ]
    for clsq, fq, _ in specs:
        f = ctx.func(fq)
        ci = ctx.cls(clsq)
        das = [c for c in calls_in(f.node) if call_name(c).endswith("DataArray") and c.args and kw(c, "dims") is not None and norm(kw(c, "dims")) in ("['y', 'x']", "('y', 'x')")]
        datas = [expand(f, c.args[0]) for c in das]
        # 3-D photon branch: data_3d = self._array.astype(...)
        for st, val in local_defs(f, "data_3d"):
            if val is not None:
                datas.append(val)
        if not datas:
            ctx.fail(fq + "#alias", "data expression of the returned DataArray not found", where=f, node=f.node)
            continue
        copies = all(_is_copying(d) for d in datas)
        empty = ctx.repo.find_member(ci, "empty")
        rebinding = False
        inplace = []
        if empty is not None:
            sts = [st for st, t in stores(empty.node, lambda t: dotted(t) == "self._array")]
            rebinding = bool(sts) and all(not enclosing_tests(st) for st in sts)
            inplace = [c for c in calls_in(empty.node) if dotted(c.func) in ("self._array.fill",)] + [st for st, t in stores(empty.node, lambda t: isinstance(t, ast.Subscript) and dotted(t.value) == "self._array")] + [st for st in walk_ordered(empty.node) if isinstance(st, ast.AugAssign) and dotted(st.target) in ("self._array", "self.array")]
        # within ONE step the debug capture takes a record after every model: a container whose array is changed
        # in place by any of its methods (`self._array += ..`, `self._array[..] = ..`) must hand out a copy, or the
        # record taken after one model changes when the next model of the step writes
        mutators = []
        for mname, mfn in ci.methods.items():
            if mname in ("empty", "__init__"):
                continue
            for st_ in walk_ordered(mfn.node):
                if (isinstance(st_, ast.AugAssign) and dotted(st_.target) == "self._array") or (isinstance(st_, (ast.Assign, ast.AugAssign)) and any(isinstance(t_, ast.Subscript) and dotted(t_.value) == "self._array" for t_ in (st_.targets if isinstance(st_, ast.Assign) else [st_.target]))):
                    mutators.append((mname, st_))
        if mutators and not copies:
            ctx.fail(fq + "#alias-within-step", f"to_xarray hands out the container's own array while `{mutators[0][0]}` changes it in place (`{norm(mutators[0][1])[:50]}`): the debug record taken after one model shows what later models of the same step added", where=f, node=das[0] if das else f.node)
        else:
            ctx.ok(fq + "#alias-within-step", "records do not share memory with an array that is updated in place" if mutators else "the array is never updated in place", where=f, node=das[0] if das else f.node)
        ok = copies or (rebinding and not inplace)
        if copies:
            why = "to_xarray copies the array"
        elif ok:
            why = "to_xarray shares the array, but empty() rebinds _array to a fresh allocation before the next step writes"
        else:
            why = "to_xarray hands out the container's own array and empty() re-uses that array in place: the slice recorded for a step is overwritten by the next step"
        ctx.check(ok, fq + "#alias", why, where=f, node=(inplace[0] if inplace and not ok else das[0] if das else f.node), facts={"copies": copies, "empty_rebinds": rebinding, "empty_in_place": len(inplace)})


RULES = [r7_slices_do_not_alias, r1_per_step_extraction, r2_bucket_wiring, r3_labels, r4_image_dtype, r5_pass_through, r6_debug_observation_only]
