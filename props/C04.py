"""C04 - seeded runs are reproducible and seeding never leaks."""

from __future__ import annotations

import ast

from sa.astutil import (
    arg_or_kw,
    call_name,
    calls_in,
    contains,
    enclosing_tests,
    expand,
    kw,
    names_in,
    returns_of,
    stmt_calls,
    stores,
)
from sa.effects import Effects, is_njit
from sa.index import AnalysisError, ClassInfo, FuncInfo, ancestors, dotted, enclosing_stmt, norm, walk_local, walk_ordered

EXPLANATION = (
    "Typestate/effect analysis of the process-wide random generator: the save-seed-yield-restore "
    "shape of set_random_seed on normal and exceptional exits, who-may-touch the global generator "
    "state, provenance of the pipeline seed from each running mode down to exposure.run_pipeline "
    "(through keyword, constructor and apply_ufunc hops), every seeded model drawing only inside "
    "`with set_random_seed(seed)`, and draws that no numpy seed controls (numba-compiled code)."
)
NOT_DECIDED = ["bit-identity of results", "determinism inside pygmo/dask", "stochastic third-party code that does not use numpy's legacy generator"]
# R5 decides what draws random numbers inside numba-compiled functions: compiled helpers are not spliced into callers
COMPILED_HELPERS_OPAQUE = True
ASSUMPTIONS = [
    "interpreter-level np.random.<dist> draws use the legacy global state set by np.random.seed; draws inside @numba.njit code do not",
]

SRS = "pyxel.util.randomize:set_random_seed"
RUN = "pyxel.exposure.exposure:run_pipeline"
PROC_RUN = "pyxel.pipelines.processor:Processor.run_pipeline"
MODE_CLASSES = {
    "pyxel.exposure.exposure:Exposure",
    "pyxel.observation.observation:Observation",
    "pyxel.calibration.calibration:Calibration",
}
DEPRECATED_MODULES = {"pyxel.observation.deprecated", "pyxel.calibration.fitting", "pyxel.calibration.archipelago"}


def _ext(ctx, f, call):
    return ctx.repo.external_name(f.module, call.func) or ""


def r1_context_manager(ctx):
    """set_random_seed: on the seeded path get_state precedes seed(seed); one yield; set_state(saved) is reached on every exit (normal or exceptional) after seeding; the unseeded path touches nothing."""
    f = ctx.func(SRS)
    c = SRS
    ok = any(d.split(".")[-1] == "contextmanager" for d in f.decorators)
    ctx.check(ok, c + "#decorator", "is a contextmanager" if ok else "set_random_seed is no longer a context manager", where=f, node=f.node)
    p = f.params[0]
    from sa.cfg import CFG

    rebound = any(isinstance(n_, ast.Name) and n_.id == p and isinstance(n_.ctx, (ast.Store, ast.Del)) for n_ in ast.walk(f.node))
    # decided separately for "a seed is given" and "no seed": every test of exactly that (pure) predicate takes
    # the matching branch - the parameter is never re-bound, so tests of it written in several places agree
    seeded_assume = {} if rebound else {f"{p} is not None": True, f"{p} is None": False, f"not {p} is None": True}
    g = CFG(f.node, all_raise=True, assume=seeded_assume)
    g_un = CFG(f.node, all_raise=True, assume={k: not v for k, v in seeded_assume.items()}) if seeded_assume else g
    calls = [(cl, _ext(ctx, f, cl)) for cl in calls_in(f.node)]
    gets = [cl for cl, e in calls if e == "numpy.random.get_state"]
    seeds = [cl for cl, e in calls if e == "numpy.random.seed"]
    sets = [cl for cl, e in calls if e == "numpy.random.set_state"]
    yields = [n for n in walk_ordered(f.node) if isinstance(n, ast.Yield)]
    if not (gets and seeds and sets):
        ctx.fail(c + "#shape", f"get_state/seed/set_state calls found: {len(gets)}/{len(seeds)}/{len(sets)}; the save-seed-restore protocol is incomplete", where=f, node=f.node)
        return

    def nodes(call):
        return [n for n in g.nodes if n.ast is not None and n.kind in ("stmt", "with") and contains(n.ast, call) and not isinstance(n.ast, (ast.If, ast.Try, ast.For, ast.While))]

    gn = [n for cl in gets for n in nodes(cl)]
    sn = [n for cl in seeds for n in nodes(cl)]
    rn = [n for cl in sets for n in nodes(cl)]
    yn = [n for y in yields for n in nodes(y)]
    # saved state variable
    gst = enclosing_stmt(gets[0])
    saved = None
    if isinstance(gst, (ast.Assign, ast.AnnAssign)):
        t = gst.targets[0] if isinstance(gst, ast.Assign) else gst.target
        saved = t.id if isinstance(t, ast.Name) else None
    ok = saved is not None
    ctx.check(ok, c + "#save", f"state saved in `{saved}`" if ok else "the previous generator state is not kept", where=f, node=gst)
    for cl in seeds:
        for n in nodes(cl):
            ok = g.must_precede(gn, n, "nx")
            ctx.check(ok, c + "#save-before-seed", "get_state dominates seed()" if ok else "seed() can run before the previous state was saved", where=f, node=cl)
        a = arg_or_kw(cl, 0, "seed")
        ok = a is not None and dotted(a) == p
        ctx.check(ok, c + "#seed-arg", f"seed({p})" if ok else f"generator seeded with {norm(a)} instead of the requested seed", where=f, node=cl)
        ts = enclosing_tests(cl)
        okg = any(pol and norm(t) == f"{p} is not None" for t, pol in ts) or any((not pol) and norm(t) == f"{p} is None" for t, pol in ts)
        ctx.check(okg, c + "#seed-guard", "seeding only when a seed is given" if okg else f"seeding happens under {[(norm(t), pol) for t, pol in ts]}", where=f, node=cl)
    for cl in sets:
        a = arg_or_kw(cl, 0, "state")
        ok = a is not None and dotted(a) == saved
        ctx.check(ok, c + "#restore-arg", f"set_state({saved})" if ok else f"restores {norm(a)} instead of the saved state", where=f, node=cl)
    exits = [g.exit_return, g.exit_raise]
    for n in sn:
        ok = g.must_follow(n, rn, "nx", exits)
        ctx.check(ok, c + "#restore-after-seed", "every exit after seed() passes set_state (normal and exceptional)" if ok else "an exit after seed() skips set_state: the seed leaks into the process-wide generator", where=f, node=n.ast)
    seeded_yields = [n for n in yn if any(g.all_paths_pass(g.entry, [n], [s], "nx") for s in sn)]
    for n in seeded_yields:
        ok = g.must_follow(n, rn, "nx", exits)
        ctx.check(ok, c + "#restore-after-yield", "the body's normal and exceptional exits both restore the state" if ok else "an exception in the with-body skips the restore (set_state not in finally)", where=f, node=n.ast)
    if not seeded_yields:
        ctx.fail(c + "#yield", "no yield after seeding", where=f, node=f.node)
    lo, hi = g.count_events(g.entry, [g.exit_return], yn)
    ctx.check((lo, hi) == (1, 1), c + "#one-yield", "exactly one yield on every normal path" if (lo, hi) == (1, 1) else f"between {lo} and {hi} yields on a normal path", where=f, node=yields[0] if yields else f.node)
    # unseeded run: no RNG call is reachable at all, and it yields exactly once
    def nodes_un(call):
        return [n for n in g_un.nodes if n.ast is not None and n.kind in ("stmt", "with") and contains(n.ast, call) and not isinstance(n.ast, (ast.If, ast.Try, ast.For, ast.While))]

    if g_un is not g:
        live = g_un.live_nodes("nx")
        touched = [m for cl in gets + seeds + sets for m in nodes_un(cl) if m in live]
        ctx.check(not touched, c + "#unseeded", "without a seed the generator is left alone" if not touched else "the generator is touched although no seed was given", where=f, node=touched[0].ast if touched else f.node)
        yu = [n for y in yields for n in nodes_un(y)]
        lo_u, hi_u = g_un.count_events(g_un.entry, [g_un.exit_return], yu)
        ctx.check((lo_u, hi_u) == (1, 1), c + "#one-yield-unseeded", "exactly one yield without a seed" if (lo_u, hi_u) == (1, 1) else f"between {lo_u} and {hi_u} yields when no seed is given", where=f, node=yields[0] if yields else f.node)
    else:
        for n in yn:
            if n in seeded_yields:
                continue
            touched = [m for m in gn + rn + sn if g.all_paths_pass(g.entry, [n], [m], "nx")]
            ctx.check(not touched, c + "#unseeded", "unseeded path leaves the generator alone" if not touched else "the generator is touched although no seed was given", where=f, node=n.ast)


ALLOWED_STATE = {SRS: "the one owner of the process-wide generator state"}


def r2_who_may_touch(ctx):
    """np.random.seed / set_state / get_state / RandomState(...) / random.seed occur only inside pyxel.util.randomize:set_random_seed."""
    eff = Effects(ctx.repo, ctx.R)
    n = 0
    for f in ctx.repo.all_functions():
        for call, ext, kind in eff.direct(f)["state"]:
            n += 1
            top = f
            while top.outer is not None:
                top = top.outer
            ok = top.qual in ALLOWED_STATE
            ctx.check(ok, f"{f.qual}#{ext}", ALLOWED_STATE.get(top.qual, "") if ok else f"{ext}(...) outside set_random_seed changes the process-wide generator state and never restores it", where=f, node=call)
    # module-level statements
    for m in ctx.repo.modules.values():
        for st in m.tree.body:
            if isinstance(st, (ast.FunctionDef, ast.AsyncFunctionDef, ast.ClassDef)):
                continue
            for cl in [x for x in ast.walk(st) if isinstance(x, ast.Call)]:
                ext = ctx.repo.external_name(m, cl.func) or ""
                if ext in ("numpy.random.seed", "numpy.random.set_state", "random.seed"):
                    ctx.fail(f"{m.name}#module-level:{ext}", f"{ext}(...) at import time", where=m, node=cl)


def _class_stores_param(ctx, ci: ClassInfo, attr_public: str) -> tuple[bool, str]:
    """`self._x = x` in __init__ from the like-named ctor parameter and getter returns it."""
    init = ctx.repo.find_member(ci, "__init__")
    if init is None or attr_public not in init.params:
        return False, f"{ci.name}.__init__ has no parameter {attr_public}"
    sts = [st for st, t in stores(init.node, lambda t: dotted(t) in (f"self._{attr_public}", f"self.{attr_public}"))]
    if len(sts) != 1 or dotted(sts[0].value) != attr_public:
        return False, f"{ci.name}.__init__ does not store parameter {attr_public} unchanged"
    g = ctx.repo.find_member(ci, attr_public)
    if g is not None and g.kind == "getter":
        rets = [r for r in returns_of(g) if r.value is not None]
        if not (len(rets) == 1 and dotted(rets[0].value) == f"self._{attr_public}"):
            return False, f"{ci.name}.{attr_public} getter does not return the stored seed"
    return True, f"{ci.name} stores its {attr_public} parameter"


def _seed_ok(ctx, f: FuncInfo, expr: ast.expr | None, pname: str, depth: int, trail: list[str]) -> tuple[bool, str]:
    if expr is None:
        return False, f"`{pname}` is not passed (callee default None is used: the mode's seed is dropped)"
    x = expand(f, expr)
    d = dotted(x)
    if depth > 8:
        return False, "provenance chain too long"
    if d in (f"self.{pname}", f"self._{pname}") and f.cls is not None:
        ok, why = _class_stores_param(ctx, f.cls, pname)
        if not ok:
            return False, why
        if f.cls.qual in MODE_CLASSES:
            return True, f"{f.cls.name}.{pname} (mode setting)"
        init = ctx.repo.find_member(f.cls, "__init__")
        return _param_callers_ok(ctx, init, pname, depth + 1, trail + [f.cls.qual])
    if isinstance(x, ast.Name) and x.id in f.params:
        return _param_callers_ok(ctx, f, x.id, depth + 1, trail)
    return False, f"seed argument is `{norm(x)}`, not the mode's {pname}"


def _param_callers_ok(ctx, f: FuncInfo, pname: str, depth: int, trail: list[str]) -> tuple[bool, str]:
    sites = ctx.R.sites_calling(f.qual)
    sites = [s for s in sites if s.caller.module.name not in DEPRECATED_MODULES or ctx.tier == "thorough"]
    if not sites:
        return False, f"{f.qual} has no resolved caller supplying {pname}"
    for s in sites:
        a = s.arg_for(f, pname)
        ok, why = _seed_ok(ctx, s.caller, a, pname, depth, trail + [f.qual])
        if not ok:
            return False, f"{s.caller.qual}:{s.line} -> {f.name}: {why}"
    return True, f"all {len(sites)} caller(s) of {f.name} supply {pname}"


def r3_mode_seed_reaches_pipeline(ctx):
    """Every call site of exposure.run_pipeline passes pipeline_seed= derived (through parameters, constructor fields and apply_ufunc kwargs) from the running mode's own pipeline_seed; run_pipeline wraps the model runs in `with set_random_seed(seed=pipeline_seed)`; calibration seeds pygmo globally before building the archipelago and derives island seeds from a local generator."""
    f = ctx.func(RUN)
    sites = ctx.R.sites_calling(RUN)
    n = 0
    for s in sites:
        if s.caller.module.name in DEPRECATED_MODULES:
            continue
        n += 1
        a = s.arg_for(f, "pipeline_seed")
        ok, why = _seed_ok(ctx, s.caller, a, "pipeline_seed", 0, [])
        ctx.check(ok, f"{s.caller.qual}->run_pipeline", why, where=s.caller, node=s.node)
    ctx.floor(n, 5)
    # with set_random_seed(seed=pipeline_seed) encloses the model runs
    runs = stmt_calls(f, ctx.R, {PROC_RUN})
    withs = [w for w in walk_ordered(f.node) if isinstance(w, ast.With)]
    seeded = []
    for w in withs:
        for it in w.items:
            ce = it.context_expr
            if isinstance(ce, ast.Call) and any(getattr(c, "qual", None) == SRS for c in ctx.R.resolve_call(f, ce)):
                a = arg_or_kw(ce, 0, "seed")
                okarg = a is not None and dotted(expand(f, a)) == "pipeline_seed"
                ctx.check(okarg, RUN + "#with-arg", "set_random_seed(seed=pipeline_seed)" if okarg else f"set_random_seed receives {norm(a)}", where=f, node=ce)
                seeded.append(w)
    for rc in runs:
        ok = any(contains(w, rc) for w in seeded)
        ctx.check(ok, RUN + "#with-encloses", "model runs happen inside `with set_random_seed(pipeline_seed)`" if ok else "Processor.run_pipeline is called outside the seeding context", where=f, node=rc)
    if not runs:
        ctx.fail(RUN + "#with-encloses", "no model run found", where=f, node=f.node)
    # calibration: global pygmo seed first
    rc = ctx.func("pyxel.calibration.calibration:Calibration.run_calibration")
    g = ctx.cfg(rc)
    gs = [cl for cl in calls_in(rc.node) if call_name(cl).endswith("set_global_rng_seed")]
    arch = [cl for cl in calls_in(rc.node) if call_name(cl).endswith("ArchipelagoDataTree")]
    ok = bool(gs) and bool(arch)
    if ok:
        a = arg_or_kw(gs[0], 0, "seed")
        ok = a is not None and dotted(expand(rc, a)) in ("self.pygmo_seed", "self._pygmo_seed")
        gn = [n for n in g.nodes if n.ast is not None and n.kind == "stmt" and contains(n.ast, gs[0])]
        an = [n for n in g.nodes if n.ast is not None and n.kind == "stmt" and contains(n.ast, arch[0])]
        ok = ok and all(g.must_precede(gn, x) for x in an)
        pk = kw(arch[0], "pygmo_seed")
        ok = ok and pk is not None and dotted(expand(rc, pk)) in ("self.pygmo_seed", "self._pygmo_seed")
    ctx.check(ok, rc.qual + "#pygmo-seed", "pygmo seeded globally with self.pygmo_seed before the archipelago is built, and handed to it" if ok else "the optimiser seed is not installed before / not handed to the archipelago", where=rc, node=gs[0] if gs else rc.node)
    b = ctx.func("pyxel.calibration.archipelago_datatree:ArchipelagoDataTree._build")
    sts = [st for st, t in stores(b.node, lambda t: isinstance(t, ast.Name) and t.id == "seeds")]
    derived = False
    from sa.astutil import flow_exprs

    for st in sts:
        if getattr(st, "value", None) is None:
            continue
        # whatever shape the drawing code has (comprehension, loop + append, helper): the values
        # flowing into `seeds` must include a generator built from the optimiser seed
        for v in flow_exprs(b, st.value)[1]:
            if "default_rng" in norm(v) and ("self.pygmo_seed" in norm(v) or "self.pygmo_seed" in norm(expand(b, v, depth=4))):
                derived = True
    ctx.check(derived, b.qual + "#island-seeds", "island seeds drawn from default_rng(self.pygmo_seed) (local generator)" if derived else "island seeds do not derive from the optimiser seed", where=b, node=sts[-1] if sts else b.node)
    isl = [cl for fn in [b] + list(b.nested.values()) for cl in calls_in(fn.node) if call_name(cl).endswith("pg.island") or call_name(cl) == "island"]
    ok = bool(isl) and all(kw(cl, "seed") is not None and dotted(kw(cl, "seed")) == "seed" for cl in isl)
    if not isl:
        # the creator is a method handed to map(): every map over the seeds names a function that builds
        # pg.island(..., seed=<its parameter>)
        from props.C07 import _creates_island_from_seed

        maps = [cl for cl in calls_in(b.node) if call_name(cl).split(".")[-1] == "map" and len(cl.args) == 2]
        ok = bool(maps) and all(_creates_island_from_seed(ctx, b, cl.args[0]) for cl in maps)
        isl = maps
    ctx.check(ok, b.qual + "#island-seed-arg", "each island receives its seed" if ok else "islands are created without their seed", where=b, node=isl[0] if isl else b.node)


def _with_seed_blocks(ctx, f: FuncInfo, seed_param: str):
    good, bad = [], []
    for w in walk_ordered(f.node):
        if not isinstance(w, ast.With):
            continue
        for it in w.items:
            ce = it.context_expr
            if isinstance(ce, ast.Call) and (any(getattr(c, "qual", None) == SRS for c in ctx.R.resolve_call(f, ce)) or call_name(ce).endswith("set_random_seed")):
                a = arg_or_kw(ce, 0, "seed")
                if a is not None and dotted(a) == seed_param:
                    good.append(w)
                else:
                    bad.append((w, a))
    return good, bad


def _returns_lazy_drawer(ctx, g: FuncInfo, drawers, _depth: int = 0) -> bool:
    """``g`` hands back an iterator that has not drawn yet: it is a generator function, or it returns a
    generator expression / map / filter over, or the result of, such a function (two levels)."""
    own = [n for n in walk_local(g.node) if isinstance(n, (ast.Yield, ast.YieldFrom))]
    if own and not any(d.split(".")[-1] == "contextmanager" for d in g.decorators):
        return True
    if _depth >= 2:
        return False
    for r in returns_of(g):
        v = expand(g, r.value) if r.value is not None else None
        if isinstance(v, ast.GeneratorExp):
            return True
        if isinstance(v, ast.Call):
            if call_name(v).split(".")[-1] in ("map", "filter", "starmap", "imap", "chain"):
                return True
            for cal in ctx.R.resolve_call(g, v):
                if isinstance(cal, FuncInfo) and cal.qual in drawers and _returns_lazy_drawer(ctx, cal, drawers, _depth + 1):
                    return True
    return False


def r4_seeded_models(ctx):
    """Every model function with a `seed` parameter makes all calls from which an interpreter-level np.random draw is reachable inside `with set_random_seed(seed)` (argument = that parameter); nothing draws before or after the block."""
    eff = Effects(ctx.repo, ctx.R)
    drawers = eff.functions_reaching("draw_interp", stop=[SRS])
    n = 0
    for f in sorted(ctx.repo.all_functions(), key=lambda x: x.qual):
        if not f.module.name.startswith("pyxel.models") or "seed" not in f.params or f.outer is not None or f.cls is not None:
            continue
        if f.name.startswith("_"):
            continue
        n += 1
        good, bad = _with_seed_blocks(ctx, f, "seed")
        for w, a in bad:
            ctx.fail(f.qual + "#with-arg", f"set_random_seed is given {norm(a)} instead of the model's seed parameter", where=f, node=w.items[0].context_expr)
        # the seed parameter must not be rebound
        for st, val in [(s, v) for s, v in [(s, getattr(s, "value", None)) for s, t in stores(f.node, lambda t: isinstance(t, ast.Name) and t.id == "seed")]]:
            ctx.fail(f.qual + "#seed-rebound", f"seed parameter is overwritten: {norm(st)[:80]}", where=f, node=st)
        # draw sites
        sites = []
        for call, ext, kind in eff.direct(f)["draw_interp"]:
            sites.append((call, ext))
        for cs in ctx.R.call_sites(f):
            for cal in cs.callees:
                q = getattr(cal, "qual", None)
                if isinstance(cal, ClassInfo):
                    init = ctx.repo.find_member(cal, "__init__")
                    q = init.qual if init else None
                if q and q in drawers and q != SRS:
                    sites.append((cs.node, q))
        # a call inside the block that only BUILDS a lazy producer (generator function, generator expression,
        # map / filter object) draws when it is consumed: it must be consumed inside the block as well
        from sa.index import parent as _par

        for cs in ctx.R.call_sites(f):
            if not isinstance(cs.node, ast.Call) or not any(contains(w, cs.node) for w in good):
                continue
            for cal in cs.callees:
                if isinstance(cal, FuncInfo) and cal.qual in drawers and _returns_lazy_drawer(ctx, cal, drawers):
                    par_ = _par(cs.node)
                    consumed = (isinstance(par_, ast.Call) and call_name(par_).split(".")[-1] in ("list", "tuple", "sorted", "array", "asarray", "fromiter", "sum", "concatenate", "stack", "vstack", "hstack", "set", "dict", "max", "min") and cs.node in par_.args) or (isinstance(par_, (ast.For, ast.comprehension)) and par_.iter is cs.node and any(contains(w, par_) for w in good)) or (isinstance(par_, ast.Starred))
                    ctx.check(consumed, f.qual + f"#lazy:{cal.name}", f"the iterator returned by {cal.name} is consumed inside the seeding block" if consumed else f"`{norm(cs.node)[:60]}` only builds a lazy iterator inside `with set_random_seed(seed)`: its random draws happen when it is consumed, after the block has restored the generator (the model's seed does not govern them and the caller's generator is advanced)", where=f, node=cs.node)
        # nested helper functions defined in the model and drawing
        outside = [(nd, what) for nd, what in sites if not any(contains(w, nd) for w in good)]
        if not sites:
            ctx.ok(f.qual, "no interpreter-level draw reachable (seed only forwarded)", where=f, node=f.node, facts={"draw_sites": 0})
            # a seeded model without any draw site under our resolver: require at least the with-block
            okw = bool(good)
            ctx.check(okw, f.qual + "#with", "uses `with set_random_seed(seed)`" if okw else "model has a seed parameter but never installs it", where=f, node=f.node)
            continue
        ctx.check(
            not outside,
            f.qual,
            f"all {len(sites)} draw-reaching call(s) are inside `with set_random_seed(seed)`" if not outside else f"draw outside the seeding block: {norm(outside[0][0])[:70]} (reaches {outside[0][1]})",
            where=f,
            node=outside[0][0] if outside else (good[0] if good else f.node),
            facts={"draw_sites": len(sites)},
        )
    ctx.floor(n, 17)


def r5_uncontrolled_draws(ctx):
    """No draw that numpy seeding cannot control is reachable from a model: np.random draws inside @numba.njit code use numba's own generator (trusted fact), so neither the pipeline seed nor a model seed makes them reproducible."""
    eff = Effects(ctx.repo, ctx.R)
    ctx.trust("draws inside @numba.njit code use numba's per-thread generator, not numpy's legacy global state")
    n = 0
    reach_models = None
    for f in sorted(ctx.repo.all_functions(), key=lambda x: x.qual):
        d = eff.direct(f)["draw_njit"]
        if not d:
            continue
        n += 1
        # reachable from a model function / the spine?
        callers = set()
        stack = [f.qual]
        seen = set()
        while stack:
            q = stack.pop()
            if q in seen:
                continue
            seen.add(q)
            for c in ctx.R.callers(q):
                callers.add(c)
                stack.append(c)
        models = sorted(q for q in callers if q.startswith("pyxel.models") and ":" in q and "." not in q.split(":")[1] and not q.split(":")[1].startswith("_"))
        # a compensating construction: the function re-seeds numba's generator from an argument
        reseeds = any(isinstance(c, ast.Call) and (ctx.repo.external_name(f.module, c.func) or "") == "numpy.random.seed" for c in walk_local(f.node))
        ok = reseeds or not models
        ctx.check(
            ok,
            f.qual,
            "njit draw re-seeded inside compiled code" if reseeds else ("njit draw not reachable from any model" if ok else f"np.random draw inside @njit code reachable from model(s) {models[:3]}: not governed by np.random.seed, so seeded runs differ"),
            where=f,
            node=d[0][0],
            facts={"models": models[:6]},
        )
    ctx.note(f"{n} numba-compiled function(s) draw random numbers")
    # generators constructed without (or not from) a seed
    for f in sorted(ctx.repo.all_functions(), key=lambda x: x.qual):
        for c in walk_local(f.node):
            if not isinstance(c, ast.Call):
                continue
            ext = ctx.repo.external_name(f.module, c.func) or ""
            if ext not in ("numpy.random.default_rng", "numpy.random.Generator", "numpy.random.RandomState", "numpy.random.SeedSequence", "random.Random"):
                continue
            a = arg_or_kw(c, 0, "seed")
            top = f
            while top.outer is not None:
                top = top.outer
            if a is None or (isinstance(a, ast.Constant) and a.value is None):
                ok = top.qual in UNSEEDED_GENERATORS
                ctx.check(ok, f"{f.qual}#{ext.split('.')[-1]}", UNSEEDED_GENERATORS.get(top.qual, "") if ok else f"{ext}() without a seed creates an OS-entropy generator: its draws are governed by neither the pipeline seed nor a model seed", where=f, node=c)
            else:
                ok = any("seed" in n.lower() for n in names_in(a)) or any(isinstance(x, ast.Attribute) and "seed" in x.attr.lower() for x in ast.walk(a))
                ctx.check(ok, f"{f.qual}#{ext.split('.')[-1]}", f"generator seeded from {norm(a)}" if ok else f"{ext}({norm(a)}) is not derived from a seed setting", where=f, node=c)


UNSEEDED_GENERATORS = {
    "pyxel.calibration.calibration:Calibration.__init__": "draws the optimiser seed itself when the user gave none (no seed requested => nothing to reproduce)",
}

def r7_no_uninitialised_buffers(ctx):
    """No model, container or detector code allocates with np.empty / np.empty_like / np.ndarray(shape): whatever is not overwritten afterwards holds recycled memory, so the same seeded run differs from call to call."""
    n = 0
    for f in ctx.repo.all_functions():
        if not f.module.name.startswith(("pyxel.models", "pyxel.data_structure", "pyxel.detectors", "pyxel.exposure", "pyxel.observation", "pyxel.calibration", "pyxel.util", "pyxel.inputs")):
            continue
        n += 1
        for c in calls_in(f.node):
            ext = ctx.repo.external_name(f.module, c.func) or call_name(c)
            if ext in ("numpy.empty", "numpy.empty_like", "numpy.ndarray", "np.empty", "np.empty_like", "np.ndarray"):
                ctx.fail(f.qual + "#" + ext.split(".")[-1], f"`{norm(c)[:60]}` allocates an uninitialised buffer: elements that are not overwritten hold recycled memory (results are not reproducible)", where=f, node=c)
    ctx.check(True, "pyxel#no-empty", f"{n} functions inspected, no np.empty / np.empty_like / np.ndarray(shape)")


def r8_seed_zero_is_a_seed(ctx):
    """A seed is tested with `is None`, never by truthiness: `seed or default`, `if seed:` and `if not seed:` replace the valid seed 0 by "no seed" (a random one), so a run seeded with 0 is not reproducible."""
    n = 0

    def is_seed(e):
        d = dotted(e) or ""
        return "seed" in d.split(".")[-1].lower()

    for f in ctx.repo.all_functions():
        for node in walk_local(f.node):
            bad = None
            if isinstance(node, ast.BoolOp) and isinstance(node.op, ast.Or) and is_seed(node.values[0]):
                bad = node
            elif isinstance(node, (ast.If, ast.IfExp, ast.While)):
                t = node.test
                while isinstance(t, ast.UnaryOp) and isinstance(t.op, ast.Not):
                    t = t.operand
                if is_seed(t):
                    bad = node.test
                elif isinstance(t, ast.BoolOp) and any(is_seed(v.operand if isinstance(v, ast.UnaryOp) and isinstance(v.op, ast.Not) else v) for v in t.values):
                    bad = t
            if bad is not None:
                n += 1
                ctx.fail(f.qual + "#seed-truthiness", f"`{norm(bad)[:70]}` tests a seed by truthiness: the valid seed 0 is treated as 'no seed'", where=f, node=bad)
    ctx.check(True, "pyxel#seed-tests", "no seed is tested by truthiness")


FIXTURES = {
    "r2_who_may_touch": {"dir": "c04_r2", "expect_construct": "numpy.random.seed"},
    "r7_no_uninitialised_buffers": {"dir": "c04_r7", "expect_construct": "empty"},
    "r8_seed_zero_is_a_seed": {"dir": "c04_r8", "expect_construct": "seed-truthiness"},
}

def r6_island_seed_pairing(ctx):
    """Repeating a seeded calibration gives the same result only if island k always receives seed k: islands are created and appended in the order of the derived seeds (shared with C07.R5)."""
    from props.C07 import r5_island_order

    r5_island_order(ctx)


RULES = [r7_no_uninitialised_buffers, r8_seed_zero_is_a_seed, r6_island_seed_pairing, r1_context_manager, r2_who_may_touch, r3_mode_seed_reaches_pipeline, r4_seeded_models, r5_uncontrolled_draws]
