"""C20 - input files are read and placed on the detector faithfully."""

from __future__ import annotations

import ast

from sa.astutil import arg_or_kw, call_name, calls_in, contains, enclosing_loop, enclosing_tests, expand, flow_closure, kw, local_defs, loops_in, names_in, raising_ifs, returns_of, stmt_calls, stores
from sa.cfg import ends_in_raise
from sa.index import AnalysisError, FuncInfo, dotted, enclosing_stmt, norm, walk_local, walk_ordered
from sa.poly import Poly, to_poly

EXPLANATION = (
    "Effect and affine-offset analysis of the input path: no function from which a file read is "
    "reachable is memoised unless its cache key carries a file-version token (stat mtime/size) computed "
    "for the same resolved path that is read; the delimiter sets of all text loaders are the five "
    "documented separators and every loader dispatches the documented suffixes and rejects the rest; "
    "_set_relative_position has one arm per Alignment member, each with the right axis symbols; in "
    "fit_into_array the source slice is the destination slice shifted by exactly relative_position per "
    "axis (polynomial identity), the destination is zeros(output_shape), the overlap is the exact "
    "intersection of the two index ranges and the no-overlap cases raise before any slicing."
)
NOT_DECIDED = ["value fidelity of numpy / astropy / pandas readers", "the opt-in fsspec cache (global_options.cache_enabled)"]
ASSUMPTIONS = ["functools.lru_cache / cache memoise on the argument tuple only", "np.intersect1d returns the sorted common elements"]

IMG = "pyxel.util.image"
LD = "pyxel.inputs.loader"
READ_EXT = {"fsspec.open", "open", "numpy.load", "numpy.loadtxt", "numpy.genfromtxt", "astropy.io.fits.getdata", "astropy.io.fits.open", "astropy.io.fits.getheader", "pandas.read_csv", "pandas.read_table", "pandas.read_excel", "astropy.table.Table.read", "PIL.Image.open", "xarray.open_dataset", "xarray.load_dataarray"}
DELIMS = {"\t", " ", ",", "|", ";"}


def _reads_files(ctx, f: FuncInfo, seen=None) -> bool:
    reach = ctx.R.reachable_from([f.qual])
    for q in reach:
        g = ctx.repo.funcs[q]
        for c in walk_local(g.node):
            if isinstance(c, ast.Call):
                ext = ctx.repo.external_name(g.module, c.func) or ""
                if ext in READ_EXT or ext.endswith(".read_csv") or ext.endswith("fits.getdata"):
                    return True
    return False


def _is_memoised(f: FuncInfo, ctx=None) -> bool:
    for dn in f.node.decorator_list:
        head = dn.func if isinstance(dn, ast.Call) else dn
        txt = norm(head)
        if txt.split(".")[-1] in ("lru_cache", "cache", "memoize", "cached", "cached_property"):
            return True
        if ctx is not None:
            ext = ctx.repo.external_name(f.module, head) or ""
            if ext in ("functools.lru_cache", "functools.cache", "cachetools.cached", "joblib.Memory.cache") or ext.endswith(".lru_cache"):
                return True
    return False


def r1_no_stale_cache(ctx):
    """Every memoised function from which a file read is reachable takes a file-version token: each caller passes, for that parameter, a value computed from os.stat (mtime and size) of the same file name - resolved the same way as the loader resolves it - that it passes as the file to read."""
    n = 0
    for f in sorted(ctx.repo.all_functions(), key=lambda x: x.qual):
        if not _is_memoised(f, ctx):
            continue
        if not _reads_files(ctx, f):
            continue
        n += 1
        c = f.qual + "#memoised"
        fname_params = [p for p in f.params if "file" in p and "sign" not in p and "version" not in p] or [p for p in f.params if "path" in p]
        sites = ctx.R.sites_calling(f.qual)
        if not sites:
            ctx.fail(c, "memoised file loader with no resolvable caller", where=f, node=f.node)
            continue
        for s in sites:
            tokens = []
            for p in f.params:
                a = s.arg_for(f, p)
                if a is None:
                    continue
                ax = expand(s.caller, a)
                # token = call of a repo function whose body stats the file
                for cl in [x for x in ast.walk(ax) if isinstance(x, ast.Call)]:
                    for cal in ctx.R.resolve_call(s.caller, cl):
                        if isinstance(cal, FuncInfo) and _stats_file(ctx, cal):
                            tokens.append((p, cl, cal))
                if any(isinstance(x, ast.Attribute) and x.attr in ("st_mtime_ns", "st_mtime") for x in ast.walk(ax)):
                    tokens.append((p, ax, None))
                elif isinstance(ax, ast.Name):
                    # a local with several definitions (token / None when the file cannot be stat'ed, e.g. after
                    # the token helper was inlined): every non-None definition must carry the modification time
                    dv = [expand(s.caller, v_) for _, v_ in local_defs(s.caller, ax.id) if v_ is not None and not (isinstance(v_, ast.Constant) and v_.value is None)]
                    if dv and all(any(isinstance(x, ast.Attribute) and x.attr in ("st_mtime_ns", "st_mtime") for x in ast.walk(v_)) for v_ in dv):
                        tokens.append((p, dv[0], None))
            ok = bool(tokens)
            why = "the cache key carries a file-version token"
            if ok:
                for p, cl, cal in tokens:
                    if cal is not None:
                        # same file name goes to the token function and to the loader
                        fa = [s.arg_for(f, fp) for fp in fname_params]
                        targ = cl.args[0] if cl.args else (cl.keywords[0].value if cl.keywords else None)
                        same = targ is not None and any(x is not None and norm(x) == norm(targ) for x in fa)
                        ok = ok and same
                        why = why if same else f"the version token is computed for `{norm(targ)}` but the file read is `{[norm(x) for x in fa if x is not None]}`"
                        okr, whyr = _token_resolves_like_loader(ctx, cal)
                        ok = ok and okr
                        if not okr:
                            why = whyr
            else:
                why = f"`{f.name}` is memoised on its arguments only: a file rewritten between two runs is not re-read (stale content)"
            ctx.check(ok, c + f"<-{s.caller.qual.split(':')[1]}", why, where=s.caller if ok else f, node=s.node if ok else f.node)
    ctx.floor(n, 1)
    ctx.trust("functools.lru_cache memoises on the argument tuple only")


def _stats_file(ctx, f: FuncInfo) -> bool:
    txt = norm(f.node)
    return ".stat()" in txt and ("st_mtime" in txt) and ("st_size" in txt or "st_mtime_ns" in txt)


def _token_resolves_like_loader(ctx, tok: FuncInfo):
    """The token function must stat the path resolved with resolve_with_working_directory (as load_image does)."""
    p = tok.params[0]
    stat_calls = [c for c in calls_in(tok.node) if isinstance(c.func, ast.Attribute) and c.func.attr == "stat"]
    if not stat_calls:
        return False, "version token does not stat the file"
    recv = expand(tok, stat_calls[0].func.value)
    txt = norm(recv)
    ok = "resolve_with_working_directory(" in txt and p in names_in(recv)
    if not ok:
        return False, f"the version token stats `{txt[:70]}`, which is not the path the loader opens (loaders resolve relative names against the working directory): for such paths the token never changes and stale content is returned"
    rets = [r for r in returns_of(tok) if r.value is not None and not (isinstance(r.value, ast.Constant) and r.value.value is None)]
    okr = bool(rets) and all("st_mtime" in norm(expand(tok, r.value)) for r in rets)
    return okr, "token contains the modification time" if okr else "version token does not contain the modification time"


def r2_tables_agree(ctx):
    """The separator sets of load_image, load_image_v2 and load_table are exactly {tab, space, comma, bar, semicolon}; each loader dispatches .npy, .fits and the text suffixes and raises for anything else."""
    for q in (f"{LD}:load_image", f"{LD}:load_image_v2"):
        f = ctx.func(q)
        def _seps(l):
            it = expand(f, l.iter)
            if isinstance(it, (ast.Tuple, ast.List)) and it.elts and all(isinstance(e, ast.Constant) and isinstance(e.value, str) and len(e.value) == 1 for e in it.elts):
                return {e.value for e in it.elts}
            return None

        lps = [l for l in loops_in(f.node) if isinstance(l, ast.For) and _seps(l) is not None]
        ok = len(lps) == 1 and _seps(lps[0]) == DELIMS
        ctx.check(ok, q + "#delimiters", "tries tab, space, comma, bar, semicolon" if ok else f"separator set is {sorted(x for l in lps for x in _seps(l))!r}", where=f, node=lps[0].iter if lps else f.node)
        if lps:
            lp = lps[0]
            lt = [c for c in calls_in(lp) if call_name(c) in ("np.loadtxt", "numpy.loadtxt")]
            okd = len(lt) == 1 and dotted(kw(lt[0], "delimiter")) == lp.target.id
            ctx.check(okd, q + "#delimiter-used", "each candidate separator is the one passed to loadtxt" if okd else "the candidate separator is not used for parsing", where=f, node=lt[0] if lt else lp)
    f = ctx.func(f"{LD}:load_table")
    vd = [v for s_, v in local_defs(f, "valid_delimiters") if v is not None]
    ok = len(vd) == 1 and isinstance(vd[0], (ast.Tuple, ast.List)) and {e.value for e in vd[0].elts if isinstance(e, ast.Constant)} == DELIMS
    ctx.check(ok, f.qual + "#delimiters", "sniffs among tab, space, comma, bar, semicolon" if ok else "load_table's separator set changed", where=f, node=vd[0] if vd else f.node)
    sn = [c for c in calls_in(f.node) if isinstance(c.func, ast.Attribute) and c.func.attr == "sniff"]
    ok = len(sn) == 1 and norm(expand(f, kw(sn[0], "delimiters"))) in ("''.join(('\\t', ' ', ',', '|', ';'))", "''.join(valid_delimiters)")
    ctx.check(ok, f.qual + "#sniff", "the sniffer is restricted to the valid separators" if ok else "the sniffer is not restricted to the valid separators", where=f, node=sn[0] if sn else f.node)
    def _is_text_parser(c):
        fn_ = expand(f, c.func)
        alts = [fn_.body, fn_.orelse] if isinstance(fn_, ast.IfExp) else [fn_]
        return all(dotted(a_) in ("pd.read_csv", "pd.read_table", "pandas.read_csv", "pandas.read_table") for a_ in alts), len(alts)

    rd = [c for c in calls_in(f.node) if _is_text_parser(c)[0]]
    ok = sum(_is_text_parser(c)[1] for c in rd) == 2 and all(dotted(kw(c, "delimiter")) == "delimiter" for c in rd)
    if ok:
        # ... unchanged: the variable handed to the parser is only ever the sniffed separator or None
        ddefs = [(st_, v_) for st_, v_ in local_defs(f, "delimiter") if v_ is not None]
        changed = [st_ for st_, v_ in ddefs if not ((isinstance(v_, ast.Constant) and v_.value is None) or norm(expand(f, v_)).endswith(".delimiter"))]
        ok = not changed
        if changed:
            ctx.fail(f.qual + "#delimiter-used", f"the detected separator is replaced before parsing (`{norm(changed[0])[:60]}`): fields are split differently from how the file delimits them (e.g. runs of spaces collapse, so an empty field shifts the rest of its row)", where=f, node=changed[0])
    ctx.check(ok, f.qual + "#delimiter-used", "the detected separator is the one used for parsing" if ok else "the detected separator is not used for parsing", where=f, node=rd[0] if rd else f.node)
    want = {
        f"{LD}:load_image": [".fits", ".npy", (".txt", ".data")],
        f"{LD}:load_table": [".npy", ".xlsx", (".txt", ".data", ".csv"), ".fits"],
        f"{LD}:load_image_v2": [".fits", ".npy", (".txt", ".data")],
    }
    for q, sufs in want.items():
        f = ctx.func(q)
        tests = [norm(i.test) for i in walk_ordered(f.node) if isinstance(i, ast.If) and "suffix.startswith" in norm(i.test)]
        for sfx in sufs:
            t = f"suffix.startswith({sfx!r})"
            ok = t in tests
            ctx.check(ok, q + f"#suffix:{sfx if isinstance(sfx, str) else '/'.join(sfx)}", f"dispatches {sfx}" if ok else f"no branch for {sfx} (found {tests})", where=f, node=f.node)
        # final else raises
        chain = [i for i in walk_ordered(f.node) if isinstance(i, ast.If) and "suffix.startswith" in norm(i.test)]
        if chain and not q.endswith("_v2"):
            last = chain[-1]
            ok = bool(last.orelse) and ends_in_raise(last.orelse)
            if not ok and not last.orelse:
                # `if A: return ..` / `if B: return ..` / raise: every arm leaves, what follows the last arm raises
                from sa.index import parent as _par

                blk = getattr(_par(last), "body", [])
                if last in blk:
                    rest = blk[blk.index(last) + 1 :]
                    from sa.canon import always_exits

                    ok = bool(rest) and ends_in_raise(rest) and all(always_exits(i.body) for i in chain)
            ctx.check(ok, q + "#else", "unsupported suffixes raise" if ok else "an unsupported suffix does not raise", where=f, node=last)


def r3_alignment_exhaustive(ctx):
    """_set_relative_position has one arm per member of Alignment and falls through to raise; each arm's (y, x) offset uses only that axis' sizes: left/bottom -> 0, right -> output_x - array_x, top -> output_y - array_y, center -> half of the differences."""
    en = ctx.cls(f"{IMG}:Alignment")
    members = [k for k in en.consts]
    f = ctx.func(f"{IMG}:_set_relative_position")
    # Decided over the finite domain of keywords: for every member of Alignment (and one value that
    # is not a member) the path conditions of _set_relative_position are evaluated (sa/minieval.py)
    # and the unique feasible path's result is compared, as a polynomial, with the documented offset.
    from sa.minieval import Interp, Opaque, Undecided
    from sa.paths import enumerate_paths

    ap = f.params[-1] if f.params[-1] == "alignment" else next((p_ for p_ in f.params if "align" in p_), f.params[-1])
    paths = enumerate_paths(f.node.body)
    dy = to_poly(ast.parse("output_y - array_y", mode="eval").body)
    dx = to_poly(ast.parse("output_x - array_x", mode="eval").body)
    half = Poly.const(1) * Poly({(): __import__("fractions").Fraction(1, 2)})
    want = {"center": (dy * half, dx * half), "top_left": (dy, Poly()), "top_right": (dy, dx), "bottom_left": (Poly(), Poly()), "bottom_right": (Poly(), dx)}
    ok = set(members) == set(want)
    ctx.check(ok, f.qual + "#arms", f"alignment keywords {sorted(members)}" if ok else f"Alignment members {sorted(members)} differ from the documented keywords {sorted(want)}", where=en, node=en.node)

    def feasible(member_text):
        out = []
        for q in paths:
            good = True
            for t, pol in q.conds:
                if ap not in names_in(t):
                    continue
                try:
                    v = bool(Interp().expr(t, {ap: Opaque(member_text)}))
                except Undecided as exc:
                    raise AnalysisError(f"_set_relative_position: condition `{norm(t)}` cannot be evaluated for {member_text} ({exc})")
                if v != pol:
                    good = False
                    break
            if good:
                out.append(q)
        return out

    for name in sorted(set(members) | set(want)):
        if name not in members:
            continue
        fs = feasible(f"Alignment.{name}")
        if len(fs) != 1 or fs[0].exit != "return" or not isinstance(fs[0].value, ast.Tuple) or len(fs[0].value.elts) != 2:
            ctx.fail(f.qual + f"#{name}", f"keyword {name}: " + ("raises" if fs and fs[0].exit == "raise" else f"{len(fs)} feasible paths / result {norm(fs[0].value) if fs and fs[0].value is not None else None}"), where=f, node=(fs[0].exit_node if fs else None) or f.node)
            continue
        v = fs[0].value
        got = tuple(to_poly(e, transparent={"int", "round", "math.floor"}) for e in v.elts)
        ok = name in want and got[0] == want[name][0] and got[1] == want[name][1]
        ctx.check(ok, f.qual + f"#{name}", f"{name}: offset ({norm(v.elts[0])}, {norm(v.elts[1])})" if ok else f"{name}: offset ({norm(v.elts[0])}, {norm(v.elts[1])}) is not the documented placement", where=f, node=fs[0].exit_node or f.node)
    fs = feasible("Alignment.__not_a_member__")
    ok = bool(fs) and all(q.exit == "raise" for q in fs)
    ctx.check(ok, f.qual + "#else", "unknown keyword raises" if ok else "unknown alignment does not raise", where=f, node=f.node)


def _is_loaded_from(ctx, f, e, fname: str, _depth: int = 0) -> bool:
    """``e`` is load_image(<fname>), directly or through a wrapper of the package every return of
    which is load_image(<its own parameter>) (error decoration around the read does not matter)."""
    if e is None or _depth > 2:
        return False
    v = expand(f, e)
    if not isinstance(v, ast.Call) or len(v.args) + len(v.keywords) != 1:
        return False
    a = v.args[0] if v.args else v.keywords[0].value
    if dotted(a) != fname:
        return False
    if call_name(v).split(".")[-1] == "load_image":
        return True
    for cal in ctx.R.resolve_call(f, v):
        if isinstance(cal, FuncInfo) and cal.params:
            rets = [r for r in returns_of(cal) if r.value is not None]
            if rets and all(_is_loaded_from(ctx, cal, r.value, cal.params[0], _depth + 1) for r in rets):
                return True
    return False


def r4_pure_shift(ctx):
    """fit_into_array: output = zeros(output_shape); per axis the overlap is the intersection of range(rp, rp + array_size) with range(output_size); the three no-overlap cases raise before slicing; the source slice equals the destination slice minus relative_position[axis] for both bounds (axis 0 <-> component 0, axis 1 <-> component 1); destination bounds are overlap[0] and overlap[-1] + 1."""
    f = ctx.func(f"{IMG}:fit_into_array")
    g = ctx.cfg(f)
    out = [v for s_, v in local_defs(f, "output") if v is not None]
    ok = len(out) == 1 and norm(out[0]) in ("np.zeros(output_shape)", "np.zeros(shape=output_shape)", "np.zeros(output_shape, dtype=float)")
    ctx.check(ok, f.qual + "#zeros", "output starts as zeros(output_shape)" if ok else f"output starts as {norm(out[0]) if out else None}", where=f, node=f.node)
    un = {norm(s_.targets[0]): norm(s_.value) for s_ in walk_ordered(f.node) if isinstance(s_, ast.Assign) and isinstance(s_.targets[0], ast.Tuple)}
    ok = un.get("(array_y, array_x)") == "array.shape" and un.get("(output_y, output_x)") == "output_shape"
    ctx.check(ok, f.qual + "#axes", "(y, x) = shape for input and output" if ok else f"shape unpacking {un}", where=f, node=f.node)
    # Everything below is decided per PATH through fit_into_array (sa/paths.py): locals, named
    # intermediates, helper functions (inlined) and the shape of the guards do not matter.
    from sa.paths import enumerate_paths

    def canon(txt: str) -> str:
        for a_, b_ in (("array.shape[0]", "array_y"), ("array.shape[1]", "array_x"), ("output_shape[0]", "output_y"), ("output_shape[1]", "output_x"), ("(array.shape)[0]", "array_y"), ("(array.shape)[1]", "array_x"), ("(output_shape)[0]", "output_y"), ("(output_shape)[1]", "output_x")):
            txt = txt.replace(a_, b_)
        return txt

    def bounds(e):
        if isinstance(e, ast.Call) and call_name(e) == "slice" and len(e.args) == 2:
            return e.args
        if isinstance(e, ast.Slice) and e.lower is not None and e.upper is not None and e.step is None:
            return [e.lower, e.upper]
        return None

    def cp(e):
        return to_poly(ast.parse(canon(norm(e)), mode="eval").body)

    paths = enumerate_paths(f.node.body)
    done = [q for q in paths if q.exit == "return"]
    if not done:
        ctx.fail(f.qual + "#slices", "no path returns a result", where=f, node=f.node)
        return
    n_paste = 0
    for q in done:
        tag = "aligned" if any("align" in t and pol for t, pol in q.cond_texts()) else "positioned"
        okr = q.value is not None and dotted(q.value) == "output" or (q.value is not None and norm(q.value) in ("np.zeros(output_shape)", "np.zeros(shape=output_shape)"))
        pastes = [e for e in q.effects if e.kind == "store" and e.target.startswith(("output[", "np.zeros(output_shape)["))]
        if len(pastes) != 1 or not okr:
            ctx.fail(f.qual + f"#paste:{tag}", f"{len(pastes)} paste operations on a returning path / returns {norm(q.value) if q.value is not None else None}", where=f, node=q.exit_node or f.node)
            continue
        n_paste += 1
        pst = pastes[0]
        tgt = ast.parse(pst.target, mode="eval").body
        val = pst.value
        okp = isinstance(val, ast.Subscript) and dotted(val.value) == "array" and isinstance(val.slice, ast.Tuple) and len(val.slice.elts) == 2 and isinstance(tgt, ast.Subscript) and isinstance(tgt.slice, ast.Tuple) and len(tgt.slice.elts) == 2
        ctx.check(okp, f.qual + f"#paste:{tag}", "a 2-D block of the input is pasted into the output, which is returned" if okp else f"what is pasted is {norm(val)[:80]}: not a 2-D block of the input array", where=f, node=pst.node)
        if not okp:
            continue
        from sa.paths import subst as _subst

        for i, ax in ((0, "y"), (1, "x")):
            sb, db = bounds(val.slice.elts[i]), bounds(tgt.slice.elts[i])
            if sb is None or db is None:
                ctx.fail(f.qual + f"#shift:{ax}:{tag}", "slice bounds not recognised", where=f, node=pst.node)
                continue
            rp_e = _subst(ast.parse(f"relative_position[{i}]", mode="eval").body, q.env)
            r = canon(norm(rp_e))
            lo_ok = (cp(db[0]) - cp(sb[0])) == cp(rp_e)
            hi_ok = (cp(db[1]) - cp(sb[1])) == cp(rp_e)
            ctx.check(lo_ok and hi_ok, f.qual + f"#shift:{ax}:{tag}", f"source block = destination block - position[{i}]" if lo_ok and hi_ok else f"axis {ax}: source [{canon(norm(sb[0]))[:70]} : {canon(norm(sb[1]))[:70]}] is not destination [{canon(norm(db[0]))[:70]} : {canon(norm(db[1]))[:70]}] shifted by the requested position component {i} ({r[:50]})", where=f, node=pst.node)
            lo_t, hi_t = canon(norm(db[0])), canon(norm(db[1]))
            inter = f"np.intersect1d(np.array(range({r}, {r} + array_{ax})), np.array(range(output_{ax})))"
            inter2 = f"np.intersect1d(np.array(range(output_{ax})), np.array(range({r}, {r} + array_{ax})))"
            form_a = any(lo_t == f"{it_}[0]" and hi_t in (f"{it_}[-1] + 1", f"1 + {it_}[-1]") for it_ in (inter, inter2))
            form_b = lo_t in (f"max({r}, 0)", f"max(0, {r})") and hi_t in (f"min({r} + array_{ax}, output_{ax})", f"min(output_{ax}, {r} + array_{ax})", f"min(array_{ax} + {r}, output_{ax})")
            ctx.check(form_a or form_b, f.qual + f"#dest:{ax}:{tag}", "destination covers exactly the overlap of the shifted input with the detector" if form_a or form_b else f"axis {ax}: destination [{lo_t[:70]} : {hi_t[:70]}] is not the overlap of range(p, p + array_{ax}) with range(output_{ax})", where=f, node=pst.node)
            # on this (returning) path the overlap of this axis is known to be non-empty
            facts = {(canon(t), pol) for t, pol in q.cond_texts()}
            facts |= {(canon(t), pol) for t, pol in q.implied_literals()}  # what the path's decisions imply together
            nonempty = set()
            for it_ in (inter, inter2):
                for sz in (f"{it_}.size", f"len({it_})"):
                    nonempty |= {(f"{sz} == 0", False), (f"{sz} > 0", True), (f"{sz} >= 1", True), (f"{sz} < 1", False), (f"{sz} <= 0", False), (sz, True), (f"0 == {sz}", False), (f"0 < {sz}", True)}
            nonempty |= {(f"{hi_t} <= {lo_t}", False), (f"{lo_t} >= {hi_t}", False), (f"{hi_t} - {lo_t} <= 0", False), (f"{hi_t} > {lo_t}", True), (f"{lo_t} < {hi_t}", True), (f"{hi_t} - {lo_t} > 0", True)}
            okg = bool(facts & nonempty)
            ctx.check(okg, f.qual + f"#no-overlap:{ax}:{tag}", f"an empty overlap in {ax} raises before any slicing" if okg else f"an input that does not overlap the detector in {ax} (including edge-to-edge placement) is not rejected: an all-zero image would be returned", where=f, node=pst.node, facts={"known_on_path": sorted(t for t, pol in facts)[:8]})
    ctx.floor(n_paste, 2, rule="C20.R4")
    # callers: (position_y, position_x) order
    lc = ctx.func(f"{IMG}:_load_cropped_and_aligned_image") if ctx.repo.has_func(f"{IMG}:_load_cropped_and_aligned_image") else ctx.func(f"{IMG}:load_cropped_and_aligned_image")
    fc = [c for c in calls_in(lc.node) if call_name(c) == "fit_into_array"]
    ok = len(fc) == 1 and norm(kw(fc[0], "relative_position")) == "(position_y, position_x)" and dotted(kw(fc[0], "output_shape")) == "shape" and dotted(kw(fc[0], "align")) == "align" and _is_loaded_from(ctx, lc, kw(fc[0], "array"), "filename")
    ctx.check(ok, lc.qual, "fit_into_array(load_image(filename), shape, (position_y, position_x), align)" if ok else "loader passes position/shape/alignment in the wrong slots", where=lc, node=fc[0] if fc else lc.node)
    # ... on EVERY path: whatever the input's shape, what is returned went through fit_into_array (a
    # shortcut for "already the right shape" would ignore the requested offset / alignment)
    from sa.paths import enumerate_paths as _ep

    for q_ in [x for x in _ep(lc.node.body) if x.exit == "return"]:
        okp = len(q_.called("fit_into_array")) == 1
        ctx.check(okp, lc.qual + "#always-placed", "the returned image is the result of fit_into_array" if okp else f"on the path {q_.cond_texts()} the image is returned without being placed by fit_into_array: offset / alignment are ignored", where=lc, node=q_.exit_node or lc.node)
    pub = ctx.func(f"{IMG}:load_cropped_and_aligned_image")
    fwd = [c for c in calls_in(pub.node) if call_name(c) == "_load_cropped_and_aligned_image"]
    if fwd:
        ok = all(dotted(kw(fwd[0], k)) == k for k in ("shape", "filename", "position_x", "position_y", "align", "allow_smaller_array"))
        ctx.check(ok, pub.qual, "forwards every argument under its own name" if ok else "public loader cross-wires its arguments", where=pub, node=fwd[0])
    for q in ("pyxel.models.photon_collection.load_image:load_image", "pyxel.models.charge_generation.load_charge:load_charge"):
        m = ctx.func(q)
        cs = [c for c in calls_in(m.node) if call_name(c) == "load_cropped_and_aligned_image"]
        ok = len(cs) == 1
        if ok:
            un = [s_ for s_ in walk_ordered(m.node) if isinstance(s_, ast.Assign) and norm(s_.targets[0]) == "(position_y, position_x)" and dotted(s_.value) == "position"]
            ok = len(un) == 1 and dotted(kw(cs[0], "position_x")) == "position_x" and dotted(kw(cs[0], "position_y")) == "position_y" and dotted(kw(cs[0], "align")) == "align"
            sh = norm(expand(m, kw(cs[0], "shape")))
            ok = ok and sh in ("(detector.geometry.row, detector.geometry.col)",)
        ctx.check(ok, q + "#placement-args", "position = (y, x), shape = (rows, cols), align forwarded" if ok else "model passes position/shape/alignment in the wrong slots", where=m, node=cs[0] if cs else m.node)


def r5_cached_image_never_modified(ctx):
    """"What a model loads reflects the file's content": the memoised image array is shared by every later load of the same file, so no consumer may modify it in place (shared with C17.R4)."""
    from props.C17 import r4_no_inplace_on_memoised

    r4_no_inplace_on_memoised(ctx)


READERS = {
    f"{LD}:load_image": {".fits": ("fits.getdata",), ".npy": ("np.load", "numpy.load"), ".txt": ("np.loadtxt", "numpy.loadtxt")},
}


class _Site:
    """A result site: the statement and the value it contributes."""

    def __init__(self, st, value):
        self.st, self.value = st, value
        self.lineno = getattr(st, "lineno", 0)


def r6_handed_over_as_read(ctx):
    """"Read back with the same shape and values": in load_image the value returned for the lossless formats (.fits, .npy, text) is exactly what the format's reader returned - one store per branch, the reader call itself, nothing applied to the result afterwards (no squeeze / reshape / transpose / astype / slicing); load_table lets the separator sniffer see the whole text it then parses."""
    from sa.astutil import enclosing_tests, stores

    n = 0
    for q, readers in READERS.items():
        f = ctx.func(q)
        # the result sites (sa/astutil.py:result_sites): `x = E ... return x` and `return E` are the same site
        from sa.astutil import result_sites

        per_branch: dict[str, list] = {}
        for st, v0 in result_sites(f):
            br = None
            for tt, pol in enclosing_tests(st):
                txt = norm(tt)
                if pol and "suffix.startswith" in txt:
                    br = next((k for k in readers if repr(k) in txt), "other")
            if br is None:
                if isinstance(st, ast.Return):
                    ctx.fail(q + "#returns-the-read-data", f"the return value is computed after the dispatch (`{norm(v0)[:60]}`): the data is not handed over as read", where=f, node=st)
                else:
                    ctx.fail(q + "#as-read", f"`{norm(st)[:70]}` changes the loaded data outside the format dispatch: every format is post-processed (shape / values no longer those of the file)", where=f, node=st)
                continue
            per_branch.setdefault(br, []).append(_Site(st, v0))
        ctx.check(bool(per_branch), q + "#returns-the-read-data", "every result is produced inside the format dispatch" if per_branch else "no result site found inside the format dispatch", where=f, node=f.node)
        for br, fns in readers.items():
            sts = per_branch.get(br, [])
            n += 1
            val = getattr(sts[0], "value", None) if len(sts) == 1 else None
            ok = isinstance(val, ast.Call) and call_name(val) in fns
            if not ok and isinstance(val, ast.Name):
                # a named intermediate (e.g. the result of an inlined helper): every definition is the reader's result
                dv = [v_ for _, v_ in local_defs(f, val.id) if v_ is not None]
                ok = bool(dv) and all(isinstance(v_, ast.Call) and call_name(v_) in fns for v_ in dv)
            # ... read with the reader's value-preserving defaults: no option that rescales, selects or transposes
            DENY = {"do_not_scale_image_data", "scale_back", "uint", "ignore_blank", "ignore_missing_end", "lower", "upper", "view", "usecols", "skiprows", "max_rows", "converters", "unpack", "dtype", "comments", "encoding", "quotechar", "like"}
            rcalls = [val] if isinstance(val, ast.Call) else [v_ for _, v_ in local_defs(f, val.id) if isinstance(v_, ast.Call)] if isinstance(val, ast.Name) else []
            for rc in rcalls:
                denied = [k.arg for k in rc.keywords if k.arg in DENY and not (isinstance(k.value, ast.Constant) and k.value.value is None)]
                if ok and denied:
                    ctx.fail(q + f"#as-read:{br}", f"{br}: {call_name(rc)} is called with {denied[0]}=...: the values / shape handed over are no longer those the file denotes (e.g. FITS BZERO / BSCALE not applied)", where=f, node=rc)
                    ok = None
            if ok is None:
                continue
            ctx.check(ok, q + f"#as-read:{br}", f"{br}: the result of {fns[0]}(...) is returned as read" if ok else (f"{br}: the loaded array is rewritten {len(sts)} times in its branch (`{norm(sts[-1].st)[:60]}`): shape / values are not those stored in the file" if len(sts) != 1 else f"{br}: the branch stores `{norm(val)[:60]}` instead of the reader's result"), where=f, node=sts[-1].st if sts else f.node)
    f = ctx.func(f"{LD}:load_table")
    sn = [c for c in calls_in(f.node) if isinstance(c.func, ast.Attribute) and c.func.attr == "sniff"]
    rd = [c for c in calls_in(f.node) if call_name(c) == "StringIO" and c.args]
    if len(sn) == 1 and sn[0].args:
        n += 1
        a = sn[0].args[0]
        whole = isinstance(a, ast.Name) and all(isinstance(v_, ast.Call) and isinstance(v_.func, ast.Attribute) and v_.func.attr == "read" and not v_.args and not v_.keywords for _, v_ in local_defs(f, a.id) if v_ is not None) and bool(local_defs(f, a.id))
        same = bool(rd) and all(dotted(c.args[0]) == dotted(a) for c in rd)
        ok = whole and same
        ctx.check(ok, f.qual + "#sniff-whole-text", "the separator is detected on the very text that is parsed" if ok else f"the separator sniffer is given `{norm(a)[:40]}`, not the whole text that is parsed: a cut through a line makes the detection fail and the table is read with the wrong separator", where=f, node=sn[0])
    ctx.floor(n, 4)


CACHE_SAMPLES = {
    "/data/frame.npy": False,
    "relative/frame.fits": False,
    "C:\\data\\frame.npy": False,
    "file:///data/frame.npy": False,
    "local:///data/frame.npy": False,
    "https://host/data/frame.npy": True,
    "http://host/data/frame.fits": True,
    "s3://bucket/frame.npy": True,
}


def _fsspec_get_protocol(url: str) -> str:
    """Trusted model of fsspec.utils.get_protocol (documented): the text before '::' or '://', else 'file'."""
    import re as _re

    parts = _re.split(r"(\:\:|\://)", url, maxsplit=1)
    return parts[0] if len(parts) > 1 else "file"


LIBRARY_MODELS = {"get_protocol": _fsspec_get_protocol, "split_protocol": lambda url: ((_fsspec_get_protocol(url) if ("://" in url or "::" in url) else None), url.split("://", 1)[-1])}


def r7_no_cached_copy_of_local_files(ctx):
    """"Reflects the file's content at the time of the run": with the cache option on, prepare_cache_path - evaluated (sa/minieval.py, nothing is run) for a sample of every kind of location - routes only REMOTE locations through fsspec's simplecache (whose copies are keyed by path and never refreshed); local paths are returned unchanged, with or without the option; with the option off nothing is cached at all."""
    from sa.minieval import Opaque, Record, Undecided, evaluate

    f = ctx.func(f"{LD}:prepare_cache_path")
    p = f.params[0]
    n = 0
    for enabled in (True, False):
        for url, remote in CACHE_SAMPLES.items():
            opts = Record(cache_enabled=enabled, cache_folder=None)
            helpers = {nm: fn_.node for nm, fn_ in f.module.functions.items() if isinstance(fn_.node, ast.FunctionDef) and nm != f.name}
            helpers.update(LIBRARY_MODELS)
            try:
                kind, val = evaluate(f.node, {p: url}, {**helpers, "global_options": opts})
            except Undecided as exc:
                raise AnalysisError(f"prepare_cache_path cannot be evaluated for {url!r}: {exc}")
            n += 1
            out = val[0] if kind == "return" and isinstance(val, (tuple, list)) and val else None
            if not isinstance(out, str):
                ctx.fail(f.qual + f"#cache:{'on' if enabled else 'off'}:{url}", f"for {url!r} the function yields {kind} {val!r:.60}: not a (location, options) pair", where=f, node=f.node)
                continue
            cached = "cache::" in out
            want = enabled and remote
            ok = cached == want and (cached or out == url)
            ctx.check(ok, f.qual + f"#cache:{'on' if enabled else 'off'}:{url}", ("cached (remote)" if want else "read from its own location") if ok else (f"the local file {url!r} is opened as {out!r}: a cached copy, keyed by path and never refreshed, hides later changes of the file" if cached and not remote else f"{url!r} is opened as {out!r} with cache_enabled={enabled}"), where=f, node=f.node)
    ctx.floor(n, 16)


RULES = [r7_no_cached_copy_of_local_files, r6_handed_over_as_read, r5_cached_image_never_modified, r1_no_stale_cache, r2_tables_agree, r3_alignment_exhaustive, r4_pure_shift]
