"""C19 - output files are complete, correctly attributed and never clobbered."""

from __future__ import annotations

import ast

from sa.astutil import after_block, precedes  # statement order (never line numbers)

from sa.astutil import arg_or_kw, call_name, calls_in, contains, enclosing_loop, enclosing_tests, expand, kw, local_defs, loops_in, names_in, raising_ifs, returns_of, stmt_calls, stores
from sa.cfg import ends_in_raise
from sa.index import AnalysisError, FuncInfo, ancestors, dotted, enclosing_stmt, norm, walk_local, walk_ordered
from sa.poly import to_poly

EXPLANATION = (
    "Pairing/guard analysis of the output path: the run directory is created by mkdir(exist_ok=False) "
    "inside a retry loop whose FileExistsError handler changes the candidate name (no exists()-then-"
    "mkdir race) and the folder is created before any running mode starts; every writer protects its "
    "target on all paths to the write (an existence guard on the very path it writes, ending in raise "
    "or skip, or the library's overwrite=False); the data written is read from the processor that ran "
    "under the bucket name that also names the file; the run suffix is an injective affine function of "
    "the run index; build_filenames emits one name per (bucket, format); format tables map each "
    "extension to the writer of that name."
)
NOT_DECIDED = ["bit-identical read-back of the files", "OS-level races other than mkdir's atomic exclusivity"]
ASSUMPTIONS = [
    "Path.mkdir(exist_ok=False) is atomic-exclusive",
    "open(..., 'w') / h5py.File(..., 'w') truncate; np.save, np.savetxt, DataFrame.to_csv, to_netcdf, PIL save overwrite; fits writeto(overwrite=False) refuses",
]

OU = "pyxel.outputs.utils"
OO = "pyxel.outputs.outputs"
WRITERS = ["to_fits", "to_hdf", "to_npy", "to_txt", "to_csv", "to_png", "to_jpg", "to_netcdf", "write_to_fits", "write_to_npy", "write_to_jpg"]


def r1_fresh_directory(ctx):
    """create_output_directory: mkdir(exist_ok=False) inside `while True`/try, the FileExistsError handler changes the name suffix and retries, the directory is returned only after a successful mkdir, there is no exists() pre-check; Outputs.create_output_folder stores its result and run_mode calls it before any mode runs."""
    f = ctx.func(f"{OO}:create_output_directory")
    mk = [c for c in calls_in(f.node) if isinstance(c.func, ast.Attribute) and c.func.attr in ("mkdir", "makedirs")]
    if len(mk) != 1:
        ctx.fail(f.qual + "#mkdir", f"{len(mk)} mkdir calls (expected one)", where=f, node=f.node)
        return
    m = mk[0]
    eo = kw(m, "exist_ok")
    ok = eo is None or (isinstance(eo, ast.Constant) and eo.value is False)
    ctx.check(ok, f.qual + "#exclusive", "mkdir(exist_ok=False): creation is atomic and exclusive" if ok else "mkdir(exist_ok=True): an existing directory (another run started in the same second) is silently reused", where=f, node=m)
    ctx.trust("Path.mkdir(exist_ok=False) is atomic-exclusive")
    tries = [a for a in ancestors(m) if isinstance(a, ast.Try)]
    loops = [a for a in ancestors(m) if isinstance(a, (ast.While, ast.For))]
    ok = bool(tries) and bool(loops)
    ctx.check(ok, f.qual + "#retry-loop", "mkdir sits in try inside a retry loop" if ok else "mkdir is not retried in a loop", where=f, node=m)
    if ok:
        t = tries[0]
        hs = [h for h in t.handlers if h.type is not None and "FileExistsError" in norm(h.type)]
        okh = len(hs) == 1
        why = "no FileExistsError handler"
        if okh:
            h = hs[0]
            changed = {dotted(s.target) for s in ast.walk(h) if isinstance(s, ast.AugAssign)} | {dotted(tg) for s in ast.walk(h) if isinstance(s, ast.Assign) for tg in s.targets}
            if isinstance(loops[0], ast.For):
                # a counting loop: the loop variable is what changes between two attempts
                changed |= {x.id for x in ast.walk(loops[0].target) if isinstance(x, ast.Name)}
            # the candidate path expression must depend on something that changes between attempts
            from sa.astutil import flow_closure

            dep = flow_closure(loops[0], m.func.value)
            okh = bool(changed & dep) and all(contains(loops[0], s_) for s_, v in local_defs(f, dotted(m.func.value) or "")) and not any(isinstance(x, (ast.Return, ast.Break, ast.Raise)) for x in ast.walk(h))
            why = "the handler changes the candidate name and retries" if okh else f"the handler changes {sorted(changed)} but the candidate path depends on {sorted(dep)} / does not retry"
        ctx.check(okh, f.qual + "#handler", why, where=f, node=hs[0] if hs else t)
        rets = [r for r in returns_of(f) if r.value is not None]
        okr = bool(rets) and all(dotted(r.value) == dotted(m.func.value) and (any(r in ast.walk(ast.Module(body=t.orelse, type_ignores=[])) for _ in [0]) or after_block(f, t, r)) for r in rets)
        ctx.check(okr, f.qual + "#return", "returns the directory it just created" if okr else "can return a directory it did not create", where=f, node=rets[0] if rets else f.node)
    pre = [c for c in calls_in(f.node) if isinstance(c.func, ast.Attribute) and c.func.attr in ("exists", "is_dir")]
    ctx.check(not pre, f.qual + "#no-precheck", "no exists()-then-mkdir race" if not pre else "exists() pre-check before mkdir is racy", where=f, node=pre[0] if pre else f.node)
    cf = ctx.func(f"{OO}:Outputs.create_output_folder")
    sts = [s for s, t_ in stores(cf.node, lambda t_: dotted(t_) == "self._current_output_folder")]
    ok = len(sts) == 1 and isinstance(sts[0].value, ast.Call) and call_name(sts[0].value) == "create_output_directory"
    ctx.check(ok, cf.qual, "stores the freshly created directory" if ok else "current output folder is not the directory created by create_output_directory", where=cf, node=sts[0] if sts else cf.node)
    rm = ctx.func("pyxel.run:run_mode")
    g = ctx.cfg(rm)
    cs = [c for c in calls_in(rm.node) if isinstance(c.func, ast.Attribute) and c.func.attr == "create_output_folder"]
    runs = [c for c in calls_in(rm.node) if call_name(c) in ("_run_exposure_mode", "_run_calibration_mode") or (isinstance(c.func, ast.Attribute) and c.func.attr == "run_pipelines")]
    ok = len(cs) == 1 and len(runs) == 3
    if ok:
        ts = enclosing_tests(cs[0])
        ok = len(ts) == 1 and ts[0][1] and norm(expand(rm, ts[0][0])) in ("mode.outputs", "outputs")
        cn = [n for n in g.nodes if n.ast is not None and n.kind == "stmt" and contains(n.ast, cs[0])]
        first = [n for n in g.nodes if n.ast is not None and n.kind in ("stmt", "match") and any(contains(n.ast, r) for r in runs)]
        ok = ok and all(precedes(rm, cs[0], n.ast) and not contains(n.ast, cs[0]) for n in first)
    ctx.check(ok, rm.qual + "#folder-first", "the output folder is created (whenever outputs are configured) before the mode runs" if ok else "a running mode can start before / without creating its output folder", where=rm, node=cs[0] if cs else rm.node)


SINKS = {"np.save", "numpy.save", "np.savetxt", "numpy.savetxt", "np.savez"}
SINK_METHODS = {"to_csv", "to_netcdf", "save", "writeto", "write_to", "to_hdf", "to_zarr", "tofile", "write"}


def _sinks(f):
    out = []
    for c in calls_in(f.node):
        fn = call_name(c)
        if fn in SINKS:
            path = arg_or_kw(c, 0, "file") or arg_or_kw(c, 0, "fname")
            out.append((c, path, None))
        elif isinstance(c.func, ast.Attribute) and c.func.attr in SINK_METHODS and not fn.startswith(("logging", "np.", "numpy.")):
            path = c.args[0] if c.args else (kw(c, "fileobj") or kw(c, "filename") or kw(c, "path"))
            flag = kw(c, "overwrite")
            if fn in ("fits.writeto",):
                path = kw(c, "filename") or (c.args[0] if c.args else None)
            out.append((c, path, flag))
        elif fn in ("h5.File", "h5py.File", "open"):
            mode = arg_or_kw(c, 1, "mode")
            if isinstance(mode, ast.Constant) and isinstance(mode.value, str) and any(ch in mode.value for ch in "wa+") and "x" not in mode.value:
                out.append((c, c.args[0] if c.args else None, None))
    return out


def r2_no_clobber_writers(ctx):
    """Every writer (to_fits, to_hdf, to_npy, to_txt, to_csv, to_png, to_jpg, to_netcdf, write_to_fits/npy/jpg): each call that creates or truncates a file is protected on every path by an existence guard on that same path that raises (or returns: skip), or by the library's overwrite=False."""
    n = 0
    for name in WRITERS:
        f = ctx.func(f"{OU}:{name}")
        g = ctx.cfg(f)
        sinks = _sinks(f)
        if not sinks:
            ctx.fail(f.qual + "#sink", "no file-writing call recognised (writer changed beyond the matcher)", where=f, node=f.node)
            continue
        for c, path, flag in sinks:
            n += 1
            pth = dotted(path) if path is not None else None
            lib_ok = flag is not None and isinstance(flag, ast.Constant) and flag.value is False
            guards = []
            for iff in [x for x in walk_ordered(f.node) if isinstance(x, ast.If)]:
                t = norm(iff.test)
                protects = pth is not None and (t == f"{pth}.exists()" or t.startswith(f"{pth}.exists() and"))
                if not protects:
                    continue
                body_exit = ends_in_raise(iff.body) or (iff.body and isinstance(iff.body[-1], ast.Return))
                if body_exit:
                    guards.append(iff)
            cn = [nd for nd in g.nodes if nd.ast is not None and nd.kind in ("stmt", "with") and contains(nd.ast, c) and not isinstance(nd.ast, (ast.If, ast.Try, ast.For))]
            gn = [nd for x in guards for nd in g.nodes_of(x)]
            guard_ok = bool(gn) and all(g.must_precede(gn, nd) for nd in cn)
            ok = lib_ok or guard_ok
            if ok and guard_ok and not lib_ok:
                skip_only_flag = [x for x in guards if " and not overwrite" in norm(x.test)]
                why = "existence guard on the written path dominates the write" + (" (an explicit overwrite=True request is honoured)" if skip_only_flag else "")
            elif ok:
                why = "library refuses to overwrite (overwrite=False)"
            else:
                why = f"`{norm(c)[:60]}` can truncate/overwrite an existing file: no dominating existence guard on `{pth}` and no overwrite=False"
            ctx.check(ok, f"{f.qual}#{call_name(c)}", why, where=f, node=c)
    ctx.floor(n, 11)
    ctx.trust("np.save / np.savetxt / DataFrame.to_csv / to_netcdf / PIL save / h5py.File(mode 'w') overwrite; fits writeto(overwrite=False) refuses")
    # callers do not request overwriting
    sf = ctx.func(f"{OU}:save_to_files")
    d = sf.param_default("overwrite")
    ok = isinstance(d, ast.Constant) and d.value is False
    ctx.check(ok, sf.qual + "#default", "overwrite defaults to False" if ok else "save_to_files overwrites by default", where=sf, node=sf.node.args)
    for cs in ctx.R.sites_calling(sf.qual):
        a = cs.kwarg("overwrite")
        ok = a is None or (isinstance(a, ast.Constant) and a.value is False)
        ctx.check(ok, f"{cs.caller.qual}->save_to_files#overwrite", "does not request overwriting" if ok else "requests overwrite=True", where=cs.caller, node=cs.node)
    for c in calls_in(sf.node):
        if call_name(c) in ("write_to_fits", "write_to_npy", "write_to_jpg"):
            a = kw(c, "overwrite")
            ok = a is not None and dotted(a) == "overwrite"
            ctx.check(ok, sf.qual + f"->{call_name(c)}#overwrite", "forwards its own overwrite flag" if ok else f"passes overwrite={norm(a)}", where=sf, node=c)


def r3_attribution(ctx):
    """exposure.run_pipeline saves from the processor that ran, into outputs.current_output_folder, under build_filenames(filename_suffix=<the run's suffix>); save_to_files reads bucket `<a>.<b>` parsed from the very file name it writes to; sequential observation stores save_to_file(processor=new_processor, run_number=param_item.run_index) after the run; apply_run_number formats run_number + 1 (injective); Outputs.save_to_file writes the value read under valid_name into a file named after valid_name."""
    f = ctx.func("pyxel.exposure.exposure:run_pipeline")
    cs = stmt_calls(f, ctx.R, {f"{OU}:save_to_files"})
    ok = len(cs) == 1
    if ok:
        c = cs[0]
        ok = dotted(kw(c, "processor")) == "processor" and norm(kw(c, "folder")) == "outputs.current_output_folder" and norm(expand(f, kw(c, "filenames"))) == "outputs.build_filenames(filename_suffix=output_filename_suffix)"
        st = enclosing_stmt(c)
        runs = stmt_calls(f, ctx.R, {"pyxel.pipelines.processor:Processor.run_pipeline"})
        ok = ok and runs and after_block(f, enclosing_loop(runs[0]), c)
    ctx.check(ok, f.qual + "#save", "files are written after the last step, from the processor that ran, into the run's folder, under the run's suffix" if ok else "exposure output files are not written from the processor that ran / under the run's suffix", where=f, node=cs[0] if cs else f.node)
    sf = ctx.func(f"{OU}:save_to_files")
    lp = [l for l in loops_in(sf.node) if isinstance(l, ast.For) and enclosing_loop(l) is None and dotted(expand(sf, l.iter)) == "filenames"]
    ok = len(lp) == 1 and not lp[0].orelse
    ctx.check(ok, sf.qual + "#loop", "one file per requested name" if ok else "not every requested name is written", where=sf, node=lp[0] if lp else sf.node)
    if ok:
        fv = lp[0].target.id
        ff = [v for s_, v in local_defs(sf, "full_filename") if v is not None]
        ok1 = len(ff) == 1 and norm(ff[0]) in (f"folder.joinpath({fv}).resolve()", f"(folder / {fv}).resolve()")
        vn = [v for s_, v in local_defs(sf, "valid_name") if v is not None]
        un = [s_ for s_ in walk_ordered(sf.node) if isinstance(s_, ast.Assign) and norm(s_.value) == "full_filename.stem.split('_')"]
        ok2 = len(vn) == 1 and norm(vn[0]) == "f'{first_arg}.{bucket_name}'" and len(un) == 1 and norm(un[0].targets[0]).startswith("(first_arg, bucket_name")
        gd = [v for s_, v in local_defs(sf, "data_2d") if v is not None]
        ok3 = len(gd) == 1 and norm(gd[0]).startswith("processor.get(valid_name")
        wr = [c for c in calls_in(sf.node) if call_name(c) in ("write_to_fits", "write_to_npy", "write_to_jpg")]
        ok4 = len(wr) == 3 and all(dotted(kw(c, "filename")) == "full_filename" and norm(kw(c, "data")) == "np.asarray(data_2d)" for c in wr)
        ctx.check(ok1 and ok2 and ok3 and ok4, sf.qual + "#attribution", "each file holds the bucket its own name designates, read from the given processor" if ok1 and ok2 and ok3 and ok4 else "file name and written bucket can disagree in save_to_files", where=sf, node=lp[0])
        # extension dispatch, decided per extension keyword over the paths of one loop iteration
        # (match statement, if/elif ladder or helper function: all the same after normalisation)
        from sa.paths import enumerate_paths, feasible_paths

        paths = [q for q in enumerate_paths(lp[0].body)]
        from sa.paths import dispatch_subjects

        ext_vars = dispatch_subjects(paths, {"fits", "npy", "jpg"})
        table = {}
        for ext in ("fits", "npy", "jpg", "jpeg"):
            writers = set()
            for ev in ext_vars or {"extension"}:
                for q in feasible_paths(paths, ev, ext):
                    if q.exit == "raise":
                        continue  # rejected input (unknown bucket, empty bucket): no file at all
                    if not any(fn_.split(".")[-1].startswith("write_to_") for fn_, _, _ in q.calls):
                        writers.add("<nothing written>")
                    for fn_, c_, _ in q.calls:
                        if fn_.split(".")[-1].startswith("write_to_"):
                            writers.add(fn_.split(".")[-1])
            table[ext] = sorted(writers)
        ok = table.get("fits") == ["write_to_fits"] and table.get("npy") == ["write_to_npy"] and table.get("jpg") == ["write_to_jpg"] and table.get("jpeg") == ["write_to_jpg"]
        ctx.check(ok, sf.qual + "#formats", "extension -> writer of that format" if ok else f"extension dispatch {table}", where=sf, node=lp[0])
        rep = [c for c in calls_in(sf.node) if call_name(c).endswith("DataArray") and c.args and norm(c.args[0]) == "str(full_filename)"]
        ctx.check(bool(rep), sf.qual + "#reported", "the reported name is the written path" if rep else "reported file name is not the written path", where=sf, node=rep[0] if rep else sf.node)
    o = ctx.func("pyxel.observation.observation:Observation._run_single_pipeline")
    sv = [c for c in calls_in(o.node) if isinstance(c.func, ast.Attribute) and c.func.attr == "save_to_file"]
    runs = stmt_calls(o, ctx.R, {"pyxel.exposure.exposure:run_pipeline"})
    ok = len(sv) == 1 and len(runs) == 1 and dotted(kw(sv[0], "processor")) == "new_processor" and norm(kw(sv[0], "run_number")) == f"{o.params[1]}.run_index" and precedes(o, runs[0], sv[0])
    if ok:
        st = enclosing_stmt(sv[0])
        ok = isinstance(st, ast.Assign) and norm(st.targets[0]).endswith("['/output']")
    ctx.check(ok, o.qual + "#per-run-files", "per-run files come from the run's own processor and run index, after the run" if ok else "per-run output files are not attributed to the run's own processor / index", where=o, node=sv[0] if sv else o.node)
    ar = ctx.func(f"{OU}:apply_run_number")
    # decided per path (sa/paths.py): what is formatted into the '?' placeholder
    from sa.paths import enumerate_paths

    def _numeric_elt(elt) -> bool:
        if isinstance(elt, ast.Call) and call_name(elt).split(".")[-1] in ("get_number", "int", "_get_trailing_number"):
            return True
        if isinstance(elt, ast.Call):
            for cal in ctx.R.resolve_call(ar, elt):
                if isinstance(cal, FuncInfo) and all(_numeric_elt(r.value) or (isinstance(r.value, ast.Constant) and isinstance(r.value.value, int)) for r in returns_of(cal) if r.value is not None):
                    return True
        if isinstance(elt, ast.IfExp):
            return all(_numeric_elt(x) or (isinstance(x, ast.Constant) and isinstance(x.value, int)) for x in (elt.body, elt.orelse))
        return False

    def _largest_number_plus_one(e) -> tuple[bool, str]:
        """e == <largest extracted number> + 1 (or the constant 1 when nothing exists yet)."""
        if isinstance(e, ast.Constant) and e.value == 1:
            return True, "first file gets number 1"
        if not (isinstance(e, ast.BinOp) and isinstance(e.op, ast.Add)):
            return False, f"`{norm(e)[:60]}` is not <largest number in use> + 1"
        l_, r_ = (e.left, e.right) if isinstance(e.right, ast.Constant) else (e.right, e.left)
        if not (isinstance(r_, ast.Constant) and r_.value == 1):
            return False, f"`{norm(e)[:60]}` is not <largest number in use> + 1"
        agg = None
        if isinstance(l_, ast.Call) and call_name(l_) in ("max", "np.max", "numpy.max") and l_.args:
            agg = l_.args[0]
        elif isinstance(l_, ast.Subscript) and norm(l_.slice) == "-1" and isinstance(l_.value, ast.Call) and call_name(l_.value) == "sorted" and l_.value.args and not [k for k in l_.value.keywords if k.arg in ("key", "reverse")]:
            agg = l_.value.args[0]
        if agg is None:
            return False, f"`{norm(l_)[:60]}` is not the maximum of the numbers in use (last entry of an unsorted / name-sorted list, or a count)"
        elt = agg.elt if isinstance(agg, (ast.GeneratorExp, ast.ListComp, ast.SetComp)) else (agg.args[0] if isinstance(agg, ast.Call) and call_name(agg) == "map" and agg.args else None)
        if elt is not None and (_numeric_elt(elt) or (isinstance(elt, ast.Name) and elt.id in ("get_number", "int", "_get_trailing_number"))):
            return True, "largest extracted number + 1"
        return False, f"the largest entry is taken over `{norm(agg)[:50]}`, which is not the extracted numbers (file names do not sort by number)"

    n_run = n_auto = 0
    for q_ in enumerate_paths(ar.node.body, max_paths=256):
        if q_.exit == "raise":
            continue
        fmts = [c_ for fn_, c_, _ in q_.calls if fn_.endswith(".format") and c_.args]
        for c_ in fmts[:1]:
            a_ = c_.args[0]
            given = q_.holds("run_number is None")
            given = (not given) if given is not None else q_.holds("run_number is not None")
            if given is None:
                given = "run_number" in names_in(a_)
            if given:
                n_run += 1
                p = to_poly(a_)
                ok = (p.degrees("run_number") == {1, 0} or p.degrees("run_number") == {1}) and len([t for t in p.terms if any(s_ == "run_number" for s_, _ in t)]) == 1
                ctx.check(ok, ar.qual, "suffix = run_number + const (injective)" if ok else f"the file suffix `{norm(a_)[:50]}` is not an injective function of the run index", where=ar, node=getattr(c_, "_src", ar.node))
            else:
                n_auto += 1
                none_known = q_.holds("run_number is None") is True or q_.holds("run_number is not None") is False
                ctx.check(none_known, ar.qual + "#given-run-number", "the automatic number is used only when no run number is given" if none_known else f"the automatic number is used on the path {q_.cond_texts()[:3]} although a run number may be given there (a run index tested by truthiness: run 0 gets the next free number and collides with another run's file)", where=ar, node=getattr(c_, "_src", ar.node))
                ok, why = _largest_number_plus_one(a_)
                ctx.check(ok, ar.qual + "#next-free-number", f"automatic numbering: {why}" if ok else f"automatic numbering does not continue after the largest number in use ({why}): an existing file's number is handed out again", where=ar, node=getattr(c_, "_src", ar.node))
    if not n_run:
        ctx.fail(ar.qual, "no path formats the run number into the file name", where=ar, node=ar.node)
    so = ctx.func(f"{OO}:Outputs.save_to_file")
    gv = [v for s_, v in local_defs(so, "value") if v is not None]
    ok = len(gv) == 1 and norm(gv[0]).startswith("processor.get(valid_name")
    nm = [norm(v) for s_, v in local_defs(so, "name") if v is not None]
    ok = ok and set(nm) == {"f'{prefix}_{valid_name}'", "valid_name"}
    fc = [c for c in calls_in(so.node) if dotted(c.func) == "func"]
    ok = ok and len(fc) >= 1 and all(dotted(kw(c, "name")) == "name" and dotted(kw(c, "run_number")) == "run_number" and norm(kw(c, "current_output_folder")) == "self.current_output_folder" for c in fc)
    # the written data derives from the value read under valid_name (directly, rescaled, or through a named copy)
    from sa.astutil import flow_exprs as _fx

    ok = ok and all(kw(c, "data") is not None and "value" in _fx(so, kw(c, "data"))[0] for c in fc)
    # ... and each format writes the bucket AS READ: nothing that reaches `data=` is carried over from the previous
    # format of the same list (`data = rescale(data)` inside the format loop feeds the rescaled copy to the formats
    # that follow)
    for c in fc:
        lp_ = enclosing_loop(c)
        if lp_ is None or kw(c, "data") is None:
            continue
        flows = _fx(so, kw(c, "data"))[0]
        for s_ in walk_ordered(lp_):
            if isinstance(s_, (ast.Assign, ast.AnnAssign, ast.AugAssign)) and getattr(s_, "value", None) is not None:
                tg_ = s_.targets if isinstance(s_, ast.Assign) else [s_.target]
                for t_ in tg_:
                    if isinstance(t_, ast.Name) and t_.id in flows and (isinstance(s_, ast.AugAssign) or t_.id in names_in(s_.value)):
                        outside = [d_ for d_, _v in local_defs(so, t_.id) if not contains(lp_, d_)]
                        if outside:
                            ok = False
    fd = [v for s_, v in local_defs(so, "func") if v is not None]
    ok = ok and len(fd) == 1 and norm(fd[0]) == "save_methods[out_format]"
    ctx.check(ok, so.qual, "value read under valid_name is written under a name derived from valid_name with the run's number and format" if ok else "Outputs.save_to_file can write a bucket under another bucket's / run's name", where=so, node=so.node)
    # the report of ONE bucket holds that bucket's files only: the per-bucket mapping stored under the bucket's
    # name is created afresh inside the loop over the requested buckets (a mapping shared by all buckets lets a
    # later bucket overwrite an earlier bucket's entry of the same format, and each reports the others' formats)
    for st_, t_ in stores(so.node, lambda t: isinstance(t, ast.Subscript) and dotted(t.value) == "all_filenames"):
        lp_ = enclosing_loop(st_)
        v_ = getattr(st_, "value", None)
        okf = isinstance(lp_, ast.For) and v_ is not None
        if okf and isinstance(v_, ast.Name):
            dfs = [d_ for d_, _ in local_defs(so, v_.id)]
            okf = bool(dfs) and all(contains(lp_, d_) for d_ in dfs)
        ctx.check(okf, so.qual + "#report-per-bucket", "each bucket's report is a mapping created for that bucket" if okf else f"`{norm(st_)[:60]}` stores a mapping created outside the loop over the buckets: all buckets share it (entries of the same format overwrite each other, every bucket reports the other buckets' formats)", where=so, node=st_)


def r4_completeness_and_tables(ctx):
    """build_filenames appends exactly one name per (bucket, format) with no filtering; every format table maps an extension to the writer of that name."""
    bf = ctx.func(f"{OO}:Outputs.build_filenames")
    from sa.astutil import accumulator_comp

    # the accumulate-loop (append in nested loops, or extend with a generator) as ONE comprehension
    rets_ = [r for r in returns_of(bf) if r.value is not None]
    acc_name = dotted(rets_[0].value) if len(rets_) == 1 else None
    comp = accumulator_comp(bf.node, acc_name) if acc_name else None
    if comp is None and len(rets_) == 1 and isinstance(expand(bf, rets_[0].value), ast.ListComp):
        comp = expand(bf, rets_[0].value)
    ok = isinstance(comp, ast.ListComp) and [norm(g_.iter) for g_ in comp.generators] == ["self.save_data_to_file", "file_config.items()", "formats"] and not any(g_.ifs for g_ in comp.generators)
    ctx.check(ok, bf.qual, "one file name per (bucket, format)" if ok else "build_filenames does not emit exactly one name per requested (bucket, format)" + (f": names are produced by {norm(comp)[:90]}" if comp is not None else ""), where=bf, node=bf.node)
    # every written file is reported: accumulated per bucket in a mapping, all entries used
    sf = ctx.func(f"{OU}:save_to_files")
    acc = None
    via_any_setdefault = False
    for c in calls_in(sf.node):
        # d[bucket_name].append(x) on a defaultdict(list)   or   d.setdefault(bucket_name, []).append(x)
        recv = c.func.value if isinstance(c.func, ast.Attribute) and c.func.attr == "append" else None
        via_setdefault = isinstance(recv, ast.Call) and isinstance(recv.func, ast.Attribute) and recv.func.attr == "setdefault" and len(recv.args) == 2 and dotted(recv.args[0]) == "bucket_name" and isinstance(recv.args[1], ast.List) and not recv.args[1].elts
        if (isinstance(recv, ast.Subscript) and dotted(recv.slice) == "bucket_name") or via_setdefault:
            acc = dotted(recv.func.value) if via_setdefault else dotted(recv.value)
            via_any_setdefault = via_any_setdefault or via_setdefault
            lp_ = enclosing_loop(c)
            okp = isinstance(lp_, ast.For) and dotted(lp_.iter) == "filenames" and not enclosing_tests(c, stop=lp_)
            ctx.check(okp, sf.qual + "#report-every-file", "every written file is recorded under its bucket" if okp else "not every written file is recorded for the report", where=sf, node=c)
    if acc is None:
        ctx.fail(sf.qual + "#report-every-file", "written files are not accumulated in a per-bucket mapping (entries of one bucket requested in several places can be lost from the report)", where=sf, node=sf.node)
    else:
        ad = [v for s_, v in local_defs(sf, acc) if v is not None]
        okd = len(ad) == 1 and (norm(ad[0]) in ("defaultdict(list)", "collections.defaultdict(list)") or (via_any_setdefault and norm(ad[0]) in ("{}", "dict()")))
        from sa.astutil import accumulator_comp as _acc_comp

        cands = [d_ for d_ in ast.walk(sf.node) if isinstance(d_, ast.DictComp)]
        for nm_ in sorted({t_.id for st_ in ast.walk(sf.node) if isinstance(st_, (ast.Assign, ast.AnnAssign)) for t_ in (st_.targets if isinstance(st_, ast.Assign) else [st_.target]) if isinstance(t_, ast.Name)}):
            c_ = _acc_comp(sf.node, nm_)  # `d = {}; for k, v in acc.items(): d[k] = ...` is the same comprehension
            if isinstance(c_, ast.DictComp):
                cands.append(c_)
        comp = [d_ for d_ in cands if norm(d_.generators[0].iter) == f"{acc}.items()" and not d_.generators[0].ifs and len(d_.generators) == 1]
        ctx.check(okd and bool(comp), sf.qual + "#report-all-buckets", "the report is built from every accumulated bucket entry" if okd and comp else "the report is not built from all accumulated entries", where=sf, node=comp[0] if comp else sf.node)
    for fn in ctx.repo.all_functions():
        if fn.module.name not in (OU, OO):
            continue
        for c in calls_in(fn.node):
            ext = ctx.repo.external_name(fn.module, c.func) or call_name(c)
            if ext.endswith("groupby") and ext.startswith(("itertools", "groupby")) and c.args:
                src = expand(fn, c.args[0])
                sorted_ok = isinstance(src, ast.Call) and call_name(src) == "sorted" and norm(kw(src, "key")) == norm(kw(c, "key") or (c.args[1] if len(c.args) > 1 else None))
                ctx.check(sorted_ok, f"{fn.qual}#groupby", "groupby over data sorted by the same key" if sorted_ok else "itertools.groupby over unsorted data only merges adjacent entries: non-adjacent entries of one bucket overwrite each other in the report", where=fn, node=c)
    n = 0
    want = {"fits": "to_fits", "hdf": "to_hdf", "npy": "to_npy", "txt": "to_txt", "csv": "to_csv", "png": "to_png", "jpg": "to_jpg", "jpeg": "to_jpg"}
    for f in ctx.repo.all_functions():
        if f.module.name not in (OU, OO):
            continue
        for d in [x for x in walk_local(f.node) if isinstance(x, ast.Dict)]:
            keys = [k.value for k in d.keys if isinstance(k, ast.Constant)]
            if set(keys) >= {"fits", "npy"} and all(isinstance(v, ast.Name) for v in d.values):
                n += 1
                got = {k: v.id for k, v in zip(keys, d.values)}
                ok = all(want.get(k) == v for k, v in got.items())
                ctx.check(ok, f"{f.qual}#format-table", "every extension maps to its own writer" if ok else f"format table maps {[(k, v) for k, v in got.items() if want.get(k) != v]}", where=f, node=d)
    ctx.floor(n, 2)


def r5_one_suffix_per_run(ctx):
    """"Exactly one reported file per bucket, format and run": in a parallel observation the file suffix is a bijection of the run grid (arange(size).reshape(shape) on the grid's own dims), wired unchanged down to build_filenames (shared with C07.R3)."""
    from props.C07 import r3_one_suffix_per_run

    r3_one_suffix_per_run(ctx)


DELETERS = {"unlink", "remove", "rmtree", "rmdir", "removedirs", "truncate", "replace", "move"}


def r6_outputs_never_delete(ctx):
    """"Never overwrites or truncates a file that already exists": nothing in pyxel.outputs removes, replaces or truncates a file - not in an error path either (`except: path.unlink(); raise` after a refused write deletes the very file that made the write fail). The only rename is the log file moved into the fresh run folder."""
    n = 0
    for f in sorted(ctx.repo.all_functions(), key=lambda x: x.qual):
        if not f.module.name.startswith("pyxel.outputs"):
            continue
        n += 1
        bad = []
        for c in calls_in(f.node):
            last = call_name(c).split(".")[-1]
            ext = ctx.repo.external_name(f.module, c.func) or ""
            is_fs = last in DELETERS and (ext.startswith(("os.", "shutil.", "pathlib.")) or (isinstance(c.func, ast.Attribute) and last in ("unlink", "rmdir", "truncate")) or (last in ("rmtree", "removedirs")))
            if last == "replace" and not ext.startswith(("os.", "shutil.")):
                is_fs = False  # str.replace
            if last in ("remove", "move") and not ext.startswith(("os.", "shutil.")):
                is_fs = False  # list.remove
            if is_fs:
                bad.append(c)
        ctx.check(not bad, f.qual + "#never-deletes", "removes / truncates no file" if not bad else f"`{norm(bad[0])[:60]}` removes or truncates a file: an existing output (e.g. the file whose presence made the write fail) is destroyed", where=f, node=bad[0] if bad else f.node)
    ctx.floor(n, 20)


FIXTURES = dict(globals().get("FIXTURES", {}), r6_outputs_never_delete={"dir": "c19_r2", "expect_construct": "#never-deletes"})


RULES = [r6_outputs_never_delete, r5_one_suffix_per_run, r1_fresh_directory, r2_no_clobber_writers, r3_attribution, r4_completeness_and_tables]
