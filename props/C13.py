"""C13 - data buckets only ever hold arrays of the detector's shape and unit type."""

from __future__ import annotations

import ast

from sa.astutil import (
    raise_conditions,
    arg_or_kw,
    call_name,
    calls_in,
    contains,
    enclosing_tests,
    expand,
    kw,
    local_defs,
    names_in,
    raising_ifs,
    returns_of,
    stores,
)
from sa.cfg import defs_reaching
from sa.index import AnalysisError, ClassInfo, FuncInfo, dotted, enclosing_stmt, norm, walk_local, walk_ordered

EXPLANATION = (
    "Who-may-write and validate-then-store analysis of the bucket storage `_array` (ArrayBase family "
    "and Photon): every store anywhere in the package is None, a zeros(shape) literal, an in-place "
    "numpy update, or dominated by the class's validator / inline type-dtype-ndim-shape guards on the "
    "stored value (with negative photon counts clipped); dtype tables are float-only resp. "
    "unsigned-only; every getter handing out `_array` is guarded by a None test that raises; __eq__ "
    "is evaluated abstractly over the four emptiness combinations and over type/shape mismatch."
)
NOT_DECIDED = ["that containers holding equal arrays compare equal (np.array_equal on runtime values)", "NaN / huge values (the property allows them)"]
ASSUMPTIONS = ["numpy in-place operators keep the target's shape and dtype"]

DS = "pyxel.data_structure"
AB = f"{DS}.array:ArrayBase"
PH = f"{DS}.photon:Photon"


def family(ctx) -> list[ClassInfo]:
    ab = ctx.cls(AB)
    return [ab] + ctx.repo.subclasses(ab) + [ctx.cls(PH)]


def _validated_in(ctx, f: FuncInfo, store: ast.stmt, stored: ast.expr) -> tuple[bool, str]:
    """Is the stored value validated on every path to the store (ArrayBase style)?"""
    g = ctx.cfg(f)
    base = stored
    while isinstance(base, ast.Call) and isinstance(base.func, ast.Attribute) and base.func.attr == "copy":
        base = base.func.value
    if not isinstance(base, ast.Name):
        return False, f"stored expression {norm(stored)[:50]} is not the validated value"
    v = base.id
    vcalls = [c for c in calls_in(f.node) if dotted(c.func) == "self._validate" and c.args and dotted(c.args[0]) == v]
    vn = [n for c in vcalls for n in g.nodes if n.ast is not None and n.kind == "stmt" and contains(n.ast, c)]
    ok = bool(vn) and all(g.must_precede(vn, s) for s in g.nodes_of(store))
    if not ok:
        return False, f"`{v}` reaches `_array` without self._validate({v}) on every path"
    # no re-definition of v between validation and store
    for s in g.nodes_of(store):
        for d in defs_reaching(g, v, s):
            if d is not g.entry and not any(g.must_precede([d], x) for x in vn):
                return False, f"`{v}` is re-assigned after validation"
    return True, f"self._validate({v}) dominates the store"


PHOTON_GUARDS = {
    "array#setter": {
        "type": lambda t, v: norm(t) == f"not isinstance({v}, np.ndarray)",
        "dtype": lambda t, v: norm(t) == f"{v}.dtype not in self.TYPE_LIST",
        "ndim": lambda t, v: norm(t) == f"{v}.ndim != 2",
        "shape": lambda t, v: norm(t) == f"{v}.shape != (self._num_rows, self._num_cols)",
    },
    "array_3d#setter": {
        "type": lambda t, v: norm(t) == f"not isinstance({v}, xr.DataArray)",
        "dtype": lambda t, v: norm(t) == f"{v}.dtype not in self.TYPE_LIST",
        "ndim": lambda t, v: norm(t) == f"{v}.ndim != 3",
        "dims": lambda t, v: norm(expand_none(t)) in (f"{v}.dims != expected_dims", f"{v}.dims != ('wavelength', 'y', 'x')"),
        "shape": lambda t, v: "!= (self._num_rows, self._num_cols)" in norm(t),
    },
}


def expand_none(t):
    return t


def _photon_setter_ok(ctx, f: FuncInfo, store: ast.stmt):
    g = ctx.cfg(f)
    v = f.params[1]
    key = f.name + "#setter"
    res = []
    guards = raising_ifs(f.node)
    for gname, pred in PHOTON_GUARDS[key].items():
        found = [i for i in guards if pred(i.test, v) or pred(expand(f, i.test), v)]
        ok = bool(found) and all(g.must_precede([g.node_of(found[0])], s) for s in g.nodes_of(store))
        res.append((gname, ok, found[0] if found else None))
    return res


def r1_who_may_write(ctx):
    """Every store to a bucket's `_array` is None, zeros(self._shape), an in-place update of an already valid array, or a value on which the class's validation has run on every path (ArrayBase._validate, or Photon's inline type/dtype/ndim/shape guards, with negatives clipped); no code outside the container classes writes `_array` of a photon/pixel/signal/image/phase bucket."""
    fam = {c.qual for c in family(ctx)}
    n = 0
    for f in ctx.repo.all_functions():
        for st in walk_local(f.node):
            if not isinstance(st, (ast.Assign, ast.AnnAssign, ast.AugAssign)):
                continue
            tg = st.targets if isinstance(st, ast.Assign) else [st.target]
            for t in tg:
                if not (isinstance(t, ast.Attribute) and t.attr == "_array"):
                    continue
                if isinstance(st, ast.AnnAssign) and st.value is None:
                    continue
                recv_t = ctx.R.expr_type(f, t.value)
                own = f.cls is not None and f.cls.qual in fam and dotted(t.value) == f.params[0] if f.params else False
                if not own:
                    if recv_t.classes & fam:
                        n += 1
                        ctx.fail(f"{f.qual}->_array", f"`{norm(t)}` is written from outside the container class: the bucket's validation is bypassed", where=f, node=st)
                    continue
                n += 1
                c = f"{f.qual}#_array-store"
                if isinstance(st, ast.AugAssign):
                    ctx.ok(c, "in-place update of the stored array (shape and dtype preserved)", where=f, node=st)
                    ctx.trust("numpy in-place operators keep the target's shape and dtype")
                    continue
                val = st.value
                if isinstance(val, ast.Constant) and val.value is None:
                    ctx.ok(c, "stores None (empty)", where=f, node=st)
                    continue
                if isinstance(val, ast.Call) and call_name(val) in ("np.zeros", "numpy.zeros"):
                    sh = arg_or_kw(val, 0, "shape")
                    dt = arg_or_kw(val, 1, "dtype")
                    ok = sh is not None and dotted(sh) in ("self._shape", "self.shape") and (dt is None or norm(dt) in ("float", "np.float64", "np.float32"))
                    ctx.check(ok, c, "zeros of the detector shape, float" if ok else f"stores {norm(val)[:60]}", where=f, node=st)
                    continue
                if f.cls.qual == PH and f.kind == "setter" and f.name in ("array", "array_3d"):
                    base = val
                    while isinstance(base, ast.Call) and isinstance(base.func, ast.Attribute) and base.func.attr == "copy":
                        base = base.func.value
                    okv = dotted(base) == f.params[1]
                    ctx.check(okv, c + "#value", "stores (a copy of) the validated value" if okv else f"stores {norm(val)[:60]} instead of the validated value", where=f, node=st)
                    for gname, ok, node in _photon_setter_ok(ctx, f, st):
                        ctx.check(ok, c + f"#{gname}", f"{gname} guard dominates the store" if ok else f"Photon.{f.name} stores without the {gname} check on every path", where=f, node=node.test if node is not None else st)
                    # negatives clipped
                    v = f.params[1]
                    clips = [(s_, val_) for s_, val_ in local_defs(f, v) if val_ is not None and isinstance(val_, ast.Call) and ("clip" in call_name(val_))]
                    okc = False
                    for s_, val_ in clips:
                        lo = kw(val_, "a_min") or kw(val_, "min") or (val_.args[1] if len(val_.args) > 1 and call_name(val_).startswith("np.") else None)
                        ts = enclosing_tests(s_)
                        tt = norm(expand(f, ts[0][0])) if ts else ""
                        if tt.startswith("bool(") and tt.endswith(")"):
                            tt = tt[5:-1]
                        cond_ok = not ts or (len(ts) == 1 and ts[0][1] and tt in (f"np.any({v} < 0)", f"({v} < 0).any()", f"np.any({v} < 0.0)", f"({v} < 0.0).any()", f"{v}.min() < 0", f"np.min({v}) < 0"))
                        g = ctx.cfg(f)
                        before = all(g.all_paths_pass(g.entry, [sn], g.nodes_of(s_) + [n_ for t_, _ in ts for n_ in g.nodes_of(enclosing_stmt(t_))]) for sn in g.nodes_of(st)) if ts else all(g.must_precede(g.nodes_of(s_), sn) for sn in g.nodes_of(st))
                        if lo is not None and norm(lo) in ("0", "0.0") and cond_ok and before:
                            okc = True
                    ctx.check(okc, c + "#nonnegative", "negative counts are clipped to 0 before the store" if okc else "negative photon counts can be stored (clip missing or bypassable)", where=f, node=clips[0][0] if clips else st)
                    continue
                ok, why = _validated_in(ctx, f, st, val)
                ctx.check(ok, c, why, where=f, node=st)
    ctx.floor(n, 8)
    # Detector-level bucket setters go through the validating properties
    det = ctx.cls("pyxel.detectors.detector:Detector")
    for b in ("photon", "pixel", "signal", "image"):
        st = det.setters.get(b)
        if st is None:
            continue
        bad = [s_ for s_, t in stores(st.node, lambda t: isinstance(t, ast.Attribute) and t.attr.startswith("_"))]
        good = [s_ for s_, t in stores(st.node, lambda t: isinstance(t, ast.Attribute) and t.attr in ("array", "array_2d", "array_3d"))]
        ok = not bad and (bool(good) or b == "photon")
        ctx.check(ok, st.qual, "assigns through the bucket's validating property" if ok else f"Detector.{b} setter writes a private field: {norm(bad[0])[:60] if bad else 'no validated assignment'}", where=st, node=(bad or good or [st.node])[0])


def r2_rejected_assignment_keeps_content(ctx):
    """In every method of a container, nothing that changes the content (self.empty(), a store to _array) can be followed on some path by a validation point that may still raise (a validating property assignment, _validate(...), a raising guard): a rejected assignment must leave the previous content untouched."""
    n = 0
    for ci in family(ctx):
        for f in ci.all_funcs():
            if f.name in ("__init__",) or not f.params:
                continue
            self_ = f.params[0]
            g = ctx.cfg(f)
            mut = []
            val = []
            for node in g.nodes:
                st = node.ast
                if st is None or node.kind not in ("stmt", "test"):
                    continue
                if node.kind == "test":
                    from sa.cfg import ends_in_raise

                    if isinstance(st, ast.If) and ends_in_raise(st.body):
                        val.append(node)
                    continue
                for c in [x for x in ast.walk(st) if isinstance(x, ast.Call)]:
                    d = dotted(c.func)
                    if d == f"{self_}.empty":
                        mut.append(node)
                    if d == f"{self_}._validate":
                        val.append(node)
                if isinstance(st, (ast.Assign, ast.AnnAssign, ast.AugAssign)):
                    tg = st.targets if isinstance(st, ast.Assign) else [st.target]
                    for t in tg:
                        if dotted(t) == f"{self_}._array":
                            mut.append(node)
                        if dotted(t) in (f"{self_}.array", f"{self_}.array_2d", f"{self_}.array_3d"):
                            val.append(node)
            if not mut or not val:
                continue
            n += 1
            bad = None
            for m in mut:
                reach = g.reachable(g._succs(m, "n"), "n")
                hit = [v for v in val if v in reach and v is not m]
                if hit:
                    bad = (m, hit[0])
                    break
            ctx.check(bad is None, f"{f.qual}#keeps-content", "content is only changed after the last point that can reject the value" if bad is None else f"`{norm(bad[0].ast)[:50]}` changes the content before `{norm(bad[1].ast)[:50]}` can still reject the new value: a refused assignment destroys the previous content", where=f, node=bad[0].ast if bad else f.node)
    ctx.floor(n, 4)


FLOATS = {"np.float16", "np.float32", "np.float64", "float"}
UINTS = {"np.uint8", "np.uint16", "np.uint32", "np.uint64"}


def r3_type_tables(ctx):
    """TYPE_LIST of Photon/Pixel/Signal/Phase contains only float16/32/64, Image's only uint8/16/32/64; _validate compares dtype with TYPE_LIST and shape with the detector shape."""
    n = 0
    for ci in family(ctx):
        if ci.qual == AB:
            continue
        node = ctx.repo.find_const(ci, "TYPE_LIST")
        if node is None:
            ctx.fail(ci.qual + ".TYPE_LIST", "no dtype table", where=ci, node=ci.node)
            continue
        names = set()
        for c in ast.walk(node):
            if isinstance(c, ast.Call) and call_name(c) in ("np.dtype", "numpy.dtype") and c.args:
                names.add(norm(c.args[0]))
        n += 1
        want = UINTS if ci.name == "Image" else FLOATS
        ok = bool(names) and names <= want
        ctx.check(ok, ci.qual + ".TYPE_LIST", f"allowed dtypes {sorted(names)}" if ok else f"dtype table {sorted(names) or norm(node)[:60]} allows types outside {sorted(want)}", where=ci, node=node)
    ctx.floor(n, 5)
    v = ctx.func(f"{AB}._validate")
    p = v.params[1]
    # canonical rejection conditions: (test, polarity-at-the-raise); `if bad: raise`, `if good: return`
    # + raise, and checks moved into (inlined) helper methods all reduce to these
    want = {"type": (f"isinstance({p}, np.ndarray)", False), "dtype": (f"{p}.dtype in self.TYPE_LIST", False), "shape": (f"{p}.shape == self._shape", False)}
    rcs = raise_conditions(v)
    for k, (t, pol) in want.items():
        hits = [(r_, conds) for r_, conds in rcs if any(norm(expand(v, c)) == t and cp == pol for c, cp in conds)]
        ok = bool(hits)
        ctx.check(ok, v.qual + f"#{k}", f"raises when not ({t})" if ok else f"_validate no longer rejects `not ({t})`", where=v, node=hits[0][0] if hits else v.node)
        for r_, conds in hits:
            # the rejection must not depend on anything else (an extra condition would let bad arrays through)
            extra = [(norm(expand(v, c)), cp) for c, cp in conds if not (norm(expand(v, c)) == t and cp == pol)]
            # earlier checks that passed are implied (e.g. the isinstance test holding is known)
            extra = [(tx, cp) for tx, cp in extra if (tx, not cp) not in want.values()]
            if extra:
                ctx.fail(v.qual + "#conditional", f"validation guard `not ({t})` is conditional on {extra}", where=v, node=r_)
    # subclasses do not override _validate / the array setter with something weaker
    for ci in ctx.repo.subclasses(ctx.cls(AB)):
        for m in ("_validate",):
            if m in ci.methods:
                ctx.fail(ci.qual + f".{m}", "unreviewed override of the validator", where=ci, node=ci.methods[m].node)
        if "array" in ci.setters:
            ctx.fail(ci.qual + ".array#setter", "unreviewed override of the validating setter", where=ci, node=ci.setters["array"].node)


def r4_reading_empty_raises(ctx):
    """Every accessor that hands out `_array` (array, array_2d, array_3d, __array__, dtype) is guarded by a None test ending in raise on the path to the return; none returns a stale value."""
    targets = [
        (AB, "array", "getter"),
        (AB, "__array__", "method"),
        (AB, "dtype", "getter"),
        (PH, "array", "getter"),
        (PH, "array_2d", "getter"),
        (PH, "array_3d", "getter"),
        (PH, "__array__", "method"),
        (PH, "dtype", "getter"),
    ]
    for cq, name, kind in targets:
        ci = ctx.cls(cq)
        f = ci.getters.get(name) if kind == "getter" else ci.methods.get(name)
        if f is None:
            raise AnalysisError(f"{cq}.{name} not found")
        g = ctx.cfg(f)
        rets = [r for r in returns_of(f) if r.value is not None]
        if not rets:
            ctx.fail(f.qual, "returns nothing", where=f, node=f.node)
            continue
        for r in rets:
            uses_private = "self._array" in norm(r.value)
            via_guarded = any(x in norm(r.value) for x in ("self.array", "self.array_2d", "self.array_3d")) and not uses_private
            if via_guarded:
                ctx.ok(f.qual, "reads through a guarded accessor", where=f, node=r)
                continue
            if not uses_private:
                ctx.ok(f.qual, "does not hand out the storage", where=f, node=r)
                continue
            # where the storage is handed out it is KNOWN to be filled - whether the empty case was rejected by
            # a guard clause in front (`if empty: raise`) or the return sits under the positive test
            from sa.astutil import knows

            known = enclosing_tests(r, rejections=True)
            ok = any(knows(known, t_, True) for t_ in ("self._array is not None", "_is_array_initialized(self._array)", "isinstance(self._array, np.ndarray)"))
            ctx.check(ok, f.qual, "empty container raises before the storage is returned" if ok else "an empty container is read without an error (None / stale data is returned)", where=f, node=r)


def _abstract_eq(ctx, f: FuncInfo, se: bool, oe: bool, same_type: bool = True, same_shape: bool = True):
    """Abstractly evaluate __eq__ for (self empty?, other empty?). Returns True/False/'U'/'RAISE'."""
    other = f.params[1]
    env: dict[str, object] = {}
    NONE, ARR_S, ARR_O = "NONE", "ARR_S", "ARR_O"

    alias: dict[str, object] = {}  # locals that hold one of the two storages (`this = self._array`)

    def val(e):
        d = dotted(e)
        if isinstance(e, ast.Name) and e.id in alias:
            return alias[e.id]
        if d == "self._array":
            return NONE if se else ARR_S
        if d == f"{other}._array":
            return NONE if oe else ARR_O
        if d in ("self.array", "self.array_2d", "self.array_3d"):
            if se:
                raise _Raise()
            return ARR_S
        if d in (f"{other}.array", f"{other}.array_2d", f"{other}.array_3d"):
            if oe:
                raise _Raise()
            return ARR_O
        if isinstance(e, ast.Constant) and e.value is None:
            return NONE
        return None

    def ev(e):
        if isinstance(e, ast.Constant) and isinstance(e.value, bool):
            return e.value
        if isinstance(e, ast.Name) and e.id in env:
            return env[e.id]
        if isinstance(e, ast.UnaryOp) and isinstance(e.op, ast.Not):
            x = ev(e.operand)
            return "U" if x == "U" else (not x)
        if isinstance(e, ast.BoolOp):
            res = None
            for v_ in e.values:
                x = ev(v_)
                if isinstance(e.op, ast.And):
                    if x is False:
                        return False
                    res = "U" if (x == "U" or res == "U") else True
                else:
                    if x is True:
                        return True
                    res = "U" if (x == "U" or res == "U") else False
            return res
        if isinstance(e, ast.Call) and call_name(e) == "bool" and e.args:
            return ev(e.args[0])
        if isinstance(e, ast.Call) and call_name(e) == "isinstance" and len(e.args) == 2:
            tgt = val(e.args[0])
            kind = norm(e.args[1])
            if tgt is not None:
                if tgt == NONE:
                    return False
                return kind in ("np.ndarray", "numpy.ndarray")
            if dotted(e.args[0]) == other:
                return same_type
            return "U"
        if isinstance(e, ast.Call) and call_name(e) in ("np.array_equal", "numpy.array_equal", "np.allclose"):
            a, b = (val(x) for x in e.args[:2])
            if a == NONE or b == NONE:
                return False
            return "U"
        if isinstance(e, ast.Call) and isinstance(e.func, ast.Attribute) and e.func.attr == "equals":
            a = val(e.func.value)
            b = val(e.args[0]) if e.args else None
            if a == NONE:
                raise _Raise()
            if b == NONE:
                return False
            return "U"
        if isinstance(e, ast.Compare):
            txt = norm(e)
            if "type(" in txt:
                neg = isinstance(e.ops[0], (ast.IsNot, ast.NotEq))
                return (not same_type) if neg else same_type
            if any(k in txt for k in ("shape", "_num_rows", "_num_cols")):
                neg = isinstance(e.ops[0], (ast.IsNot, ast.NotEq))
                return (not same_shape) if neg else same_shape
            terms = [e.left] + list(e.comparators)
            vals = [val(t) for t in terms]
            if all(v is not None for v in vals):
                res = True
                for (a, b), op in zip(zip(vals, vals[1:]), e.ops):
                    if isinstance(op, (ast.Is, ast.Eq)):
                        r_ = (a == b == NONE) if (a == NONE or b == NONE) else (a == b)
                    elif isinstance(op, (ast.IsNot, ast.NotEq)):
                        r_ = not ((a == b == NONE) if (a == NONE or b == NONE) else (a == b))
                    else:
                        return "U"
                    res = res and r_
                return res
            return "U"
        v_ = val(e)
        if v_ is not None:
            return v_ != NONE  # truthiness of storage is not used
        return "U"

    def run(stmts):
        for st in stmts:
            if isinstance(st, (ast.Import, ast.ImportFrom, ast.Expr, ast.Pass)):
                continue
            if isinstance(st, (ast.Assign, ast.AnnAssign)) and isinstance((st.targets[0] if isinstance(st, ast.Assign) else st.target), ast.Name):
                nm = (st.targets[0] if isinstance(st, ast.Assign) else st.target).id
                if getattr(st, "value", None) is None:
                    continue
                sv = val(st.value)
                if sv is not None:
                    alias[nm] = sv
                    env.pop(nm, None)
                    continue
                alias.pop(nm, None)
                env[nm] = ev(st.value)
                continue
            if isinstance(st, ast.If):
                t = ev(st.test)
                if t == "U":
                    return "U"
                r = run(st.body if t else st.orelse)
                if r is not None:
                    return r
                continue
            if isinstance(st, ast.Return):
                return ev(st.value)
            return "U"
        return None

    try:
        return run(f.node.body)
    except _Raise:
        return "RAISE"


class _Raise(Exception):
    pass


def r5_equality(ctx):
    """__eq__ of the array containers and of Photon, evaluated abstractly: both empty -> equal; exactly one empty -> not equal (in either order, without raising); both filled -> decided by the array comparison; different type or different detector shape -> not equal."""
    for q in (f"{AB}.__eq__", f"{PH}.__eq__"):
        f = ctx.func(q)
        cases = [
            ("both empty", dict(se=True, oe=True), True),
            ("left empty, right filled", dict(se=True, oe=False), False),
            ("left filled, right empty", dict(se=False, oe=True), False),
            ("both filled", dict(se=False, oe=False), "U"),
            ("different kind", dict(se=True, oe=True, same_type=False), False),
            ("different shape, both empty", dict(se=True, oe=True, same_shape=False), False),
            ("different shape, both filled", dict(se=False, oe=False, same_shape=False), False),
        ]
        for label, kwargs, want in cases:
            got = _abstract_eq(ctx, f, **kwargs)
            ok = got == want or (label == "different shape, both filled" and got in (False, "U"))
            ctx.check(ok, f"{q}#{label.replace(' ', '-').replace(',', '')}", f"{label}: {'array comparison' if want == 'U' else want}" if ok else f"{label}: evaluates to {'an exception' if got == 'RAISE' else got}, expected {'the array comparison' if want == 'U' else want}", where=f, node=f.node)
    # "hold equal arrays": the comparison of two filled containers is exact, element by element - a
    # tolerant comparator (allclose / isclose / approx / identical up to attributes) calls different
    # contents equal and is not even symmetric
    EXACT = ("array_equal", "equals", "array_equiv")
    TOLERANT = ("allclose", "isclose", "assert_allclose", "approx", "assert_array_almost_equal", "testing")
    for q in (f"{AB}.__eq__", f"{PH}.__eq__"):
        f = ctx.func(q)
        cmp_calls = [c for c in calls_in(f.node) if {"self._array", "other._array"} <= {dotted(n) for n in ast.walk(expand(f, c, depth=2)) if isinstance(n, ast.Attribute)}]
        tol = [c for c in cmp_calls if call_name(c).split(".")[-1] in TOLERANT or any(k.arg in ("rtol", "atol", "rel", "abs", "decimal") for k in c.keywords)]
        exact = [c for c in cmp_calls if call_name(c).split(".")[-1] in EXACT] + [n for n in ast.walk(f.node) if isinstance(n, ast.Compare) and len(n.ops) == 1 and isinstance(n.ops[0], ast.Eq) and {dotted(n.left), dotted(n.comparators[0])} == {"self._array", "other._array"}]
        ok = not tol and bool(exact)
        ctx.check(ok, f"{q}#exact", "filled containers are compared exactly, element by element" if ok else (f"filled containers are compared with `{norm(tol[0])[:60]}`: arrays that differ within a tolerance compare equal (and a == b can differ from b == a)" if tol else "no exact comparison of the two arrays found"), where=f, node=(tol or exact or [f.node])[0])
    # subclasses keep the base __eq__
    for ci in ctx.repo.subclasses(ctx.cls(AB)):
        if "__eq__" in ci.methods:
            ctx.fail(ci.qual + ".__eq__", "unreviewed override of __eq__", where=ci, node=ci.methods["__eq__"].node)


def r6_reset_really_empties(ctx):
    """"Reading an empty container raises instead of returning stale data": Detector.empty(reset) empties photon, charge, signal and image on every path whatever `reset` is (only the pixel bucket depends on it), and each bucket's empty() really drops its array (shared with C02.R5)."""
    from props.C02 import r5_what_empty_empties

    r5_what_empty_empties(ctx)


RULES = [r6_reset_really_empties, r1_who_may_write, r2_rejected_assignment_keeps_content, r3_type_tables, r4_reading_empty_raises, r5_equality]
