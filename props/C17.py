"""C17 - splitting an exposure into more readouts does not change collected charge."""

from __future__ import annotations

import ast

from sa.astutil import arg_or_kw, call_name, calls_in, contains, enclosing_tests, expand, flow_closure, kw, local_defs, names_in, returns_of, stores
from sa.cfg import defs_reaching
from sa.index import AnalysisError, FuncInfo, dotted, enclosing_stmt, norm, walk_ordered
from sa.poly import Poly, to_poly
from sa.symexec import SymExec

EXPLANATION = (
    "Degree analysis of the flux-integrating models in the polynomial domain: the value each of them "
    "deposits is homogeneous of degree exactly 1 in detector.time_step (no constant term, no higher "
    "power) with time_scale only as a divisor, everything it is multiplied with is independent of the "
    "clock, and the deposit is additive (+= / add_charge_array); dark_current hands "
    "Quantity(detector.time_step) to the time_step slot of compute_dark_current, whose noise-free "
    "path is degree 1 in it. Together with the clock rules of C02 (steps telescope to end - start, "
    "non-destructive mode only skips the pixel reset) additivity over a partition follows."
)
NOT_DECIDED = ["floating-point equality of the sums", "models outside the property's list (stochastic or non-linear ones)"]
ASSUMPTIONS = ["C02.R4-R6 (clock algebra and retention) hold - they are re-evaluated here"]

PC = "pyxel.models.photon_collection"
CG = "pyxel.models.charge_generation"
MODELS = [
    (f"{PC}.illumination:illumination", "photon"),
    (f"{PC}.load_image:load_image", "photon"),
    (f"{PC}.stripe_pattern:stripe_pattern", "photon"),
    (f"{CG}.load_charge:load_charge", "charge"),
]
TS = "detector.time_step"


def _deposits(f, bucket):
    out = []
    for n in walk_ordered(f.node):
        if bucket == "photon":
            if isinstance(n, ast.AugAssign) and dotted(n.target) in ("detector.photon", "detector.photon.array", "detector.photon.array_2d"):
                out.append(("aug", n, n.value, n.op))
            if isinstance(n, ast.Assign) and dotted(n.targets[0]) in ("detector.photon", "detector.photon.array", "detector.photon.array_2d", "detector.photon.array_3d"):
                out.append(("assign", n, n.value, None))
        else:
            if isinstance(n, ast.Expr) and isinstance(n.value, ast.Call) and dotted(n.value.func) == "detector.charge.add_charge_array":
                out.append(("add", n, n.value.args[0] if n.value.args else kw(n.value, "array"), ast.Add()))
            if isinstance(n, (ast.Assign, ast.AugAssign)):
                t = n.targets[0] if isinstance(n, ast.Assign) else n.target
                if (dotted(t) or "").startswith("detector.charge"):
                    out.append(("assign" if isinstance(n, ast.Assign) else "aug", n, n.value, getattr(n, "op", None)))
    return out


def _degree_of_deposit(ctx, f, stmt, value):
    """Degrees of detector.time_step / time_scale in the deposited value, following the reaching
    definitions of the deposited name (the previous value of a re-assigned name is a symbol that must
    itself be clock-independent)."""
    g = ctx.cfg(f)
    nodes = g.nodes_of(stmt)
    results = []
    if not isinstance(value, ast.Name):
        p = to_poly(expand(f, value))
        return [(p, set())]
    for n in nodes:
        for d in defs_reaching(g, value.id, n):
            if d is g.entry:
                results.append((Poly.sym(value.id), set()))
                continue
            v = getattr(d.ast, "value", None)
            if v is None:
                results.append((Poly.sym(value.id), set()))
                continue
            p = to_poly(expand(f, v))
            # other definitions feeding the previous value
            prev = set()
            for s_, val_ in local_defs(f, value.id):
                if s_ is not d.ast and val_ is not None:
                    prev |= flow_closure(f, val_) | {dotted(a) for a in ast.walk(val_) if isinstance(a, ast.Attribute) and dotted(a)}
            results.append((p, prev))
    return results


def r1_linear_in_time_step(ctx):
    """The value deposited by illumination, load_image, stripe_pattern and load_charge has degree exactly 1 in detector.time_step in every term (no term of degree 0 or 2), time_scale appears only as a divisor, and the factor it multiplies does not depend on the clock; compute_dark_current's noise-free path is degree 1 in its time_step, which dark_current fills with Quantity(detector.time_step, 's')."""
    n = 0
    for q, bucket in MODELS:
        f = ctx.func(q)
        deps = _deposits(f, bucket)
        if len(deps) != 1:
            ctx.fail(q + "#deposit", f"{len(deps)} deposit statements (expected one)", where=f, node=deps[1][1] if len(deps) > 1 else f.node)
            continue
        kind, stmt, value, op = deps[0]
        n += 1
        for p, prev in _degree_of_deposit(ctx, f, stmt, value):
            degs = p.degrees(TS)
            ok = degs == {1}
            ctx.check(ok, q + "#degree", "every term is linear in detector.time_step" if ok else f"deposited value has degree(s) {sorted(degs)} in detector.time_step (normal form {p!r}): the charge collected depends on how the exposure is split", where=f, node=stmt, facts={"normal_form": repr(p)[:200]})
            if "time_scale" in f.params:
                dsc = p.degrees("time_scale")
                oks = dsc == {-1}
                ctx.check(oks, q + "#time-scale", "time_scale divides every term" if oks else f"time_scale enters with degree(s) {sorted(dsc)}", where=f, node=stmt)
            clock = {x for x in prev if x and (x.endswith("time_step") or x in ("detector.time", "detector.absolute_time", "detector.pipeline_count", "detector.start_time") or x.endswith(".times") or x.endswith(".steps"))}
            other = {s for s in p.symbols() if any(k in s for k in ("detector.time", "absolute_time", "pipeline_count")) and s != TS}
            okc = not clock and not other
            ctx.check(okc, q + "#clock-free-factor", "the flux factor does not depend on the clock" if okc else f"the factor multiplied by the time step itself depends on {sorted(clock | other)}", where=f, node=stmt)
    ctx.floor(n, 4)
    cd = ctx.func(f"{CG}.dark_current:compute_dark_current")
    sx = SymExec(ctx)

    def select(st):
        t = norm(st.test)
        if t in ("temporal_noise", "spatial_noise_factor is not None") or "isinf" in t:
            return False
        return None

    got = sx.function(cd, {}, select=select)
    if got is None:
        raise AnalysisError("compute_dark_current: noise-free path outside the evaluator")
    degs = got.degrees("time_step")
    ok = degs == {1}
    ctx.check(ok, cd.qual + "#degree", "noise-free dark signal is linear in time_step" if ok else f"noise-free dark signal has degree(s) {sorted(degs)} in time_step ({got!r})", where=cd, node=cd.node, facts={"normal_form": repr(got)[:200]})
    dc = ctx.func(f"{CG}.dark_current:dark_current")
    cs = [c for c in calls_in(dc.node) if call_name(c) == "compute_dark_current"]
    ok = len(cs) == 1 and norm(expand(dc, kw(cs[0], "time_step"))) in ("Quantity(detector.time_step, unit='s')", "Quantity(detector.time_step, 's')")
    ctx.check(ok, dc.qual + "#time-step-arg", "time_step = Quantity(detector.time_step, 's')" if ok else f"compute_dark_current receives time_step={norm(expand(dc, kw(cs[0], 'time_step'))) if cs else None}", where=dc, node=cs[0] if cs else dc.node)
    dep = _deposits(dc, "charge")
    ok = len(dep) == 1 and dep[0][0] == "add" and "dark_current_2d" in names_in(dep[0][2])
    ctx.check(ok, dc.qual + "#deposit", "adds the computed dark charge" if ok else "dark current is not added to the charge bucket", where=dc, node=dep[0][1] if dep else dc.node)
    sd = ctx.func(f"{CG}.simple_dark_current:calculate_simple_dark_current")
    md = [v for s_, v in local_defs(sd, "mean_dark_charge") if v is not None]
    ok = len(md) == 1 and to_poly(md[0]).degrees("exposure_time") == {1}
    sm = ctx.func(f"{CG}.simple_dark_current:simple_dark_current")
    cs = [c for c in calls_in(sm.node) if call_name(c) == "calculate_simple_dark_current"]
    ok = ok and len(cs) == 1 and norm(expand(sm, kw(cs[0], "exposure_time"))) == TS
    ctx.check(ok, sm.qual + "#poisson-mean", "Poisson mean = rate * detector.time_step (informational: the model is stochastic)" if ok else "the Poisson mean of simple_dark_current is not rate * time_step", where=sm, node=cs[0] if cs else sm.node)


def r2_additive_deposit(ctx):
    """The flux-integrating models add to the bucket (`detector.photon += x`, `charge.add_charge_array(x)`), unconditionally, instead of overwriting it."""
    for q, bucket in MODELS + [(f"{CG}.dark_current:dark_current", "charge")]:
        f = ctx.func(q)
        deps = _deposits(f, bucket)
        for kind, stmt, value, op in deps:
            ok = kind in ("aug", "add") and isinstance(op, ast.Add)
            ctx.check(ok, q + "#additive", "additive deposit" if ok else f"the bucket is overwritten / not added to: `{norm(stmt)[:60]}` (charge of earlier models or steps is lost)", where=f, node=stmt)
            ts = enclosing_tests(stmt)
            ctx.check(not ts, q + "#unconditional", "deposit happens on every call" if not ts else f"deposit only under {[(norm(t), p) for t, p in ts]}", where=f, node=stmt)
        if not deps:
            ctx.fail(q + "#additive", "no deposit found", where=f, node=f.node)


def r3_clock_and_retention(ctx):
    """Steps are np.diff of the times with the start time prepended (they telescope to end - start), each step sees its own time_step, and non-destructive mode skips only the pixel reset in both exposure runners, and every exposure installs its own start time and times (re-evaluation of C02.R1, R4, R5, R6, R7 on the current tree)."""
    from props import C02

    C02.r4_step_loop(ctx)
    C02.r5_what_empty_empties(ctx)
    C02.r6_clock_algebra(ctx)
    # the steps are those of THIS exposure (set_readout installs the given start time and times on every
    # call), and the legacy runner keeps the pixels exactly like its sibling
    C02.r1_reject_before_model(ctx)
    C02.r7_legacy_runner_agrees(ctx)


def _memoised(ctx, f) -> bool:
    for dn in f.node.decorator_list:
        head = dn.func if isinstance(dn, ast.Call) else dn
        ext = ctx.repo.external_name(f.module, head) or norm(head)
        if ext.split(".")[-1] in ("lru_cache", "cache", "cached", "memoize"):
            return True
    return False


def r4_no_inplace_on_memoised(ctx):
    """A model must not scale, in place, an array handed out by a memoised function: the cached array is shared between calls, so every readout (and every later run in the process) would compound the time-step factor. Memoised functions that mark their result read-only are exempt (an in-place write fails loudly)."""
    from sa.index import FuncInfo

    memo = {}
    for f in ctx.repo.all_functions():
        if _memoised(ctx, f):
            ro = "setflags(write=False)" in norm(f.node)
            memo[f.qual] = ro
    # one level of wrappers returning the memoised value
    for f in ctx.repo.all_functions():
        rets = [r for r in returns_of(f) if r.value is not None and isinstance(r.value, ast.Call)]
        for r in rets:
            for cal in ctx.R.resolve_call(f, r.value):
                if isinstance(cal, FuncInfo) and cal.qual in memo and f.qual not in memo:
                    memo[f.qual] = memo[cal.qual]
    n = 0
    for f in sorted(ctx.repo.all_functions(), key=lambda x: x.qual):
        if not f.module.name.startswith("pyxel.models"):
            continue
        aliases = {}
        for st in walk_ordered(f.node):
            if isinstance(st, (ast.Assign, ast.AnnAssign)) and isinstance(getattr(st, "value", None), ast.Call):
                t = st.targets[0] if isinstance(st, ast.Assign) else st.target
                if isinstance(t, ast.Name):
                    for cal in ctx.R.resolve_call(f, st.value):
                        if isinstance(cal, FuncInfo) and cal.qual in memo:
                            aliases[t.id] = cal
            # plain aliasing  b = a
            if isinstance(st, ast.Assign) and isinstance(st.value, ast.Name) and st.value.id in aliases and isinstance(st.targets[0], ast.Name):
                aliases[st.targets[0].id] = aliases[st.value.id]
        for name, cal in aliases.items():
            n += 1
            muts = []
            for st in walk_ordered(f.node):
                if isinstance(st, ast.AugAssign) and ((isinstance(st.target, ast.Name) and st.target.id == name) or (isinstance(st.target, ast.Subscript) and dotted(st.target.value) == name)):
                    muts.append(st)
                if isinstance(st, ast.Assign) and isinstance(st.targets[0], ast.Subscript) and dotted(st.targets[0].value) == name:
                    muts.append(st)
                if isinstance(st, ast.Expr) and isinstance(st.value, ast.Call):
                    o = kw(st.value, "out")
                    if o is not None and dotted(o) == name:
                        muts.append(st)
            ok = not muts or memo[cal.qual]
            ctx.check(ok, f"{f.qual}#{name}<-{cal.name}", f"result of memoised {cal.name} is not modified in place" + (" (it is read-only)" if memo[cal.qual] and muts else "") if ok else f"`{norm(muts[0])[:60]}` modifies, in place, the array cached by {cal.name}: the factor compounds over readouts and runs", where=f, node=muts[0] if muts else f.node)
    ctx.note(f"memoised value producers: {sorted(memo)}; {n} use sites in models")


def r5_expectation_conversion_linear(ctx):
    """Expectation-value photo-conversion is linear in the photons of each interval: apply_qe without sampling returns exactly photons * qe (shared with C15.R4)."""
    from props.C15 import apply_qe_laws

    apply_qe_laws(ctx)


def r6_every_interval_is_integrated_from_its_own_start(ctx):
    """"Depends only on its start and end times": the readout a run actually uses keeps the declared start time and mode when it is derived from the user's readout (Readout.replace carries every constructor setting; shared with C06.R5), and what a flux-integrating model deposits reaches the charge container whatever its size - add_charge_array adds the array as given, with no "too small to matter" shortcut (shared with C14.R3)."""
    from props.C06 import r5_readout_replace_complete
    from props.C14 import r3_representation_switch

    r5_readout_replace_complete(ctx)
    r3_representation_switch(ctx)


MUTATORS_ = {"append", "extend", "insert", "pop", "remove", "clear", "sort", "reverse", "update", "setdefault", "popitem", "fill", "resize", "itemset", "put"}


def _inplace_writes(fn, names: set) -> list:
    """Statements of ``fn`` that change, in place, an object named in ``names`` (or a plain alias of it)."""
    names = set(names)
    grew = True
    while grew:
        grew = False
        for st in walk_ordered(fn.node):
            if isinstance(st, (ast.Assign, ast.AnnAssign)) and isinstance(getattr(st, "value", None), ast.Name) and st.value.id in names:
                for t in (st.targets if isinstance(st, ast.Assign) else [st.target]):
                    if isinstance(t, ast.Name) and t.id not in names:
                        names.add(t.id)
                        grew = True
    out = []
    for st in walk_ordered(fn.node):
        if isinstance(st, (ast.Assign, ast.AugAssign, ast.AnnAssign)):
            for t in (st.targets if isinstance(st, ast.Assign) else [st.target]):
                if isinstance(t, ast.Subscript) and isinstance(t.value, ast.Name) and t.value.id in names:
                    out.append(st)
                if isinstance(st, ast.AugAssign) and isinstance(t, ast.Name) and t.id in names:
                    out.append(st)  # `p *= 2` on a list / array argument changes the caller's object
        if isinstance(st, ast.Expr) and isinstance(st.value, ast.Call) and isinstance(st.value.func, ast.Attribute) and st.value.func.attr in MUTATORS_ and isinstance(st.value.func.value, ast.Name) and st.value.func.value.id in names:
            out.append(st)
    return out


def r7_arguments_are_not_consumed(ctx):
    """A model runs once per readout with the SAME argument objects (the lists / arrays of its configuration): a flux-integrating model, or a helper of its module that is handed such an argument, must not change it in place (`size[0] /= 2`, `values.sort()`), otherwise every readout sees what the previous one left and the collected charge depends on the number of readouts."""
    n = 0
    for q, _bucket in MODELS:
        f = ctx.func(q)
        user_params = set(f.params[1:])
        n += 1
        bad = []
        seen_ = set()

        def visit(fn, params_, depth):
            if (fn.qual, tuple(sorted(params_))) in seen_ or depth > 3 or not params_:
                return
            seen_.add((fn.qual, tuple(sorted(params_))))
            bad.extend((fn, st) for st in _inplace_writes(fn, params_))
            for cs in ctx.R.call_sites(fn):
                if not isinstance(cs.node, ast.Call):
                    continue
                for cal in cs.callees:
                    if not isinstance(cal, FuncInfo) or cal.module is not fn.module or cal is fn:
                        continue
                    handed = {pn for pn in cal.params if (lambda a: a is not None and isinstance(a, ast.Name) and a.id in params_)(cs.arg_for(cal, pn))}
                    visit(cal, handed, depth + 1)

        visit(f, user_params, 0)
        ctx.check(not bad, f.qual + "#arguments-kept", "the configured argument objects are only read" if not bad else f"`{norm(bad[0][1])[:60]}` in {bad[0][0].name} changes a configured argument in place: the next readout (and every later run) starts from the changed value", where=bad[0][0] if bad else f, node=bad[0][1] if bad else f.node)
    ctx.floor(n, 4)


RULES = [r7_arguments_are_not_consumed, r6_every_interval_is_integrated_from_its_own_start, r5_expectation_conversion_linear, r4_no_inplace_on_memoised, r1_linear_in_time_step, r2_additive_deposit, r3_clock_and_retention]
