"""C06 - parameter runs are isolated from each other and from the caller's objects."""

from __future__ import annotations

import ast

from sa.astutil import (
    loops_in,
    arg_or_kw,
    call_name,
    calls_in,
    contains,
    expand,
    kw,
    local_defs,
    names_in,
    returns_of,
    stmt_calls,
    stores,
)
from sa.cfg import defs_reaching
from sa.index import AnalysisError, ClassInfo, FuncInfo, dotted, enclosing_stmt, norm, walk_ordered

EXPLANATION = (
    "Ownership/aliasing analysis of the per-run processor: every Processor.set on a per-run path "
    "acts on a variable whose reaching definition is copy.deepcopy(<input>), every non-exposure "
    "call of exposure.run_pipeline is handed the result of such a copy-producing function, the "
    "custom __deepcopy__ hooks copy every constructor slot, no other copy hook exists, and the "
    "functions that receive the caller's processor/readout/outputs never store into them."
)
NOT_DECIDED = ["that a run's result equals the standalone exposure's result (value level)", "state hidden inside third-party objects"]
ASSUMPTIONS = ["copy.deepcopy shares no mutable state with its argument; copy.copy / aliasing does"]

PROC = "pyxel.pipelines.processor:Processor"
RUN = "pyxel.exposure.exposure:run_pipeline"
COPY_PRODUCERS = {
    "pyxel.observation.misc:create_new_processor": "processor",
    f"{PROC}.replace": "self",
    "pyxel.calibration.fitting_datatree:ModelFittingDataTree.update_processor": "processor",
}
DEPRECATED = {"pyxel.observation.deprecated", "pyxel.calibration.fitting", "pyxel.calibration.archipelago"}


def _is_deepcopy(ctx, f: FuncInfo, e: ast.expr) -> ast.expr | None:
    """If e is copy.deepcopy(x[, memo]) - directly or through single-assignment locals - return x."""
    e = expand(f, e)
    if isinstance(e, ast.Call) and e.args:
        ext = ctx.repo.external_name(f.module, e.func) or ""
        if ext == "copy.deepcopy":
            return e.args[0]
    return None


def _defs_are_deepcopy(ctx, f: FuncInfo, name: str, at_stmt: ast.AST, allowed_src: set[str]):
    g = ctx.cfg(f)
    nodes = [n for n in g.nodes if n.ast is not None and n.kind in ("stmt", "with") and contains(n.ast, at_stmt)]
    if not nodes:
        raise AnalysisError(f"{f.qual}: statement not in CFG")
    reasons = []
    ok = True
    for n in nodes:
        for d in defs_reaching(g, name, n):
            if d is g.entry:
                ok = False
                reasons.append(f"`{name}` may be the incoming object itself (no definition reaches this use)")
                continue
            val = getattr(d.ast, "value", None) if isinstance(d.ast, (ast.Assign, ast.AnnAssign)) else None
            src = _is_deepcopy(ctx, f, val) if val is not None else None
            if src is None:
                ok = False
                reasons.append(f"`{name}` is defined by `{norm(d.ast)[:70]}` which is not copy.deepcopy(...)")
            elif dotted(src) not in allowed_src:
                ok = False
                reasons.append(f"deep copy of {norm(src)} instead of {sorted(allowed_src)}")
    return ok, "; ".join(dict.fromkeys(reasons))


def r1_fresh_copy_per_run(ctx):
    """Every Processor.set outside Processor itself and outside the user's explicit overrides has as receiver a local whose every reaching definition is copy.deepcopy(<the incoming processor>); the copy-producing functions return that copy."""
    sites = ctx.R.sites_calling(f"{PROC}.set")
    n = 0
    for s in sites:
        f = s.caller
        if f.module.name in DEPRECATED:
            continue
        if f.qual == "pyxel.run:apply_overrides":
            ctx.ok(f"{f.qual}->Processor.set", "exempt: the user's own explicit request to change settings, outside the 'each run' quantifier", where=f, node=s.node)
            continue
        n += 1
        call = s.node
        recv = call.func.value if isinstance(call.func, ast.Attribute) else None
        if not isinstance(recv, ast.Name):
            ctx.fail(f"{f.qual}->Processor.set", f"receiver {norm(recv)} is not a local copy", where=f, node=call)
            continue
        allowed = {p for p in f.params if p in ("processor", "self")} if f.cls is None or f.qual != f"{PROC}.replace" else {"self"}
        allowed = allowed or {"processor"}
        if f.qual.endswith("update_processor") or f.qual.endswith("build_processors") or f.qual.endswith("create_new_processor"):
            allowed = {"processor"}
        ok, why = _defs_are_deepcopy(ctx, f, recv.id, call, allowed)
        ctx.check(ok, f"{f.qual}->Processor.set", f"`{recv.id}` is copy.deepcopy({'/'.join(sorted(allowed))}) on every path" if ok else why, where=f, node=call)
    ctx.floor(n, 4)
    for q, src in COPY_PRODUCERS.items():
        f = ctx.func(q)
        rets = [r for r in returns_of(f) if r.value is not None]
        if not rets:
            ctx.fail(q + "#return", "returns nothing", where=f, node=f.node)
            continue
        for r in rets:
            rv_ = expand(f, r.value)
            if isinstance(rv_, ast.Call) and isinstance(rv_.func, ast.Attribute) and dotted(rv_.func.value) == src and any(getattr(c_, "qual", "") in COPY_PRODUCERS and getattr(c_, "qual", "") != q for c_ in ctx.R.resolve_call(f, rv_)):
                # delegates to another copy producer on the incoming object (e.g. processor.replace(changes)): that one
                # is held to the same obligations by this rule
                ctx.ok(q + "#return", f"returns the private copy made by {norm(rv_.func)[:40]}", where=f, node=r)
                continue
            if not isinstance(r.value, ast.Name):
                ctx.fail(q + "#return", f"returns {norm(r.value)[:60]} instead of the local deep copy", where=f, node=r)
                continue
            ok, why = _defs_are_deepcopy(ctx, f, r.value.id, r, {src})
            ctx.check(ok, q + "#return", f"returns copy.deepcopy({src}) (after the sets)" if ok else why, where=f, node=r)
    # constructor of the fitting problem copies as well
    init = ctx.func("pyxel.calibration.fitting_datatree:ModelFittingDataTree.__init__")
    sts = [st for st, t in stores(init.node, lambda t: dotted(t) == "self.param_processor_list")]
    ok = len(sts) == 1 and isinstance(sts[0].value, ast.Name)
    if ok:
        var = sts[0].value.id
        for st, val in local_defs(init, var):
            v = val
            if isinstance(v, ast.List) and len(v.elts) == 1:
                src = _is_deepcopy(ctx, init, v.elts[0])
                ok = ok and src is not None and dotted(src) == "processor"
            elif isinstance(v, ast.Call) and any(getattr(c, "qual", "") == "pyxel.calibration.fitting_datatree:build_processors" for c in ctx.R.resolve_call(init, v)):
                a = arg_or_kw(v, 0, "processor")
                ok = ok and a is not None and dotted(a) == "processor"
            else:
                ok = False
    ctx.check(ok, init.qual + "#processors", "the problem keeps deep copies of the caller's processor" if ok else "the fitting problem keeps the caller's processor itself", where=init, node=sts[0] if sts else init.node)
    bp = ctx.func("pyxel.calibration.fitting_datatree:build_processors")
    # the returned list, whatever it is called: the accumulator that is returned
    rets_ = [r for r in returns_of(bp) if r.value is not None]
    accs = {dotted(r.value) for r in rets_ if isinstance(r.value, ast.Name)} or {"processors"}
    app = [c for c in calls_in(bp.node) if isinstance(c.func, ast.Attribute) and c.func.attr == "append" and dotted(c.func.value) in accs]
    ok = bool(app)
    for c in app:
        a = c.args[0] if c.args else None
        if isinstance(a, ast.Name):
            # a named copy of the built processor (`e = new_processor; acc.append(e)`)
            ds_ = [v_ for _s, v_ in local_defs(bp, a.id) if v_ is not None]
            if len(ds_) == 1 and isinstance(ds_[0], ast.Name):
                a = ds_[0]
        if not isinstance(a, ast.Name):
            ok = False
            continue
        o, why = _defs_are_deepcopy(ctx, bp, a.id, c, {"processor"})
        ok = ok and o
    ctx.check(ok, bp.qual + "#append", "every built processor is its own deep copy" if ok else "build_processors collects processors that are not fresh deep copies", where=bp, node=app[0] if app else bp.node)


def r2_copy_is_what_runs(ctx):
    """At every non-deprecated call of exposure.run_pipeline outside plain exposure mode, the `processor=` argument's reaching definition is the result of a copy-producing function (create_new_processor / Processor.replace / update_processor)."""
    f_run = ctx.func(RUN)
    n = 0
    for s in ctx.R.sites_calling(RUN):
        f = s.caller
        if f.module.name in DEPRECATED:
            continue
        if f.qual == "pyxel.exposure.exposure:Exposure.run_exposure":
            ctx.ok(f"{f.qual}->run_pipeline", "exposure mode runs the user's processor by design (single run; C06 quantifies over observation/calibration runs)", where=f, node=s.node)
            continue
        n += 1
        a = s.arg_for(f_run, "processor")
        c = f"{f.qual}->run_pipeline"
        if a is None:
            ctx.fail(c, "no processor argument", where=f, node=s.node)
            continue
        if not isinstance(a, ast.Name):
            v = a
            srcs = [v]
        else:
            g = ctx.cfg(f)
            nodes = [nd for nd in g.nodes if nd.ast is not None and nd.kind == "stmt" and contains(nd.ast, s.node)]
            srcs = []
            for nd in nodes:
                for d in defs_reaching(g, a.id, nd):
                    if d is g.entry:
                        srcs.append(None)
                    else:
                        srcs.append(getattr(d.ast, "value", None) if isinstance(d.ast, (ast.Assign, ast.AnnAssign)) else None)
        ok = bool(srcs)
        why = ""
        for v in srcs:
            if v is None or not isinstance(v, ast.Call):
                ok = False
                why = f"`{norm(a)}` can be the caller's own processor / a loop element (definition: {norm(v) if v is not None else 'parameter or loop target'})"
                continue
            callees = {getattr(x, "qual", None) for x in ctx.R.resolve_call(f, v)}
            if not callees & set(COPY_PRODUCERS):
                ok = False
                why = f"`{norm(a)}` = {norm(v)[:70]} is not produced by a copy-producing function"
                continue
            prod = next(iter(callees & set(COPY_PRODUCERS)))
        ctx.check(ok, c, "runs a per-run deep copy" if ok else why, where=f, node=s.node)
    ctx.floor(n, 4)


def r3_deepcopy_completeness(ctx):
    """Processor.__deepcopy__ deep-copies detector, pipeline and observation into the constructor slot of the same attribute; ModelGroup.__deepcopy__ deep-copies its models; no other class defines a copy/pickle hook."""
    dc = ctx.func(f"{PROC}.__deepcopy__")
    init = ctx.func(f"{PROC}.__init__")
    slot_attr = {}
    for p in init.params[1:]:
        sts = [st for st, t in stores(init.node, lambda t: isinstance(t, ast.Attribute) and dotted(t.value) == "self") if getattr(st, "value", None) is not None and dotted(st.value) == p]
        if len(sts) == 1:
            t = sts[0].targets[0] if isinstance(sts[0], ast.Assign) else sts[0].target
            slot_attr[p] = t.attr
    rets = [r for r in returns_of(dc) if r.value is not None]
    ok = len(rets) == 1 and isinstance(rets[0].value, ast.Call) and call_name(rets[0].value) in ("Processor", "type(self)", "self.__class__")
    ctx.check(ok, dc.qual + "#ctor", "returns a new Processor" if ok else f"returns {norm(rets[0].value)[:60] if rets else None}", where=dc, node=rets[0] if rets else dc.node)
    if ok:
        cl = rets[0].value
        for i, p in enumerate(init.params[1:]):
            a = arg_or_kw(cl, i, p)
            attr = slot_attr.get(p)
            src = _is_deepcopy(ctx, dc, a) if a is not None else None
            good = src is not None and attr is not None and dotted(src) == f"self.{attr}"
            ctx.check(good, dc.qual + f"#{p}", f"{p}=deepcopy(self.{attr})" if good else f"constructor slot {p} receives {norm(a) if a is not None else 'nothing (default)'}: not a deep copy of self.{attr}", where=dc, node=a if a is not None else cl)
    mg = ctx.func("pyxel.pipelines.model_group:ModelGroup.__deepcopy__")
    rets = [r for r in returns_of(mg) if r.value is not None]
    ok = len(rets) == 1
    if ok:
        v = expand(mg, rets[0].value)
        ok = isinstance(v, ast.Call) and call_name(v) == "ModelGroup"
        if ok:
            m = arg_or_kw(v, 0, "models")
            nm = arg_or_kw(v, 1, "name")
            src = _is_deepcopy(ctx, mg, m) if m is not None else None
            ok = src is not None and dotted(src) == "self.models" and nm is not None and dotted(nm) == "self._name"
    ctx.check(ok, mg.qual, "ModelGroup(models=deepcopy(self.models), name=self._name)" if ok else "ModelGroup.__deepcopy__ shares its model list", where=mg, node=rets[0] if rets else mg.node)
    allowed = {
        f"{PROC}.__deepcopy__",
        "pyxel.pipelines.model_group:ModelGroup.__deepcopy__",
        "pyxel.pipelines.model_group:ModelGroup.__getstate__",
        "pyxel.pipelines.model_group:ModelGroup.__setstate__",
    }
    hooks = {"__copy__", "__deepcopy__", "__reduce__", "__reduce_ex__", "__getstate__", "__setstate__", "__getnewargs__", "__getnewargs_ex__"}
    for ci in ctx.repo.classes.values():
        if ci.module.name in DEPRECATED:
            continue
        for name in hooks & set(ci.methods):
            q = ci.methods[name].qual
            ok = q in allowed
            ctx.check(ok, q, "reviewed copy hook" if ok else f"unreviewed copy/pickle hook {name}: may share state between the caller's object and a run's copy", where=ci.methods[name], node=ci.methods[name].node)
    gs = ctx.func("pyxel.pipelines.model_group:ModelGroup.__getstate__")
    rets = [r for r in returns_of(gs) if r.value is not None]
    ok = len(rets) == 1 and isinstance(rets[0].value, ast.Dict) and "self.models" in norm(rets[0].value) and "self._name" in norm(rets[0].value)
    ctx.check(ok, gs.qual + "#state", "state carries models and name" if ok else "pickled state lost models or name", where=gs, node=rets[0] if rets else gs.node)


READONLY = {
    RUN: ["readout", "outputs"],
    "pyxel.observation.observation:Observation._run_single_pipeline": ["processor"],
    "pyxel.observation.observation:Observation.run_pipelines": ["processor"],
    "pyxel.observation.observation_dask:_run_pipelines_array_to_datatree": ["processor", "readout", "outputs"],
    "pyxel.observation.observation_dask:_run_pipelines_tuple_to_array": ["processor", "readout", "outputs"],
    "pyxel.observation.observation_dask:run_pipelines_with_dask": ["processor", "readout", "outputs"],
    "pyxel.calibration.fitting_datatree:ModelFittingDataTree._apply_parameters": ["processor"],
    "pyxel.calibration.fitting_datatree:ModelFittingDataTree.update_processor": ["processor"],
    "pyxel.observation.misc:create_new_processor": ["processor"],
    "pyxel.calibration.fitting_datatree:build_processors": ["processor"],
}
MUTATING_METHODS = {"set", "empty", "set_readout", "update", "append", "extend", "clear", "pop", "remove", "insert", "setdefault", "run_pipeline", "reset"}


def r4_shared_inputs_read_only(ctx):
    """The functions that receive the caller's processor / readout / outputs perform no attribute or item store on them, call no mutating method on them, and (R2) never run them."""
    n = 0
    for q, params in READONLY.items():
        f = ctx.func(q)
        for p in params:
            if p not in f.params:
                raise AnalysisError(f"{q}: parameter {p} vanished")
            n += 1
            bad = []
            rebinding = [st for st, val in local_defs(f, p)]
            for st, t in stores(f.node, lambda t: isinstance(t, (ast.Attribute, ast.Subscript))):
                base = t
                while isinstance(base, (ast.Attribute, ast.Subscript)):
                    base = base.value
                if isinstance(base, ast.Name) and base.id == p and not rebinding:
                    bad.append(st)
            for c in calls_in(f.node):
                if isinstance(c.func, ast.Attribute) and c.func.attr in MUTATING_METHODS:
                    base = c.func.value
                    while isinstance(base, (ast.Attribute, ast.Subscript)):
                        base = base.value
                    if isinstance(base, ast.Name) and base.id == p and not rebinding:
                        bad.append(c)
                if call_name(c) in ("setattr", "delattr") and c.args and isinstance(c.args[0], (ast.Name, ast.Attribute)):
                    base = c.args[0]
                    while isinstance(base, ast.Attribute):
                        base = base.value
                    if isinstance(base, ast.Name) and base.id == p:
                        bad.append(c)
            if rebinding and q.endswith("ModelFittingDataTree.fitness"):
                pass
            ctx.check(not bad, f"{q}#{p}", f"`{p}` is only read" if not bad else f"the caller's `{p}` is modified: {norm(bad[0])[:80]}", where=f, node=bad[0] if bad else f.node)
    ctx.floor(n, 15)
    # fitness: elements of self.param_processor_list are only handed to update_processor
    fit = ctx.func("pyxel.calibration.fitting_datatree:ModelFittingDataTree.fitness")
    for st, t in stores(fit.node, lambda t: isinstance(t, (ast.Attribute, ast.Subscript))):
        if "param_processor_list" in norm(t):
            ctx.fail(fit.qual + "#list", f"fitness rewrites the stored processors: {norm(st)[:80]}", where=fit, node=st)
    for c in calls_in(fit.node):
        if isinstance(c.func, ast.Attribute) and c.func.attr == "set" and dotted(c.func.value) in ("processor",):
            ctx.fail(fit.qual + "#set", "fitness sets parameters on a stored processor directly", where=fit, node=c)
    _no_stores_on_shared_elements(ctx)


def _no_stores_on_shared_elements(ctx):
    """Per-evaluation functions of the fitting problem run concurrently (DaskBFE, delayed champion re-simulation) on ONE
    problem object: they must not write attributes / items of `self` or of the elements of its shared collections
    (`for var in self._variables: var.current = ..` makes one candidate run with another candidate's values)."""
    for q in ("pyxel.calibration.fitting_datatree:ModelFittingDataTree.update_processor", "pyxel.calibration.fitting_datatree:ModelFittingDataTree.fitness", "pyxel.calibration.fitting_datatree:ModelFittingDataTree._apply_parameters", "pyxel.calibration.fitting_datatree:ModelFittingDataTree.convert_to_parameters"):
        f = ctx.func(q)
        shared = {"self"}
        for lp in loops_in(f.node):
            if isinstance(lp, ast.For) and (dotted(expand(f, lp.iter)) or "").startswith("self.") or (isinstance(lp, ast.For) and isinstance(expand(f, lp.iter), ast.Call) and any((dotted(a_) or "").startswith("self.") for a_ in expand(f, lp.iter).args)):
                shared |= {x.id for x in ast.walk(lp.target) if isinstance(x, ast.Name)}
        bad = []
        for st, t in stores(f.node, lambda t: isinstance(t, (ast.Attribute, ast.Subscript))):
            base = t
            while isinstance(base, (ast.Attribute, ast.Subscript)):
                base = base.value
            if isinstance(base, ast.Name) and base.id in shared:
                bad.append(st)
        for c in calls_in(f.node):
            if call_name(c) == "setattr" and c.args and isinstance(c.args[0], ast.Name) and c.args[0].id in shared:
                bad.append(c)
        ctx.check(not bad, q + "#problem-read-only", "the shared problem object and its variables are only read" if not bad else f"`{norm(bad[0])[:70]}` writes into state shared by all concurrent evaluations of the problem: an evaluation can run with another candidate's values", where=f, node=bad[0] if bad else f.node)


def r5_readout_replace_complete(ctx):
    """Readout.replace (used by the dask path to derive a run's readout) starts from every constructor setting of the current readout (times, start_time, non_destructive), lets only the given changes override them, and builds a new Readout from the merge."""
    f = ctx.func("pyxel.exposure.readout:Readout.replace")
    init = ctx.func("pyxel.exposure.readout:Readout.__init__")
    rets = [r for r in returns_of(f) if r.value is not None]
    ok = len(rets) == 1 and isinstance(rets[0].value, ast.Call) and call_name(rets[0].value) in ("Readout", "type(self)", "self.__class__")
    ctx.check(ok, f.qual + "#new", "returns a new Readout" if ok else "does not return a new Readout", where=f, node=rets[0] if rets else f.node)
    if not ok:
        return
    cl = rets[0].value
    star = [k for k in cl.keywords if k.arg is None]
    kwv = f.node.args.kwarg.arg if f.node.args.kwarg else None
    merged = expand(f, star[0].value) if len(star) == 1 else None
    base = None
    if isinstance(merged, ast.Dict) and all(k is None for k in merged.keys) and len(merged.values) == 2:
        first, second = merged.values
        okm = dotted(second) == kwv
        base = expand(f, first) if okm else None
        ctx.check(okm, f.qual + "#override", "the requested changes override the current settings" if okm else f"merge order is {norm(merged)}: current settings override the requested changes", where=f, node=rets[0])
    elif isinstance(merged, ast.Dict):
        base = merged
    elif len(star) == 1 and isinstance(star[0].value, ast.Name):
        # built step by step: d = {<current settings>} ; d.update(changes)   (sa/astutil.py:dict_display)
        from sa.astutil import dict_display

        dd = dict_display(f, star[0].value.id)
        if dd is not None and dd.keys and dd.keys[-1] is None and all(k is not None for k in dd.keys[:-1]):
            okm = dotted(dd.values[-1]) == kwv
            ctx.check(okm, f.qual + "#override", "the requested changes override the current settings" if okm else f"merge order is {norm(dd)}: current settings override the requested changes", where=f, node=rets[0])
            base = ast.Dict(keys=dd.keys[:-1], values=dd.values[:-1]) if okm else None
        elif dd is not None and any(k is None for k in dd.keys):
            ctx.fail(f.qual + "#override", f"merge order is {norm(dd)}: current settings override the requested changes", where=f, node=rets[0])
    from sa.astutil import flow_closure

    have = {}
    if isinstance(base, ast.Dict):
        have.update({k.value: v for k, v in zip(base.keys, base.values) if isinstance(k, ast.Constant)})
    for k in cl.keywords:
        if k.arg is not None:
            have[k.arg] = k.value
    if not have:
        ctx.fail(f.qual + "#base", f"the new readout is not built from the current settings ({norm(cl)[:70]})", where=f, node=rets[0])
        return
    want = {"times": "self._times", "start_time": "self._start_time", "non_destructive": "self._non_destructive"}
    for k, src in want.items():
        if k not in init.params:
            raise AnalysisError(f"Readout.__init__ lost parameter {k}")
        v = have.get(k)
        okk = False
        if v is not None:
            chains = {dotted(a) for a in ast.walk(expand(f, v)) if isinstance(a, ast.Attribute)}
            closure_attrs = set()
            for nm in flow_closure(f, v):
                for st_, val_ in local_defs(f, nm):
                    if val_ is not None:
                        closure_attrs |= {dotted(a) for a in ast.walk(val_) if isinstance(a, ast.Attribute)}
            okk = bool({src, src.replace("self._", "self.")} & (chains | closure_attrs))
        ctx.check(okk, f.qual + f"#{k}", f"carries {k} from {src}" if okk else f"the derived readout does not carry the current `{k}` (falls back to the constructor default)", where=f, node=rets[0])


def r6_set_stores_fresh_sequences(ctx):
    """Processor.set with conversion: a sequence value is stored as a NEW list built element by element, never as the caller's own list object (a per-run copy would otherwise share the list with the caller's pipeline and with every other run).  Decided per path (sa/paths.py)."""
    from sa.paths import enumerate_paths

    st = ctx.func(f"{PROC}.set")
    vp = st.params[2] if len(st.params) > 2 else "value"
    n = 0
    for q in enumerate_paths(st.node.body):
        if q.exit == "raise":
            continue
        seq = any(pol and "Sequence" in t and f"isinstance({vp}," in t for t, pol in q.cond_texts())
        conv = q.holds("convert_value")
        if not seq or conv is False:
            continue
        stored = [e.value for e in q.effects if e.kind == "store"] + [c.args[2] for fn_, c, _ in q.calls if fn_ == "setattr" and len(c.args) == 3]
        for v in stored:
            n += 1
            fresh = isinstance(v, (ast.ListComp, ast.List)) or (isinstance(v, ast.Call) and call_name(v) in ("list", "tuple", "copy.deepcopy", "deepcopy"))
            ctx.check(fresh, st.qual + "#fresh-sequence", "a sequence value is stored as a newly built list" if fresh else f"on the path {q.cond_texts()} the caller's own sequence object `{norm(v)[:60]}` is stored: run copies and the caller's pipeline share it", where=st, node=q.exit_node or st.node)
    ctx.floor(n, 1)


def r7_no_shared_class_state(ctx):
    """No class of the package holds a mutable container as a CLASS attribute (`_memory: dict = {}` in the class body): such an object is shared by every instance and is not duplicated by deepcopy, so runs would see each other's detector memory."""
    n = 0
    for q, ci in sorted(ctx.repo.classes.items()):
        if ci.module.name in DEPRECATED:
            continue
        for name, val in ci.consts.items():
            n += 1
            mutable = isinstance(val, (ast.Dict, ast.List, ast.Set, ast.ListComp, ast.DictComp, ast.SetComp)) or (isinstance(val, ast.Call) and call_name(val).split(".")[-1] in ("dict", "list", "set", "defaultdict", "OrderedDict", "deque", "Counter", "bytearray"))
            if mutable:
                ctx.fail(f"{q}.{name}", f"class attribute `{name} = {norm(val)[:40]}` is ONE mutable object shared by every instance and every deep copy of {ci.name}: state kept in it leaks between runs and into the caller's objects", where=ci, node=val)
    ctx.check(True, "pyxel#class-attributes", f"{n} class-level attributes inspected, none is a mutable container", where=ctx.repo.module("pyxel.detectors.detector"))


FIXTURES = {
    "r7_no_shared_class_state": {"dir": "c06_r7", "expect_construct": "_memory"},
}

def r8_only_this_runs_values_changed(ctx):
    """"Only that run's parameter values changed": every sequential run's parameter set is the user's defaults with that run's single (key, value) laid over them in a FRESH mapping - no accumulation from one run into the next (shared with C05.R2)."""
    from props.C05 import r2_run_space

    r2_run_space(ctx)


def r9_every_run_seeded_on_its_own(ctx):
    """"Does not depend on which other runs exist, on their order": with a pipeline seed every run is seeded on its own - the seed reaches run_pipeline at every call site, which wraps the model runs of that ONE run in set_random_seed (shared with C04.R3); a stream seeded once around the loop makes run k depend on runs 0..k-1."""
    from props.C04 import r3_mode_seed_reaches_pipeline

    r3_mode_seed_reaches_pipeline(ctx)


def r10_runs_built_from_this_calls_configuration(ctx):
    """Every call of run_pipelines enumerates its runs from the processor it was given (get_parameters_item of the current call), validates and runs all of them (shared with C05.R6): a run list kept from an earlier call embeds that call's defaults."""
    from props.C05 import r6_validation_first

    r6_validation_first(ctx)


RULES = [r9_every_run_seeded_on_its_own, r10_runs_built_from_this_calls_configuration, r8_only_this_runs_values_changed, r6_set_stores_fresh_sequences, r7_no_shared_class_state, r5_readout_replace_complete, r1_fresh_copy_per_run, r2_copy_is_what_runs, r3_deepcopy_completeness, r4_shared_inputs_read_only]
