"""C14 - charge is accounted identically as arrays and as positioned clusters."""

from __future__ import annotations

import ast

from sa.paths import declared_nonnull, enumerate_paths
from sa.astutil import (
    knows,
    only_knows,
    arg_or_kw,
    call_name,
    calls_in,
    conjuncts,
    contains,
    enclosing_loop,
    enclosing_tests,
    expand,
    kw,
    local_defs,
    names_in,
    raising_ifs,
    returns_of,
    stores,
)
from sa.index import AnalysisError, dotted, enclosing_stmt, norm, walk_local, walk_ordered
from sa.poly import to_poly

EXPLANATION = (
    "Bounds/wiring analysis of the two charge representations: the index arrays that reach the "
    "unchecked numba store are filtered by a mask made of the four bounds comparisons (vertical "
    "index against rows, horizontal against columns) and the charge numbers by the same mask; "
    "row = floor(position_ver / pixel_vert_size), column likewise; the array->cluster conversion "
    "places entries at (index + 1/2) * pixel size in row-major order with one common non-zero mask; "
    "switching representation concatenates the converted array BEFORE the new clusters and never "
    "drops either; add_charge_array validates before it adds; reset zeroes array, table and id."
)
NOT_DECIDED = ["the per-pixel sums themselves", "semantics of removing clusters after the array view was read"]
ASSUMPTIONS = ["numba performs no bounds check on subscripts and wraps negative indices"]

CH = "pyxel.data_structure.charge:Charge"
GEO = "pyxel.detectors.geometry"


def _kernel(ctx, f):
    ks = [k for k in f.nested.values() if any("njit" in d or "jit" in d for d in k.decorators)]
    if len(ks) != 1:
        return None
    return ks[0]


def r1_bounded_write(ctx):
    """convert_df_to_array: every index that reaches the numba kernel's `array[v, h] += x` has passed a bounds filter 0 <= v < rows and 0 <= h < cols (a common boolean mask applied to the vertical indices, the horizontal indices and the charge numbers, or a test inside the kernel)."""
    f = ctx.func(f"{CH}.convert_df_to_array")
    k = _kernel(ctx, f)
    if k is None:
        raise AnalysisError("convert_df_to_array: numba kernel not found")
    ctx.trust("numba performs no bounds check on subscripts and wraps negative indices")
    # the kernel's store
    sts = [s for s in walk_ordered(k.node) if isinstance(s, (ast.AugAssign, ast.Assign)) and isinstance((s.target if isinstance(s, ast.AugAssign) else s.targets[0]), ast.Subscript)]
    if len(sts) != 1:
        raise AnalysisError("kernel store not recognised")
    st = sts[0]
    if isinstance(st, ast.Assign):
        ctx.fail(f.qual + "#accumulate", "the kernel overwrites a pixel instead of adding to it: several clusters in one pixel are not summed", where=f, node=st)
        return
    # in-kernel guard?
    ts = enclosing_tests(st)
    inkernel = False
    if ts:
        txt = " and ".join(norm(t) for t, pol in ts if pol)
        inkernel = txt.count("<") + txt.count(">=") >= 4 and "shape[0]" in txt and "shape[1]" in txt
    calls = [c for c in calls_in(f.node) if isinstance(c.func, ast.Name) and c.func.id == k.name]
    if len(calls) != 1:
        raise AnalysisError("kernel call not recognised")
    c = calls[0]
    args = {p: arg_or_kw(c, i, p) for i, p in enumerate(k.params)}
    idx_params = []
    if isinstance(st.target.slice, ast.Tuple):
        for e in st.target.slice.elts:
            if isinstance(e, ast.Subscript):
                idx_params.append(dotted(e.value))
            else:
                idx_params.append(dotted(e))
    if len(idx_params) != 2 or not all(p in k.params for p in idx_params):
        raise AnalysisError(f"kernel indexes with {idx_params}")
    if inkernel:
        ctx.ok(f.qual + "#bounds", "bounds are tested inside the kernel before the store", where=f, node=st)
        return
    pv, ph = idx_params
    masks = {}
    for p in (pv, ph):
        a = args.get(p)
        if isinstance(a, ast.Subscript) and isinstance(a.slice, ast.Name):
            masks[p] = (dotted(a.value), a.slice.id)
        else:
            masks[p] = (dotted(a) if a is not None else None, None)
    for p, axis, size in ((pv, "vertical", "self._geo.row"), (ph, "horizontal", "self._geo.col")):
        src, m = masks[p]
        if m is None:
            ctx.fail(f.qual + f"#bounds:{axis}", f"the {axis} index array `{src}` reaches the unchecked numba store without a bounds filter: a cluster outside the sensitive area is credited to another pixel (negative index wraps) or writes out of bounds", where=f, node=c)
            continue
        mdef = [val for s_, val in local_defs(f, m) if val is not None]
        ok = len(mdef) == 1
        if ok:
            keep_ = {s_ for s_, _ in masks.values() if s_}
            cj = {norm(x) for x in _and_terms(expand(f, mdef[0], _seen=keep_))}
            need = {f"{src} >= 0", f"{src} < {size}"}
            alt = {f"0 <= {src}", f"{src} < {size}"}
            ok = need <= cj or alt <= cj or f"0 <= {src} < {size}" in cj
        ctx.check(ok, f.qual + f"#bounds:{axis}", f"0 <= {src} < {size} enforced by mask `{m}`" if ok else f"mask `{m}` does not enforce 0 <= {src} < {size}", where=f, node=c)
    # all kernel data arguments filtered by the same mask
    ms = {m for _, m in masks.values()}
    if len(ms) == 1 and None not in ms:
        m = ms.pop()
        for p in k.params:
            a = args.get(p)
            if p in (pv, ph) or p == k.params[0]:
                continue
            ok = isinstance(a, ast.Subscript) and dotted(a.slice) == m
            ctx.check(ok, f.qual + f"#aligned:{p}", f"`{p}` filtered by the same mask" if ok else f"`{p}` is not filtered by the bounds mask: charge numbers and positions are misaligned", where=f, node=c)


def _and_terms(e: ast.expr):
    if isinstance(e, ast.BinOp) and isinstance(e.op, ast.BitAnd):
        return _and_terms(e.left) + _and_terms(e.right)
    if isinstance(e, ast.BoolOp) and isinstance(e.op, ast.And):
        out = []
        for v in e.values:
            out += _and_terms(v)
        return out
    if isinstance(e, ast.Call) and call_name(e) in ("np.logical_and",):
        out = []
        for v in e.args:
            out += _and_terms(v)
        return out
    return [e]


def r2_binning(ctx):
    """Row index = floor_divide(position_ver, pixel_vert_size), column index = floor_divide(position_hor, pixel_horz_size), both cast to int; the kernel adds `number` at [row index, column index] once per cluster into a zero array of (rows, cols)."""
    f = ctx.func(f"{CH}.convert_df_to_array")
    k = _kernel(ctx, f)
    if k is None:
        raise AnalysisError("kernel not found")
    calls = [c for c in calls_in(f.node) if isinstance(c.func, ast.Name) and c.func.id == k.name]
    c = calls[0]
    args = {p: arg_or_kw(c, i, p) for i, p in enumerate(k.params)}
    cand = [s for s in walk_ordered(k.node) if isinstance(s, ast.AugAssign) and isinstance(s.target, ast.Subscript)]
    if not cand:
        ctx.fail(k.qual, "kernel does not add each cluster's number at its (row, column) index", where=f, node=k.node)
        return
    st = cand[0]
    lp = enclosing_loop(st)
    ok = isinstance(lp, ast.For) and isinstance(st.op, ast.Add)
    if ok:
        it = lp.iter
        ok = isinstance(it, ast.Call) and call_name(it) == "enumerate" and dotted(it.args[0]) in k.params and isinstance(lp.target, ast.Tuple)
        if ok:
            iv, cv = (dotted(x) for x in lp.target.elts)
            num_p = dotted(it.args[0])
            sl = st.target.slice
            ok = isinstance(sl, ast.Tuple) and all(isinstance(e, ast.Subscript) and dotted(e.slice) == iv for e in sl.elts) and dotted(st.value) == cv and dotted(st.target.value) == k.params[0]
    ctx.check(ok, k.qual, "array[ver[i], hor[i]] += number[i] for every cluster" if ok else "kernel does not add each cluster's number at its (row, column) index", where=f, node=st)
    if not ok:
        return
    pv, ph = (dotted(e.value) for e in st.target.slice.elts)

    def base(a):
        return a.value if isinstance(a, ast.Subscript) else a

    for p, pos, size in ((pv, "position_ver", "self._geo.pixel_vert_size"), (ph, "position_hor", "self._geo.pixel_horz_size")):
        a = expand(f, base(args[p]))
        txt = norm(a)
        src = f"self.get_frame_values(quantity='{pos}')"
        wants = {f"np.floor_divide({src}, {size}).astype(int)", f"np.floor({src} / {size}).astype(int)", f"({src} // {size}).astype(int)", f"np.floor_divide({src}, {size}).astype(np.int64)"}
        okp = txt in wants
        ctx.check(okp, f.qual + f"#{p}", f"{p} = floor({pos} / {size.split('.')[-1]})" if okp else f"{p} is computed as {txt[:110]}", where=f, node=c)
    n = expand(f, base(args[num_p]))
    okn = norm(n) == "self.get_frame_values(quantity='number')"
    ctx.check(okn, f.qual + "#number", "cluster sizes read from column 'number'" if okn else f"charge numbers come from {norm(n)[:60]}", where=f, node=c)
    a0 = expand(f, args[k.params[0]])
    oka = norm(a0) in ("np.zeros((self._geo.row, self._geo.col))", "np.zeros((self._geo.row, self._geo.col), dtype=float)", "np.zeros(shape=(self._geo.row, self._geo.col))")
    ctx.check(oka, f.qual + "#zeros", "accumulates into zeros(rows, cols)" if oka else f"accumulates into {norm(a0)[:60]}", where=f, node=c)
    rets = [r for r in returns_of(f) if r.value is not None]
    okr = len(rets) == 1 and rets[0].value is c
    ctx.check(okr, f.qual + "#return", "returns the kernel's result" if okr else "does not return the binned array", where=f, node=rets[0] if rets else f.node)
    gv = ctx.func(f"{CH}.get_frame_values")
    okg = any(norm(r.value) in ("array", "df[quantity].values") for r in returns_of(gv) if r.value is not None) and "df[quantity].values" in norm(gv.node)
    ctx.check(okg, gv.qual, "returns the requested column" if okg else "get_frame_values does not return the requested column", where=gv, node=gv.node)


def r3_representation_switch(ctx):
    """add_charge_array validates type and shape, then adds in place when no clusters exist, else converts the array to clusters and appends them; add_charge_dataframe converts an existing non-zero array to clusters and concatenates it BEFORE the new ones (nothing dropped), else concatenates with / takes the existing table; convert_array_to_df places every positive pixel at (index + 1/2) * pixel size, row-major, under one common mask; the array view is recomputed from the clusters whenever clusters exist."""
    f = ctx.func(f"{CH}.add_charge_array")
    g = ctx.cfg(f)
    p = f.params[1]
    vals = [c for c in calls_in(f.node) if dotted(c.func) in ("self.validate_type", "self.validate_shape") and c.args and dotted(c.args[0]) == p]
    adds = [s for s in walk_ordered(f.node) if isinstance(s, ast.AugAssign) and dotted(s.target) == "self._array"]
    ok = len(vals) == 2 and len(adds) == 1
    if ok:
        vn = [n for c in vals for n in g.nodes if n.ast is not None and n.kind == "stmt" and contains(n.ast, c)]
        ok = all(g.must_precede([v], a) for v in vn for a in g.nodes_of(adds[0])) and isinstance(adds[0].op, ast.Add) and dotted(adds[0].value) == p
    ctx.check(ok, f.qual + "#validate", "type and shape validated before `self._array += array`" if ok else "the array is added without type/shape validation (or not added as given)", where=f, node=adds[0] if adds else f.node)
    if adds:
        ts = enclosing_tests(adds[0])
        okt = len(ts) == 1 and ts[0][1] and norm(ts[0][0]) == "self._frame.empty"
        ctx.check(okt, f.qual + "#array-branch", "in-place add only while no clusters exist" if okt else f"in-place add happens under {[(norm(t), pol) for t, pol in ts]}", where=f, node=adds[0])
    conv = [c for c in calls_in(f.node) if call_name(c).endswith("convert_array_to_df")]
    app = [c for c in calls_in(f.node) if dotted(c.func) == "self.add_charge_dataframe"]
    ok = len(conv) == 1 and len(app) == 1
    if ok:
        want = {"array": p, "num_cols": "self._geo.col", "num_rows": "self._geo.row", "pixel_vertical_size": "self._geo.pixel_vert_size", "pixel_horizontal_size": "self._geo.pixel_horz_size"}
        ok = all(kw(conv[0], k_) is not None and dotted(kw(conv[0], k_)) == v for k_, v in want.items())
        a = app[0].args[0] if app[0].args else kw(app[0], "new_charges")
        ok = ok and a is not None and norm(expand(f, a)).startswith("Charge.convert_array_to_df(")
    ctx.check(ok, f.qual + "#cluster-branch", "with clusters present the array is converted (rows<->rows, cols<->cols, sizes) and appended" if ok else "with clusters present the added array is not converted and appended correctly", where=f, node=conv[0] if conv else f.node)
    d = ctx.func(f"{CH}.add_charge_dataframe")
    gd = ctx.cfg(d)
    p = d.params[1]
    # representation switch, decided per path (sa/paths.py): what is stored into self._frame when
    #   clusters exist              -> concat([self._frame, new])
    #   no clusters, array all zero -> new
    #   no clusters, array non-zero -> concat([convert_array_to_df(self.array, geometry...), new])
    want_conv = {"array": ("self.array", "self._array"), "num_cols": ("self._geo.col",), "num_rows": ("self._geo.row",), "pixel_vertical_size": ("self._geo.pixel_vert_size",), "pixel_horizontal_size": ("self._geo.pixel_horz_size",)}
    seen = {"convert": None, "plain": None, "existing": None}
    paths = [q for q in enumerate_paths(d.node.body, nonnull=declared_nonnull(ctx.R, d)) if q.exit in ("fall", "return")]
    for q in paths:
        st_eff = [e for e in q.effects if e.kind == "store" and e.target == "self._frame"]
        ts = q.cond_texts()
        if len(st_eff) != 1:
            ctx.fail(d.qual + "#store", f"the cluster table is stored {len(st_eff)} times on path {ts}", where=d, node=st_eff[0].node if st_eff else d.node)
            continue
        val = st_eff[0].value
        empty = q.holds("self._frame.empty")
        zero = next((pol for t, pol in ts if "== 0" in t and ("self.array" in t or "self._array" in t)), None)
        parts = None
        if isinstance(val, ast.Call) and call_name(val).endswith("concat") and val.args and isinstance(val.args[0], ast.List):
            parts = val.args[0].elts
        case = "existing" if empty is False else ("plain" if empty and zero else "convert" if empty and zero is False else None)
        if case is None:
            ctx.fail(d.qual + "#switch", f"the table is stored on a path that does not decide clusters-present / array-empty: {ts}", where=d, node=st_eff[0].node)
            continue
        if case == "existing":
            ok = parts is not None and [norm(x) for x in parts] == ["self._frame", p]
            why = "new clusters appended to the existing table" if ok else f"with clusters present the table becomes {norm(val)[:80]}: existing clusters are not kept in front of the new ones"
            key = "#append"
        elif case == "plain":
            ok = dotted(val) == p
            why = "new clusters taken as the table only when table and array are both empty" if ok else f"with nothing stored yet the table becomes {norm(val)[:80]}"
            key = "#plain"
        else:
            ok = parts is not None and len(parts) == 2 and isinstance(parts[0], ast.Call) and call_name(parts[0]).endswith("convert_array_to_df") and norm(parts[1]) == p
            why = "existing array content is converted and kept in front of the new clusters" if ok else f"array content is not carried over when clusters arrive: table becomes {norm(val)[:90]}"
            key = "#array-first"
            if ok:
                c_ = parts[0]
                okw = all(kw(c_, k_) is not None and dotted(kw(c_, k_)) in v for k_, v in want_conv.items())
                ctx.check(okw, d.qual + "#convert-args", "conversion wired rows<->rows, cols<->cols, vertical<->vertical" if okw else "array-to-cluster conversion arguments are cross-wired", where=d, node=st_eff[0].node)
        seen[case] = ok if seen[case] is None else (seen[case] and ok)
        ctx.check(ok, d.qual + key, why, where=d, node=st_eff[0].node, facts={"path": [f"{t}={pol}" for t, pol in ts]})
    for k_, v in seen.items():
        if v is None:
            ctx.fail(d.qual + f"#case:{k_}", f"case `{k_}` of the representation switch is missing", where=d, node=d.node)
    col = [i for i in raising_ifs(d.node) if "columns" in norm(i.test)]
    ctx.check(bool(col), d.qual + "#columns", "tables with other columns are rejected" if col else "column check missing", where=d, node=col[0] if col else d.node)
    # convert_array_to_df
    cv = ctx.func(f"{CH}.convert_array_to_df")
    wz = local_defs(cv, "where_non_zero")
    ok = len(wz) == 1 and norm(wz[0][1]) == "np.where(charge_number > 0.0)" or (len(wz) == 1 and norm(wz[0][1]) == "np.where(charge_number > 0)")
    cn = [norm(v) for _, v in local_defs(cv, "charge_number") if v is not None]
    ok = ok and cn[:1] and cn[0] in ("array.flatten()", "array.ravel()", "array.reshape(-1)", "array.flatten(order='C')", "array.ravel(order='C')") and "charge_number[where_non_zero]" in cn
    ctx.check(ok, cv.qual + "#mask", "positive pixels selected from the row-major flattened array" if ok else "pixel selection changed", where=cv, node=wz[0][0] if wz else cv.node)
    cc = [c for c in calls_in(cv.node) if call_name(c).endswith("create_charges")]
    ok = len(cc) == 1
    if ok:
        c = cc[0]
        wv = norm(expand(cv, kw(c, "init_ver_position")))
        wh = norm(expand(cv, kw(c, "init_hor_position")))
        ok = dotted(kw(c, "particles_per_cluster")) == "charge_number" and wv.startswith("get_vertical_pixel_center_pos(") and wv.endswith("[np.where(charge_number > 0.0)]") or False
        ok = ok and wh.startswith("get_horizontal_pixel_center_pos(") and "pixel_horizontal_size=pixel_horizontal_size" in wh and "pixel_vertical_size=pixel_vertical_size" in wv and "num_rows=num_rows" in wv and "num_cols=num_cols" in wv
    ctx.check(ok, cv.qual + "#positions", "numbers, vertical and horizontal centre positions share one mask and their own axis" if ok else "cluster positions/numbers are cross-wired or masked differently", where=cv, node=cc[0] if cc else cv.node)
    cr = ctx.func(f"{CH}.create_charges")
    dd = [v for _, v in local_defs(cr, "new_charges") if isinstance(v, ast.Dict)]
    ok = len(dd) == 1
    if ok:
        m = {k_.value: dotted(v) for k_, v in zip(dd[0].keys, dd[0].values) if isinstance(k_, ast.Constant)}
        ok = m.get("number") == "particles_per_cluster" and m.get("position_ver") == "init_ver_position" and m.get("position_hor") == "init_hor_position"
    ctx.check(ok, cr.qual, "number / position_ver / position_hor filled from the like-named inputs" if ok else "cluster table columns are cross-wired", where=cr, node=dd[0] if dd else cr.node)
    # ... and from the inputs AS GIVEN: the particle numbers and positions are not re-assigned (rounded,
    # clipped, converted) inside create_charges - array charge passes through here whenever clusters exist
    for pn in ("particles_per_cluster", "init_ver_position", "init_hor_position"):
        redefs = [st_ for st_, _ in local_defs(cr, pn)]
        ctx.check(not redefs, cr.qual + f"#{pn}-as-given", f"{pn} is stored as given" if not redefs else f"{pn} is rewritten before it is stored ({norm(redefs[0])[:60]}): charge held as clusters no longer equals the charge that was added", where=cr, node=redefs[0] if redefs else cr.node)
    # pixel centres: (index + 1/2) * size, vertical repeated per column, horizontal tiled per row
    for fn, n_ax, n_other, size, outer in (("get_vertical_pixel_center_pos", "num_rows", "num_cols", "pixel_vertical_size", "repeat"), ("get_horizontal_pixel_center_pos", "num_cols", "num_rows", "pixel_horizontal_size", "tile")):
        gf = ctx.func(f"{GEO}:{fn}")
        from sa.symexec import SymExec

        sx = SymExec(ctx)
        env = {}
        body = [s for s in gf.node.body if not isinstance(s, ast.Return)]
        sx.run(gf, body, env)
        rets = [r for r in returns_of(gf) if r.value is not None]
        ok = len(rets) == 1 and isinstance(rets[0].value, ast.Call) and call_name(rets[0].value) == f"np.{outer}"
        if ok:
            r = rets[0].value
            inner = sx.expr(gf, r.args[0], env)
            idx = f"<np.arange(0,1*{n_ax},1)>"
            want = sx.expr(gf, ast.parse(f"(np.arange(0.0, {n_ax}, 1.0) + 0.5) * {size}", mode="eval").body, {})
            reps = arg_or_kw(r, 1, "repeats" if outer == "repeat" else "reps")
            ok = inner == want and reps is not None and dotted(reps) == n_other
        ctx.check(ok, gf.qual, f"(index + 1/2) * {size}, np.{outer}(..., {n_other})" if ok else f"pixel centre positions are not (index + 1/2) * {size} laid out row-major", where=gf, node=rets[0] if rets else gf.node)
    ar = ctx.cls(CH).getters.get("array")
    if ar is None:
        raise AnalysisError("Charge.array not found")
    sts = [s for s, t in stores(ar.node, lambda t: dotted(t) == "self._array")]
    # decided per path (sa/paths.py): with clusters the view IS convert_df_to_array() and is kept in
    # self._array; without clusters the stored array is returned untouched
    from sa.paths import canon_test, enumerate_paths as _enum_paths

    ok = True
    rpaths = [q for q in _enum_paths(ar.node.body) if q.exit in ("return", "fall")]
    ok = bool(rpaths)
    for q in rpaths:
        pols = {p2 for t, p in q.conds for t2, p2 in [canon_test(t, p)] if norm(t2) == "self._frame.empty"}
        st_q = [e for e in q.stores("self._array") if e.target == "self._array"]
        val = norm(q.value) if q.value is not None else None
        if pols == {False}:
            ok = ok and len(st_q) == 1 and st_q[0].value is not None and norm(st_q[0].value) == "self.convert_df_to_array()" and val == "self.convert_df_to_array()"
        elif pols == {True}:
            ok = ok and not st_q and val == "self._array"
        else:
            ok = False
    ctx.check(ok, ar.qual, "array view recomputed from the clusters whenever clusters exist" if ok else "the array view does not reflect the cluster table", where=ar, node=sts[0] if sts else ar.node)


def r4_reset(ctx):
    """Charge.empty resets the id counter, the cluster table and the array."""
    ce = ctx.func(f"{CH}.empty")
    ni = [s for s, t in stores(ce.node, lambda t: dotted(t) == "self.nextid")]
    ok = len(ni) == 1 and norm(ni[0].value) == "0" and not enclosing_tests(ni[0])
    ctx.check(ok, ce.qual + "#nextid", "nextid = 0" if ok else "id counter not reset", where=ce, node=ni[0] if ni else ce.node)
    from props.C02 import r5_what_empty_empties  # array / frame obligations live there

    st_arr = [s for s, t in stores(ce.node, lambda t: dotted(t) == "self._array")]
    inplace = [c for c in calls_in(ce.node) if dotted(c.func) == "self._array.fill"]
    ok = (len(st_arr) == 1 and not enclosing_tests(st_arr[0]) and "zeros" in norm(st_arr[0].value)) or (len(inplace) == 1 and not enclosing_tests(inplace[0]) and norm(inplace[0].args[0]) in ("0", "0.0"))
    ctx.check(ok, ce.qual + "#array", "array zeroed unconditionally" if ok else "reset does not zero the charge array unconditionally", where=ce, node=(st_arr or inplace or [ce.node])[0])
    st_fr = [s for s, t in stores(ce.node, lambda t: dotted(t) == "self._frame")]
    ok = len(st_fr) == 1 and "EMPTY_FRAME" in norm(st_fr[0].value)
    if ok:
        ts = enclosing_tests(st_fr[0])
        ok = not ts or only_knows(ts, "not self._frame.empty")
    ctx.check(ok, ce.qual + "#frame", "cluster table reset" if ok else "reset keeps clusters", where=ce, node=st_fr[0] if st_fr else ce.node)


def r5_clusters_addressed_by_label(ctx):
    """The id-addressed accessors of the cluster table agree on what an id is - the row's index LABEL (ids keep their value after other clusters were removed): get_frame_values / set_frame_values / remove_from_frame select `id_list` through the index (query on `index`, .loc, .drop(index=..), index.isin), never by position (boolean / integer arrays indexed with the ids, .iloc, .take)."""
    n = 0
    for name in ("get_frame_values", "set_frame_values", "remove_from_frame"):
        f = ctx.func(f"{CH}.{name}")
        if "id_list" not in f.params:
            continue
        n += 1
        uses = [x for x in ast.walk(f.node) if isinstance(x, ast.Name) and x.id == "id_list" and isinstance(x.ctx, ast.Load)]
        label, positional = [], []
        from sa.index import ancestors as _anc6

        for u in uses:
            par_chain = list(_anc6(u))
            how = None
            for a in par_chain:
                if isinstance(a, ast.stmt):
                    break
                if isinstance(a, ast.JoinedStr) and "index" in norm(a):
                    how = "label"
                    break
                if isinstance(a, ast.Call) and isinstance(a.func, ast.Attribute) and a.func.attr in ("isin", "drop", "reindex", "query", "difference", "intersection"):
                    how = "label"
                    break
                if isinstance(a, ast.keyword) and a.arg == "index":
                    how = "label"  # DataFrame(..., index=id_list) aligned by DataFrame.update
                    break
                if isinstance(a, ast.Subscript) and u in list(ast.walk(a.slice)):
                    base = a.value
                    if isinstance(base, ast.Attribute) and base.attr in ("loc", "at"):
                        how = "label"
                    elif isinstance(base, ast.Attribute) and base.attr in ("iloc", "iat", "values"):
                        how = "position"
                    else:
                        how = "position"  # plain array / frame indexing with the ids
                    break
                if isinstance(a, ast.Call) and isinstance(a.func, ast.Attribute) and a.func.attr in ("take", "delete"):
                    how = "position"
                    break
                if isinstance(a, ast.Call) and call_name(a) in ("np.delete", "np.take", "numpy.delete", "numpy.take"):
                    how = "position"
                    break
            if how == "label":
                label.append(u)
            elif how == "position":
                positional.append(u)
        ok = bool(label) and not positional
        ctx.check(ok, f.qual + "#ids-are-labels", "ids select rows through the index labels" if ok else (f"`{norm(enclosing_stmt(positional[0]))[:70]}` uses the ids as row POSITIONS while the sibling accessors use them as index labels: after an earlier removal the wrong cluster is removed / changed" if positional else "id_list is not used to select rows by label"), where=f, node=enclosing_stmt(positional[0]) if positional else f.node)
    ctx.floor(n, 3)


RULES = [r5_clusters_addressed_by_label, r1_bounded_write, r2_binning, r3_representation_switch, r4_reset]
